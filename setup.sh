#!/bin/sh
# Build the fact extractor and warm the dependency build cache (offline). Idempotent.
set -e
cd "$(dirname "$0")"
export CARGO_NET_OFFLINE=true
(cd driver && cargo build --offline 2>&1 | tail -3)
python3 - <<'PY'
import sys
sys.path.insert(0, ".")
from engine import extract
d, th, n, s = extract.ensure_facts()
print("facts ready: %s (tree %s, %d files, %.1fs)" % (d, th, n, s))
PY
