"""C09 — wire encoding is lossless and canonical: structural necessary conditions (the value-level round trip is not decided)."""
from engine import query as Q
from . import common
from engine.terms import show, subterms
from engine.guards import Atom, Walker, field_path, chain, Inliner

PF = "zksync_protobuf::proto_fmt"
TRAITS = {"read": [PF + "::ProtoFmt::read", "zksync_protobuf::repr::ProtoRepr::read"],
          "build": [PF + "::ProtoFmt::build", "zksync_protobuf::repr::ProtoRepr::build"]}
HASHED = ("std::collections::HashMap", "std::collections::HashSet", "std::collections::hash_map", "std::collections::hash_set", "im::hash", "im::HashMap", "im::HashSet")
WIDTH = {"u8": 8, "u16": 16, "u32": 32, "u64": 64, "usize": 64, "u128": 128, "i8": 8, "i16": 16, "i32": 32, "i64": 64, "isize": 64, "i128": 128}


def root_fn(f):
    while f.parent is not None:
        f = f.parent
    return f


def impls(ctx, kind):
    out = []
    for tm in TRAITS[kind]:
        for p in ctx.cg.trait_impls.get(tm, []):
            g = ctx.F.by_path.get(p)
            if g is not None and not g.in_testonly():
                out.append(g)
    return out


def family(ctx, g):
    return common.family(ctx, g, ("coroutine", "closure", "fn", "method"), include_top=True)


def proto_fields_read(ctx, g):
    """Names of fields projected from the proto parameter (param 1) anywhere in read() and its closures."""
    names = set()
    for h in family(ctx, g):
        T = ctx.T(h)
        for b in h.blocks:
            nodes = [s for s in b["s"] if s["k"] == "assign"]
            for s in nodes:
                r = s["r"]
                ps = []
                if "p" in r:
                    ps.append(r["p"])
                for o in ([r.get("o")] if r.get("o") else []) + r.get("ops", []) + [x for x in (r.get("a"), r.get("b")) if x]:
                    pl = o.get("c") or o.get("m")
                    if pl:
                        ps.append(pl)
                for pl in ps:
                    t = T.place(pl)
                    base, path = field_path(t)
                    if path and (base == ("param", 1, base[2] if len(base) > 2 else None) or base[0] == "param" and base[1] == 1 or base[0] == "upvar"):
                        names.add(path[0])
            t = b["t"]
            if t["k"] == "call":
                for o in t["args"]:
                    pl = o.get("c") or o.get("m")
                    if pl:
                        tt = T.place(pl)
                        base, path = field_path(tt)
                        if path and (base[0] == "param" and base[1] == 1 or base[0] == "upvar"):
                            names.add(path[0])
    return names


def rule_read_build_agree(ctx):
    R = "C09.1"
    ctx.rule(R, "read/build agreement (sibling rule over every ProtoFmt/ProtoRepr impl): every field of the Proto struct that build() populates is read by read() - a field written but ignored on read is a silently dropped value")
    reads = {g.item.impl_self: g for g in impls(ctx, "read")}
    builds = {g.item.impl_self: g for g in impls(ctx, "build")}
    n = 0
    for ty, b in sorted(builds.items()):
        r = reads.get(ty)
        if r is None:
            ctx.ob(R, "%s has read" % ty.split("::")[-1], False, "type %s implements build without read" % ty, b.loc())
            continue
        T = ctx.T(b)
        agg = None
        for bl in b.blocks:
            for s in bl["s"]:
                if s["k"] == "assign" and s["p"]["l"] in Q.ret_locals(b) and s["r"]["k"] == "agg" and s["r"]["ak"] == "adt":
                    agg = s["r"]
        if agg is None or agg["def"] not in ctx.F.adts and not agg["def"].startswith("zksync"):
            # enum-valued or delegated builds: nothing to compare field-wise
            continue
        fields = [f for f in agg.get("fields", [])]
        if not fields:
            continue
        n += 1
        got = proto_fields_read(ctx, r)
        # prost oneof/enums are matched on, which also counts as a read of that field
        missing = [f for f in fields if f not in got]
        ctx.ob(R, "%s" % ty.split("::", 1)[-1][-70:], not missing, "read() consumes all %d proto fields that build() writes" % len(fields) if not missing else
               "build() writes proto field(s) %s of %s that read() never reads: the value is dropped on decode" % (missing, agg["def"].split("::")[-1]), r.loc())
    ctx.floor(R, "struct-building impls compared", n, 35)
    ctx.floor(R, "read impls", len(reads), 50)


def rule_no_unordered_iteration(ctx):
    R = "C09.2"
    ctx.rule(R, "no unordered iteration on an encode path: in the call-graph closure of every build() / canonical encoding no iteration over a hashed container flows into the output unless the result is sorted or re-collected into an ordered container")
    roots = impls(ctx, "build") + [ctx.fn(PF + "::canonical_raw"), ctx.fn(PF + "::canonical"), ctx.fn(PF + "::encode")]
    cl = ctx.cg.closure(roots, lambda f: f.in_testonly())
    it_methods = ("::iter", "::values", "::keys", "::into_iter", "::into_values", "::into_keys", "::drain", "::iter_mut", "::values_mut")
    sites = []
    for f in cl:
        T = ctx.T(f)
        for c in T.calls():
            q = c["q"]
            hashed_recv = False
            if q.startswith(HASHED) and q.endswith(it_methods):
                hashed_recv = True
            elif q == "std::iter::IntoIterator::into_iter":
                tys = [f.ty(i).s for i in c["t"]["f"].get("ga", [])]
                hashed_recv = any(t.lstrip("&").startswith(HASHED) or t.lstrip("&").startswith("mut std::collections::Hash") for t in tys)
            if hashed_recv:
                sites.append((f, c))
    for f, c in sites:
        T = ctx.T(f)
        r = root_fn(f)
        fam = family(ctx, r)
        sorted_after = any(cc["q"].startswith("[T]::sort") or cc["q"].endswith(("BTreeMap::from_iter", "BTreeSet::from_iter")) or
                           (cc["q"] == "std::iter::Iterator::collect" and any(h.ty(i).s.startswith(("std::collections::BTreeMap", "std::collections::BTreeSet")) for i in cc["t"]["f"].get("ga", [])))
                           or (cc["q"] in ("std::iter::Iterator::sum", "std::iter::Iterator::count", "std::iter::Iterator::any", "std::iter::Iterator::all", "std::iter::Iterator::max", "std::iter::Iterator::min", "std::iter::Iterator::max_by_key"))
                           for h in fam for cc in ctx.T(h).calls())
        ctx.ob(R, "hashed iteration in %s" % r.qname.split("::", 1)[-1][-60:], sorted_after,
               "iteration over a hashed container is order-insensitive here (sorted / re-collected into an ordered container / folded)" if sorted_after else
               "%s iterates a hashed container on an encoding path and emits the elements in iteration order: equal values can encode to different bytes" % r.qname, f.loc(c["t"].get("ln")))
    ctx.counts["C09.2:bodies on encode paths"] = len(cl)
    ctx.counts["C09.2:hashed iteration sites"] = len(sites)
    ctx.floor(R, "bodies on encode paths", len(cl), 60)
    # positive control: the detector must match a known hashed iteration elsewhere
    pc = 0
    for f in ctx.F.fns:
        if f.crate == "zksync_consensus_bft" and not f.in_testonly():
            for c in ctx.T(f).calls():
                if c["q"].startswith(HASHED) and c["q"].endswith(it_methods):
                    pc += 1
    ctx.ob(R, "positive control", pc >= 1, "the hashed-iteration detector matches %d site(s) in bft (e.g. HashMap::values in backup_state)" % pc)


def rule_no_narrowing(ctx):
    R = "C09.3"
    ctx.rule(R, "no narrowing conversion in read/build bodies: every integer `as` cast is widening; narrowing goes through try_from/try_into with a propagated error (reviewed exceptions in tables/codec_casts.json)")
    table = {(e["fn"], e["from"], e["to"]): e for e in ctx.table("codec_casts.json")["casts"]}
    n = 0
    for kind in ("read", "build"):
        for g in impls(ctx, kind):
            for h in family(ctx, g):
                for b in h.blocks:
                    for s in b["s"]:
                        if s["k"] == "assign" and s["r"]["k"] == "cast" and s["r"]["ck"] == "IntToInt":
                            a, t = h.ty(s["r"]["from"]).s, h.ty(s["r"]["to"]).s
                            if a in WIDTH and t in WIDTH:
                                n += 1
                                narrowing = WIDTH[t] < WIDTH[a] or (a[0] != t[0] and WIDTH[t] <= WIDTH[a] and a[0] == "u" and False)
                                if narrowing:
                                    e = table.get((g.qname, a, t))
                                    ctx.ob(R, "cast %s %s->%s" % (g.qname.split("::", 1)[-1][-50:], a, t), e is not None,
                                           "reviewed: %s" % e["reason"] if e else "narrowing cast %s as %s in %s can silently change a decoded/encoded value" % (a, t, g.qname), h.loc(s.get("ln")))
    ctx.counts["C09.3:integer casts examined"] = n


def rule_canonical_hash(ctx):
    R = "C09.4"
    ctx.rule(R, "hashes and signatures use the canonical bytes: validator::Msg::hash, node::Msg::hash and GenesisRaw::with_hash are Keccak256(canonical(x)); encode(x) = canonical(x); sign_msg signs that hash")
    inl = Inliner(ctx)
    for q in ("zksync_consensus_roles::validator::messages::msg::Msg::hash", "zksync_consensus_roles::node::messages::Msg::hash", "zksync_consensus_roles::validator::messages::genesis::GenesisRaw::with_hash"):
        f = ctx.fn(q)
        T = ctx.T(f)
        calls = [c["q"] for c in T.calls()]
        ok = any(x.endswith("Keccak256::new") for x in calls) and any(x == PF + "::canonical" for x in calls)
        kc = [T.args_of(c)[0] for c in T.calls() if c["q"].endswith("Keccak256::new")]
        ok = ok and all(any(x[0] == "call" and x[1] == PF + "::canonical" for x in subterms(a)) for a in kc)
        ctx.ob(R, q.split("::")[-2] + "::" + q.split("::")[-1] + (" (node)" if "::node::" in q else ""), ok, "Keccak256::new(canonical(self))" if ok else "%s does not hash the canonical encoding" % q, f.loc())
    e = ctx.fn(PF + "::encode")
    t = inl.ret_term(e)
    ok = t is not None and t[0] == "call" and t[1] == PF + "::canonical"
    ctx.ob(R, "encode = canonical", ok, "zksync_protobuf::encode(x) = canonical(x)" if ok else "encode returns %s" % (show(t) if t else None), e.loc())
    for q in ("zksync_consensus_roles::validator::keys::secret_key::SecretKey::sign_msg", "zksync_consensus_roles::node::keys::SecretKey::sign_msg"):
        f = ctx.fn(q)
        T = ctx.T(f)
        ok = any(c["q"].endswith("Msg::hash") for c in T.calls()) and any(c["q"].endswith(("SecretKey::sign_hash", "SecretKey::sign")) or "sign" in c["q"].rsplit("::", 1)[-1] for c in T.calls())
        ctx.ob(R, "sign_msg%s" % (" (node)" if "::node::" in q else ""), ok, "sign_msg signs Msg::hash() of the inserted message" if ok else "sign_msg does not sign the canonical hash", f.loc())
    c = ctx.fn(PF + "::canonical")
    T = ctx.T(c)
    ok = any(x["q"] == PF + "::canonical_raw" for x in T.calls()) and any(x["q"].endswith("Message::encode_to_vec") for x in T.calls())
    ctx.ob(R, "canonical = canonical_raw(build().encode)", ok, "canonical(x) = canonical_raw(x.build().encode_to_vec(), descriptor)" if ok else "canonical() shape not recognised", c.loc())


def rule_canonicaliser(ctx):
    R = "C09.5"
    ctx.rule(R, "canonicaliser guards: canonical_raw writes fields in ascending tag order from a BTreeMap, rejects a singular field with several values, recurses into sub-messages; read_fields rejects unknown fields and wire types")
    f = ctx.fn(PF + "::canonical_raw")
    T = ctx.T(f)
    rf = ctx.fn(PF + "::read_fields")
    ret_ty = rf.locals[0].s
    ctx.ob(R, "fields ordered by tag", "BTreeMap" in ret_ty and "Hash" not in ret_ty, "read_fields returns %s" % ret_ty[:90])

    def m_multi(a, b):
        if a[0] == "call" and a[1].endswith("Vec::len") and b == ("const", 1):
            return 1
        if b[0] == "call" and b[1].endswith("Vec::len") and a == ("const", 1):
            return -1
        return 0

    def a_list(t):
        return t[0] == "call" and t[1].endswith("FieldDescriptor::is_list")
    W = Walker(ctx, f, [Atom("cmp(values.len(),1)", "cmp", m_multi, ["<", "=", ">"]), Atom("is_list", "bool", a_list, [True, False])])
    writes = [c["bb"] for c in T.calls() if c["q"].startswith("quick_protobuf::writer::Writer::write_")]
    from .c07 import loop_head
    head = loop_head(ctx, f, target=writes) if writes else None
    ctx.floor(R, "writer calls", len(writes), 4)
    if head is not None:
        names, tab = W.table({"write": writes}, start=head)
        ok = "write" not in tab.get((">", False), {"write"}) and "write" in tab.get(("=", False), set()) and "write" in tab.get((">", True), set())
        ctx.ob(R, "singular field with several values rejected", ok, "nothing is written for a non-repeated field that occurs more than once" if ok else "canonical_raw writes a non-repeated field with multiple values: %s" % {k: sorted(v) for k, v in tab.items()}, f.loc())
    rec = any(c["q"] == PF + "::canonical_raw" for c in T.calls())
    ctx.ob(R, "sub-messages canonicalised", rec, "canonical_raw recurses into message-typed fields" if rec else "nested messages are not canonicalised", f.loc())
    Trf = ctx.T(rf)
    errs = sum(1 for c in Trf.calls() if c["q"] in ("anyhow::__private::format_err", "anyhow::Error::msg") or c["q"].endswith("Context::context") or c["q"].endswith("Context::with_context"))
    ctx.ob(R, "read_fields rejects unknown input", errs >= 1, "read_fields has %d error exits (unknown field / wire type)" % errs, rf.loc())


def rule_schema_gate(ctx):
    R = "C09.6"
    ctx.rule(R, "schema gate at build time: protobuf_build::Config::generate returns Ok only after canonical::check succeeded on the descriptor pool")
    gens = [f for f in ctx.F.fns if f.crate == "zksync_protobuf_build" and f.name == "generate" and not f.in_testonly() and f.kind == "method"]
    ctx.floor(R, "generate bodies", len(gens), 1)
    for f in gens:
        T = ctx.T(f)
        cfg = ctx.cfg(f)
        e = Q.success_edges(ctx, f, lambda b: b[0] == "call" and b[1].endswith("canonical::check"))
        oks = [bi for bi, b in enumerate(f.blocks) for s in b["s"] if s["k"] == "assign" and s["p"]["l"] in Q.ret_locals(f) and s["r"]["k"] == "agg" and s["r"].get("variant") == "Ok"]
        ok = bool(e) and bool(oks) and all(cfg.must_pass(b, e) for b in oks)
        ctx.ob(R, "canonical::check before Ok", ok, "code generation succeeds only for schemas that passed the canonical-encoding check" if ok else "generate can succeed without canonical::check", f.loc())


def _plumbing():
    """std container / iterator / Option / Result plumbing whose documented semantics preserve every element and its
    order (building, traversing, mapping 1:1, propagating errors). Deliberately absent: anything that selects, drops,
    reorders, defaults or normalises (filter, take, skip, rev, sort*, dedup*, truncate, retain, first/last/get, unwrap_or*,
    to_canonical/to_ipv4*, trim*, to_lowercase ...) - those stay subject to review through tables/codec_api.json."""
    out = set()
    for c, ms in {
        "std::vec::Vec": "new with_capacity push len is_empty iter iter_mut as_slice extend extend_from_slice reserve capacity into_boxed_slice",
        "[T]": "iter iter_mut len is_empty to_vec into_vec",
        "std::collections::BTreeMap": "new insert len is_empty iter iter_mut keys values into_keys into_values",
        "std::collections::HashMap": "new with_capacity insert len is_empty iter iter_mut keys values into_keys into_values",
        "std::collections::BTreeSet": "new insert len is_empty iter",
        "std::collections::HashSet": "new with_capacity insert len is_empty iter",
        "std::collections::VecDeque": "new with_capacity push_back len is_empty iter",
        "std::iter::Iterator": "next map zip unzip collect enumerate cloned copied by_ref for_each try_for_each size_hint",
        "std::iter::IntoIterator": "into_iter",
        "std::iter::Extend": "extend",
        "std::iter::FromIterator": "from_iter",
        "std::option::Option": "as_ref as_mut as_deref map is_some is_none ok_or ok_or_else transpose cloned copied and_then",
        "std::result::Result": "map map_err and_then is_ok is_err as_ref",
        "std::clone::Clone": "clone",
        "std::ops::Deref": "deref",
        "std::ops::DerefMut": "deref_mut",
        "std::ops::Try": "branch from_output",
        "std::ops::FromResidual": "from_residual",
        "std::convert::AsRef": "as_ref",
        "std::borrow::Borrow": "borrow",
        "std::boxed::Box": "new",
        "std::sync::Arc": "new",
        "std::string::String": "new len as_str clone",
        "std::hint": "must_use",
        "anyhow::Error": "context msg new",      # builds / annotates an error value only
    }.items():
        for m in ms.split():
            out.add(c + "::" + m)
    return out


def rule_codec_api(ctx, R="C09.7", only=None, floor=50, desc=None):
    ctx.rule(R, desc or "codec API census: the external functions called by read()/build() implementations (and their closures) are exactly the reviewed, value-preserving conversions (tables/codec_api.json); a new conversion in a decoder or encoder is reported")
    tab = ctx.table("codec_api.json")
    n = 0
    for kind in ("read", "build"):
        allowed = set(tab[kind]) | _plumbing()
        seen = {}
        for g in impls(ctx, kind):
            if only is not None and not only(str(g.item.impl_self)):
                continue
            for h in family(ctx, g):
                for c in ctx.T(h).calls():
                    if not c["decl"].ws:
                        ga = c["t"]["f"].get("ga", [])
                        if c["q"] in ("std::cmp::Ord::min", "std::cmp::Ord::max", "std::cmp::min", "std::cmp::max") and ga and all(h.ty(i).s == "usize" for i in ga):
                            continue        # arithmetic on lengths / indices (usize), not on a field value
                        seen.setdefault(c["q"], (g, h, c))
        n += len(seen)
        for q, (g, h, c) in sorted(seen.items()):
            if q not in allowed:
                ctx.ob(R, "%s calls %s" % (kind, q), False, "%s() of %s calls %s, which is not among the reviewed value-preserving conversions: a normalising or lossy step in a %s breaks decode(encode(v)) == v / byte-identical re-encoding" % (kind, g.item.impl_self, q, "decoder" if kind == "read" else "encoder"), h.loc(c["t"].get("ln")))
        ctx.ob(R, "%s census" % kind, all(q in allowed for q in seen), "%d distinct external callees, all reviewed" % len(seen) if all(q in allowed for q in seen) else "unreviewed callees present")
    ctx.floor(R, "distinct external callees in codecs", n, floor)



def rule_reader_normalises(ctx):
    R = "C09.9"
    ctx.rule(R, "scalar values are normalised on the way into the canonical form: Reader::read decodes each value with the typed reader of its wire kind and re-emits it with the matching typed writer (varint -> read_varint64/write_varint = shortest form; fixed64; fixed32; length-delimited bytes as they are) - a byte-for-byte copy of a varint keeps padded encodings, so two valid serialisations of one value get different canonical bytes")
    l = [f for f in ctx.F.fns if f.qname.endswith("proto_fmt::Reader::read") and not f.in_testonly()]
    ctx.floor(R, "Reader::read bodies", len(l), 1)
    exp = {"Varint": ({"read_varint64"}, {"write_varint"}), "I64": ({"read_fixed64"}, {"write_fixed64"}), "I32": ({"read_fixed32"}, {"write_fixed32"}), "Len": ({"read_bytes"}, set())}
    for f in l:
        T = ctx.T(f)
        wn = common.pnames(f, "proto_fmt::Wire")

        def a_wire(t):
            return common.is_p(t, wn)
        W = Walker(ctx, f, [Atom("wire", "enum", a_wire, sorted(exp))])
        rd, wr = {}, {}
        for c in T.calls():
            q = c["q"]
            if q.startswith("quick_protobuf::BytesReader::") or "BytesReader::" in q:
                rd.setdefault(q.rsplit("::", 1)[1], []).append(c["bb"])
            elif "quick_protobuf::Writer" in q or q.startswith("quick_protobuf::writer::Writer::"):
                m = q.rsplit("::", 1)[1]
                if m != "new":
                    wr.setdefault(m, []).append(c["bb"])
        ctx.ob(R, "typed readers and writers present", bool(rd) and bool(wr), "readers %s, writers %s" % (sorted(rd), sorted(wr)) if rd and wr else "no quick_protobuf reader/writer calls found in Reader::read (anchor missing)", f.loc())
        tg = {"r:" + k: v for k, v in rd.items()}
        tg.update({"w:" + k: v for k, v in wr.items()})
        names, tab = W.table(tg)
        for k, (er, ew) in sorted(exp.items()):
            reach = tab.get((k,), set())
            gr = set(x[2:] for x in reach if x.startswith("r:"))
            gw = set(x[2:] for x in reach if x.startswith("w:"))
            ok = gr == er and gw == ew
            ctx.ob(R, "wire %s" % k, ok, "decoded with %s, re-emitted with %s" % (sorted(er), sorted(ew) or "the bytes themselves") if ok else
                   "a %s value is read with %s and written with %s (expected %s / %s): the canonical form no longer normalises this wire kind" % (k, sorted(gr), sorted(gw), sorted(er), sorted(ew)), f.loc())


def rule_reader_appends(ctx):
    R = "C09.8"
    ctx.rule(R, "the field reader only appends: Reader::read_field adds every value it reads to the caller's list (push / extend) and never replaces, clears or truncates it - a field whose values arrive in several records (packed and unpacked, or several packed chunks) keeps all of them, so every valid serialisation has the same canonical form")
    l = [f for f in ctx.F.fns if f.qname.endswith("proto_fmt::Reader::read_field") and not f.in_testonly()]
    ctx.floor(R, "Reader::read_field bodies", len(l), 1)
    for f in l:
        T = ctx.T(f)
        outs = common.pnames(f, "&mut std::vec::Vec<std::vec::Vec<u8>>")
        ctx.ob(R, "accumulator parameter", bool(outs), "read_field receives the accumulator as &mut Vec<Vec<u8>> (%s)" % sorted(outs) if outs else "accumulator parameter of read_field not found", f.loc())
        if not outs:
            continue
        bad = []
        adds = 0
        for bi, b in enumerate(f.blocks):
            for st in b["s"]:
                if st["k"] == "assign" and st["p"].get("pr") and st["p"]["pr"][0] == "*":
                    base = T.local(st["p"]["l"])
                    if common.is_p(base, outs):
                        bad.append("assignment `*%s = ..`" % base[-1])
        for c in T.calls():
            if not c["q"].startswith("std::vec::Vec::") and not c["q"].startswith("std::iter::Extend::"):
                continue
            a = T.args_of(c)
            if a and common.is_p(a[0], outs):
                m = c["q"].rsplit("::", 1)[1]
                if m in ("push", "extend", "extend_from_slice", "append", "reserve", "len", "is_empty", "capacity"):
                    adds += int(m in ("push", "extend", "extend_from_slice", "append"))
                else:
                    bad.append("%s()" % m)
        ctx.ob(R, "accumulator is only appended to", not bad and adds >= 1, "values are added with push/extend (%d site(s)); nothing replaces or removes earlier values" % adds if not bad and adds else
               "Reader::read_field modifies the caller's value list by %s: values of the same field read from an earlier record are lost, so valid serialisations of one message canonicalise differently" % (bad or "no append at all"), f.loc())

def rule_order_is_total_on_fields(ctx):
    R = "C09.10"
    ctx.rule(R, "the order that sorts encoded collections is the order of the whole value: for every workspace struct contained in the key type of an ordered collection (BTreeMap / BTreeSet field of a roles / network / protobuf type) that implements Ord / PartialOrd, cmp / partial_cmp read every field that eq reads (derived impls do; a hand-written cmp that skips a field makes two unequal values compare Equal, so a BTreeMap / BTreeSet keyed by it - e.g. TimeoutQC.map, whose iteration order IS the canonical encoding - silently merges them: the bytes depend on insertion order and decoding loses an entry)")
    import re
    impls = {}
    for f in ctx.F.fns:
        if f.in_testonly():
            continue
        m = re.match(r"<(.+) as std::cmp::(Ord|PartialOrd|PartialEq)>::(cmp|partial_cmp|eq)$", f.qname)
        if m and m.group(1).startswith(("zksync_consensus_roles", "zksync_consensus_crypto", "zksync_protobuf", "zksync_consensus_utils")):
            impls.setdefault(m.group(1), {})[m.group(3)] = f

    def fields_read(f, adt):
        out = set()
        for g in [f] + common.family(ctx, f, ("closure",)):
            T = ctx.T(g)
            for b in g.blocks:
                for st in b["s"]:
                    if st["k"] != "assign":
                        continue
                    for x in subterms(T.rvalue(st["r"])):
                        if x[0] == "field" and x[1][0] in ("param", "downcast") or (x[0] == "field" and x[1][0] == "field"):
                            out.add(x[2])
                if b["t"]["k"] == "call" and "decl" in b["t"]["f"]:
                    for a in T.args_of({"t": b["t"], "bb": 0}):
                        for x in subterms(a):
                            if x[0] == "field":
                                out.add(x[2])
        return out
    # the types that matter: keys of ordered collections held by workspace ADTs, and everything those keys contain
    keys = set()
    for path, ad0 in ctx.F.adts.items():
        if not path.startswith(("zksync_consensus_roles", "zksync_consensus_network", "zksync_protobuf")):
            continue
        for v in ad0.get("variants", []):
            for fl in v["fields"]:
                ty = ad0["_types"][fl["t"]].s
                for m in re.finditer(r"BTree(?:Map|Set)<", ty):
                    depth, i0 = 1, m.end()
                    i = i0
                    while i < len(ty) and depth > 0:
                        if ty[i] == "<":
                            depth += 1
                        elif ty[i] == ">":
                            depth -= 1
                        elif ty[i] == "," and depth == 1:
                            break
                        i += 1
                    keys.update(re.findall(r"zksync_[A-Za-z0-9_:]+", ty[i0:i]))
    closure, st = set(), [k for k in keys if k in ctx.F.adts]
    while st:
        k = st.pop()
        if k in closure:
            continue
        closure.add(k)
        for v in ctx.F.adts[k].get("variants", []):
            for fl in v["fields"]:
                for q in re.findall(r"zksync_[A-Za-z0-9_:]+", ctx.F.adts[k]["_types"][fl["t"]].s):
                    if q in ctx.F.adts and q not in closure:
                        st.append(q)
    ctx.floor(R, "types contained in keys of ordered collections", len(closure), 5)
    n = 0
    for adt, d in sorted(impls.items()):
        if adt not in closure:
            continue
        ad = ctx.F.adts.get(adt)
        if ad is None or len(ad.get("variants", [])) != 1:
            continue            # enums: the derived impls dispatch on the discriminant; not decided here
        flds = [x["name"] for x in ad["variants"][0]["fields"]]
        if not flds or "eq" not in d:
            continue
        eqf = fields_read(d["eq"], adt) & set(flds)
        for k in ("cmp", "partial_cmp"):
            if k not in d:
                continue
            # PartialOrd that delegates to Ord (`Some(self.cmp(other))`) reads no field itself
            Tk = ctx.T(d[k])
            if k == "partial_cmp" and any(c["q"].endswith("Ord::cmp") and not c["q"].startswith("std::cmp::Ord::cmp") or (c["rq"] or "").endswith(" as std::cmp::Ord>::cmp") for c in Tk.calls()) and not (fields_read(d[k], adt) & set(flds)):
                continue
            got = fields_read(d[k], adt) & set(flds)
            if not got and any(any(x == ("param", 1, x[2] if len(x) > 2 else None) or (x[0] == "param" and x[1] == 1) for x in a_) for c in Tk.calls() if c["q"].startswith("zksync_") for a_ in [Tk.args_of(c)]):
                got = set(flds)         # the whole value is handed to a workspace function (e.g. compared by its encoding)
            n += 1
            miss = sorted(eqf - got)
            ctx.ob(R, "%s::%s covers the fields of eq" % (adt.split("::")[-1], k), not miss, "compares %s" % sorted(got) if not miss else
                   "%s::%s ignores %s, which eq compares: unequal values compare Equal, an ordered map / set keyed by this type (or by a type containing it) merges them and its encoding stops being canonical and lossless" % (adt.split("::")[-1], k, miss), d[k].loc())
    ctx.floor(R, "ordering impls of key-contained structs examined", n, 5)



RULES = [("C09.10", rule_order_is_total_on_fields), ("C09.8", rule_reader_appends), ("C09.9", rule_reader_normalises), ("C09.1", rule_read_build_agree), ("C09.2", rule_no_unordered_iteration), ("C09.3", rule_no_narrowing), ("C09.4", rule_canonical_hash),
         ("C09.5", rule_canonicaliser), ("C09.6", rule_schema_gate), ("C09.7", rule_codec_api)]
