"""C19 — block fetch requests are never lost and go only to peers that have the block (structural mechanisms)."""
from engine import query as Q
from . import common
from engine.terms import show, subterms
from engine.guards import Atom, Walker, field_path, chain, Inliner

NET = "zksync_consensus_network"
QUEUE = NET + "::gossip::fetch::Queue"
BSS = "zksync_consensus_engine::block_store::BlockStoreState"
EM = "zksync_consensus_engine::manager::EngineManager"


def root_fn(f):
    while f.parent is not None:
        f = f.parent
    return f


def family(ctx, top, kinds=("coroutine", "closure")):
    return common.family(ctx, top, kinds)


def rule_only_available(ctx):
    R = "C19.1"
    ctx.rule(R, "a request is removed for a peer only after available.contains(n) held for that peer's announced state, n being the lowest pending key; the removal takes exactly that number (no pop_first / other key); the runner passes the state announced on that very connection")
    top = ctx.fn(QUEUE + "::accept_block")
    fam = family(ctx, top)
    # (a) the wait predicate and the assignment of the chosen number
    waiters = [g for g in fam if any(c["q"].endswith("sync::wait_for") for c in ctx.T(g).calls())]
    ctx.floor(R, "availability wait task", len(waiters), 1)
    okw = False
    okpred = False
    oklow = False
    chosen_cells = set()
    for g in waiters:
        T = ctx.T(g)
        cfg = ctx.cfg(g)
        e = Q.success_edges(ctx, g, lambda b: b[0] == "await" and b[1][0] == "call" and b[1][1].endswith("sync::wait_for"))
        # the chosen number is written into a captured Option cell of the enclosing function (identified by role, not by name)
        sets = []
        for bi, b in enumerate(g.blocks):
            for s in b["s"]:
                if s["k"] == "assign" and s["p"]["l"] == 1 and s["p"].get("pr") and T.place(s["p"])[0] == "upvar":
                    v = T.rvalue(s["r"])
                    if v[0] == "agg" and v[2] == "Some":
                        sets.append(bi)
                        chosen_cells.add(T.place(s["p"])[1])
        okw = bool(e) and bool(sets) and all(cfg.must_pass(b, e) for b in sets)
        for c in T.calls():
            if c["q"].endswith("sync::wait_for"):
                a = T.args_of(c)
                cl = [x for x in a if x[0] == "closure"]
                if cl:
                    h = ctx.F.by_qname.get(cl[0][1], [None])[0]
                    rt = Inliner(ctx).ret_term(h) if h else None
                    okpred = rt is not None and rt[0] == "call" and rt[1] == BSS + "::contains"
                okav = any(common.is_p(x, common.pnames(top, "watch::Receiver")) for x in a)
                okpred = okpred and okav
    ctx.ob(R, "number chosen after availability", okw, "block_number := Some(n) is dominated by the completed wait for available.contains(n)" if okw else "a block number can be chosen for this peer without waiting for the peer to announce it", top.loc())
    ctx.ob(R, "wait predicate", okpred, "the wait is wait_for(available, |a| a.contains(n)) on the peer's announced BlockStoreState" if okpred else "availability predicate not recognised", top.loc())
    # n is the lowest pending key
    for g in fam:
        T = ctx.T(g)
        for c in T.calls():
            if c["q"].endswith("BTreeMap::first_key_value"):
                oklow = True
    ctx.ob(R, "lowest pending first", oklow, "n is taken from first_key_value() of the pending map" if oklow else "the candidate is not the lowest pending block", top.loc())
    # (b) the removal closure
    rem = [g for g in fam if g.kind == "closure" and any(c["q"].startswith("std::collections::BTreeMap::") and c["q"].rsplit("::", 1)[1] in ("remove", "remove_entry", "pop_first", "pop_last", "retain", "clear", "split_off", "first_entry", "last_entry") for c in ctx.T(g).calls())]
    ctx.floor(R, "removal closure", len(rem), 1)
    for g in rem:
        T = ctx.T(g)
        muts = [(c["q"].rsplit("::", 1)[1], T.args_of(c)) for c in T.calls() if c["q"].startswith("std::collections::BTreeMap::") and c["q"].rsplit("::", 1)[1] in ("remove", "remove_entry", "pop_first", "pop_last", "retain", "clear", "split_off", "first_entry", "last_entry", "insert")]
        key = muts[0][1][1] if muts and len(muts[0][1]) > 1 else None
        # the key is a capture of a local of accept_block that derives from the cell the waiter task wrote
        okkey = False
        if key is not None and key[0] == "upvar":
            body = ctx.body(QUEUE + "::accept_block")
            LF = Q.LocalFlow(body)
            vn = body.var_names()
            for b in body.blocks:
                for st in b["s"]:
                    if st["k"] == "assign" and st["r"]["k"] == "agg" and st["r"].get("ak") == "closure" and st["r"].get("def") == g.path:
                        for cap, op in zip(g.captures, st["r"]["ops"]):
                            l = Q.LocalFlow._local_op(op)
                            if cap["name"] == key[1] and l is not None:
                                okkey = any(vn.get(x) in chosen_cells for x in LF.closure(l))
        ok = len(muts) == 1 and muts[0][0] in ("remove", "remove_entry") and okkey
        ctx.ob(R, "removal takes exactly the announced number", ok, "x.%s(&block_number): the request removed is the one whose availability was awaited" % muts[0][0] if ok else
               "the acceptor removes %s from the pending map instead of exactly the block whose availability was awaited: a request can be handed to a peer that never announced that block" % [(m, [show(a)[:30] for a in args[1:]]) for m, args in muts], g.loc())
    # (c) the runner passes the per-connection state
    run = ctx.fn(NET + "::gossip::Network::run_stream")
    okc = False
    for g in family(ctx, run):
        T = ctx.T(g)
        for c in T.calls():
            if (c["rq"] or c["q"]) == QUEUE + "::accept_block":
                a = T.args_of(c)
                okc = any(x[0] == "call" and x[1].endswith("::subscribe") and "push_server" in show(x) and "blocks" in show(x) for y in a for x in subterms(y))
    ctx.ob(R, "state of this connection", okc, "accept_block is given push_server.blocks.subscribe(): the BlockStoreState pushed by this connection's peer" if okc else "accept_block is not fed from this connection's push server state", run.loc())


def rule_atomic_accept(ctx):
    R = "C19.2"
    ctx.rule(R, "hand-over is atomic: the removal happens inside one send_if_modified closure and the acceptor returns a call only on the Some arm (someone else may have taken it)")
    f = ctx.body(QUEUE + "::accept_block")
    T = ctx.T(f)

    # the removal result: the Option local of accept_block that the removal closure captures mutably
    res_locals = set()
    for b in f.blocks:
        for st in b["s"]:
            if st["k"] == "assign" and st["r"]["k"] == "agg" and st["r"].get("ak") == "closure":
                g = ctx.F.by_path.get(st["r"].get("def"))
                if g is not None and any(cc["q"].endswith(("BTreeMap::remove_entry", "BTreeMap::remove", "BTreeMap::pop_first")) for cc in ctx.T(g).calls()):
                    for op in st["r"]["ops"]:
                        l = Q.LocalFlow._local_op(op)
                        l = Q.LocalFlow(f)._root_borrow(l) if l is not None else None
                        if l is not None and f.locals[l].s.startswith("std::option::Option<("):
                            res_locals.add(l)
    ctx.floor(R, "removal result cell", len(res_locals), 1)

    def is_res(t):
        return t[0] == "var" and t[1] in res_locals
    W = Walker(ctx, f, [Atom("res", "opt", is_res, ["None", "Some"])])
    oks = [bi for bi, b in enumerate(f.blocks) for s in b["s"] if s["k"] == "assign" and s["p"]["l"] in Q.ret_locals(f) and s["r"]["k"] == "agg" and s["r"].get("variant") == "Ok"]
    sim = [c["bb"] for c in T.calls() if c["q"].endswith("::send_if_modified")]
    ctx.floor(R, "send_if_modified sites", len(sim), 1)
    names, tab = W.table({"ok": oks}, start=sim[0] if sim else 0)
    ok = "ok" in tab.get(("Some",), set()) and "ok" not in tab.get(("None",), {"ok"})
    ctx.ob(R, "return only a removed request", ok, "Ok(call) is returned only when the removal yielded Some" if ok else "accept_block returns although the request was not removed by this acceptor: %s" % {k: sorted(v) for k, v in tab.items()}, f.loc())
    okret = False
    for bi in oks:
        for s in f.blocks[bi]["s"]:
            if s["k"] == "assign" and s["p"]["l"] in Q.ret_locals(f) and s["r"]["k"] == "agg":
                t = T.rvalue(s["r"])
                okret = any(is_res(x) for x in subterms(t))
    ctx.ob(R, "returned call is the removed entry", okret, "the returned (number, completion sender) is the removed map entry" if okret else "the returned call is not the removed entry", f.loc())


def rule_retry(ctx):
    R = "C19.3"
    ctx.rule(R, "retry table of Queue::request: completion -> return Ok; completion channel dropped (peer failed / disconnected) -> the request is inserted again; cancellation -> the request is removed and Canceled is returned")
    f = ctx.body(QUEUE + "::request")
    T = ctx.T(f)

    def is_out(t):
        return t[0] == "await" and t[1][0] == "call" and t[1][1].endswith("recv_or_disconnected")

    def is_in(t):
        return t[0] == "field" and t[2] == "0" and t[1][0] == "downcast" and t[1][2] == "Ok" and is_out(t[1][1])
    W = Walker(ctx, f, [Atom("outer", "enum", is_out, ["Ok", "Err"]), Atom("inner", "enum", is_in, ["Ok", "Err"])])
    sims = [(c, T.args_of(c)) for c in T.calls() if c["q"].endswith("::send_if_modified")]
    ins, rem = [], []
    for c, a in sims:
        cl = [x for x in a if x[0] == "closure"]
        if cl:
            g = ctx.F.by_qname.get(cl[0][1], [None])[0]
            qs = [cc["q"] for cc in ctx.T(g).calls()] if g else []
            if any(q.endswith("BTreeMap::insert") for q in qs):
                ins.append(c["bb"])
            if any(q.endswith("BTreeMap::remove") for q in qs):
                rem.append(c["bb"])
    oks = [bi for bi, b in enumerate(f.blocks) for s in b["s"] if s["k"] == "assign" and s["p"]["l"] in Q.ret_locals(f) and s["r"]["k"] == "agg" and s["r"].get("variant") == "Ok"]
    errs = [bi for bi, b in enumerate(f.blocks) for s in b["s"] if s["k"] == "assign" and s["p"]["l"] in Q.ret_locals(f) and s["r"]["k"] == "agg" and s["r"].get("variant") == "Err"]
    ctx.floor(R, "insert sites", len(ins), 1)
    ctx.floor(R, "remove sites", len(rem), 1)
    # start right after the completion wait
    starts = [bb for bb in range(len(f.blocks)) for si in [T.switch_info(bb)] if si and si[0][0] == "discr" and is_out(si[0][1])]
    if not starts:
        ctx.ob(R, "outcome switch", False, "match on recv_or_disconnected(..).await not found", f.loc())
        return
    names, tab = W.table({"return_ok": oks, "reinsert": ins, "remove": rem, "return_canceled": errs}, start=starts[0])
    exp = {("Ok", "Ok"): {"return_ok"}, ("Ok", "Err"): {"reinsert"}, ("Err", "Ok"): {"remove", "return_canceled"}, ("Err", "Err"): {"remove", "return_canceled"}}
    for k, e in exp.items():
        ctx.ob(R, "row outer=%s inner=%s" % k, tab.get(k) == e, "-> %s" % sorted(e) if tab.get(k) == e else
               "after the completion wait ended with (%s, %s) request() does %s; specified %s (a failed hand-over must put the request back)" % (k[0], k[1], sorted(tab.get(k, [])), sorted(e)), f.loc())
    # the re-inserted key is the requested number
    okk = False
    for c, a in sims:
        cl = [x for x in a if x[0] == "closure"]
        if cl and c["bb"] in ins:
            g = ctx.F.by_qname.get(cl[0][1], [None])[0]
            Tg = ctx.T(g)
            for cc in Tg.calls():
                if cc["q"].endswith("BTreeMap::insert"):
                    aa = Tg.args_of(cc)
                    okk = aa[1][0] == "upvar" and aa[2][0] == "upvar"
    ctx.ob(R, "inserted entry", okk, "x.insert(n, send): the requested number with a fresh completion sender" if okk else "insert arguments not recognised", f.loc())


def rule_completion(ctx):
    R = "C19.4"
    ctx.rule(R, "completion is signalled only after EngineManager::queue_block succeeded for the fetched block (itself after the number check, C08.7)")
    run = ctx.fn(NET + "::gossip::Network::run_stream")
    n = 0
    for g in family(ctx, run, ("coroutine",)):
        T = ctx.T(g)
        sends = [c for c in T.calls() if c["q"].endswith("oneshot::Sender::send") and any(g.ty(i).s == "()" for i in c["t"]["f"].get("ga", []))]
        if not sends:
            continue
        cfg = ctx.cfg(g)
        e = Q.success_edges(ctx, g, lambda b: b[0] == "await" and b[1][0] == "call" and b[1][1] == EM + "::queue_block")
        for c in sends:
            n += 1
            ok = bool(e) and cfg.must_pass(c["bb"], e)
            ctx.ob(R, "completion after queue_block", ok, "send_resp.send(()) is dominated by queue_block success" if ok else "a fetch request can be reported complete although the block was not stored", g.loc(c["t"].get("ln")))
    ctx.floor(R, "completion signals", n, 1)


def rule_fetcher(ctx):
    R = "C19.6"
    ctx.rule(R, "fetcher wiring: every missing block number gets one Queue::request running until the block is queued (then cancelled), with its permit held until the block is persisted")
    reqs = []
    for f in ctx.F.fns:
        if f.in_testonly() or f.crate != NET:
            continue
        T = ctx.T(f)
        for c in T.calls():
            if (c["rq"] or c["q"]) == QUEUE + "::request":
                reqs.append((f, c))
    ctx.floor(R, "production callers of Queue::request", len(reqs), 1)
    for f, c in reqs:
        top = root_fn(f)
        fam = family(ctx, top)
        wq = any(cc["q"] == EM + "::wait_until_queued" for g in fam for cc in ctx.T(g).calls())
        wp = any(cc["q"] == EM + "::wait_until_persisted" for g in fam for cc in ctx.T(g).calls())
        ctx.ob(R, "request lifetime in %s" % top.qname.split("::")[-1], wq and wp, "the request runs in the background of a scope that ends when the block is queued; the permit is held until it is persisted" if wq and wp else
               "fetcher does not bound the request by wait_until_queued / wait_until_persisted", f.loc(c["t"].get("ln")))


def rule_peer_state_verified(ctx):
    R = "C19.7"
    ctx.rule(R, "what a peer 'has announced' is a verified BlockStoreState: in the push_block_store_state handler the received state replaces the per-connection announced state only after BlockStoreState::verify succeeded, and nothing else writes that watch")
    # the handler is recognised by its role: an rpc::Handler::handle implementation in gossip (its Rpc type is not part of the path)
    hs = [f for f in ctx.F.fns if not f.in_testonly() and f.crate == NET and "/gossip/" in f.file and f.kind in ("fn", "method") and f.qname.endswith("rpc::Handler>::handle")]
    hs = [ctx.F.body_of(f) for f in hs]
    bodies = []
    for f in hs:
        for g in [f] + family(ctx, f):
            if g not in bodies:
                bodies.append(g)
    pubs = []
    for g in bodies:
        Tg = ctx.T(g)
        for c in Tg.calls():
            if c["q"].startswith("tokio::sync::watch::Sender::send") and any(g.ty(i).s == BSS for i in c["t"]["f"].get("ga", [])):
                pubs.append((g, c))
    ctx.floor(R, "publications of the announced state in the handler", len(pubs), 1)
    for g, c in pubs:
        e = Q.success_edges(ctx, g, lambda b: b[0] == "call" and b[1] == BSS + "::verify")
        ok = bool(e) and ctx.cfg(g).must_pass(c["bb"], e)
        a = ctx.T(g).args_of(c)
        same = len(a) > 1 and any(x[0] == "call" and x[1] == BSS + "::verify" and x[2] and (x[2][0] == a[1] or x[2][0] in subterms(a[1]) or a[1] in subterms(x[2][0])) for blk in g.blocks if blk["t"]["k"] == "call" for x in [ctx.T(g).call_term(blk["t"])])
        ctx.ob(R, "announced state verified before it is published", ok and same, "send_replace(req.state) is dominated by the success of req.state.verify()" if ok and same else
               "a peer's block-store state is published as its announcement without (successful) verify() of that very state: requests can be handed to a peer for blocks an inconsistent announcement does not cover", g.loc(c["t"].get("ln")))
    # every verified announcement replaces the previous one - whole and unconditionally: an announcement that is skipped
    # (same head but a higher first block after pruning, or a lower one) leaves a stale range, and requests are handed to a
    # peer for blocks it said it no longer stores / withheld from a peer that has them
    for g, c in pubs:
        api = c["q"].rsplit("::", 1)[1]
        cfgg = ctx.cfg(g, with_cancel=False)
        oks = [bi for bi, b in enumerate(g.blocks) for st in b["s"] if st["k"] == "assign" and st["p"]["l"] in Q.ret_locals(g) and not st["p"].get("pr") and st["r"]["k"] == "agg" and st["r"].get("variant") == "Ok"]
        always = bool(oks) and all(cfgg.must_pass_blocks(ob, {c["bb"]}) for ob in oks)
        whole = api in ("send_replace", "send")
        why = ""
        if not whole and api in ("send_if_modified", "send_modify"):
            a = ctx.T(g).args_of(c)
            cl = [x for x in a if x[0] == "closure"]
            h = ctx.F.by_qname.get(cl[0][1], [None])[0] if cl else None
            if h is not None:
                Th = ctx.T(h)
                cfh = ctx.cfg(h)
                wr = [bi for bi, b in enumerate(h.blocks) for st in b["s"] if st["k"] == "assign" and st["p"].get("pr") == ["*"] and h.ty(st["p"]["t"]).s == BSS] if all("t" in st["p"] for b in h.blocks for st in b["s"] if st["k"] == "assign") else []
                rets = cfh.returns()
                whole = bool(wr) and all(cfh.must_pass_blocks(r, set(wr)) for r in rets)
                if api == "send_if_modified":
                    from .common import ret_truths
                    from engine.guards import Walker
                    tr = ret_truths(ctx, Walker(ctx, h, []), h, {})
                    whole = whole and tr == {True}
                why = "the closure given to %s does not store the announced state on every path (or does not report a change)" % api
        ctx.ob(R, "every verified announcement is published", always and whole, "on every successful path the handler replaces the announced state with the request's state" if always and whole else
               ("the handler can succeed without publishing the (verified) announcement" if not always else why or "the announced state is published through %s" % api), g.loc(c["t"].get("ln")))
    # nobody else writes a watch of BlockStoreState in the gossip runner (the announced state is only what the peer pushed)
    others = []
    for f in ctx.F.fns:
        if f.in_testonly() or f.crate != NET or "/gossip/" not in f.file or f in bodies:
            continue
        for c in ctx.T(f).calls():
            if c["q"].startswith("tokio::sync::watch::Sender::send") and any(f.ty(i).s == BSS for i in c["t"]["f"].get("ga", [])):
                others.append("%s (%s)" % (root_fn(f).qname.split("::")[-1], c["q"].rsplit("::", 1)[1]))
    ctx.ob(R, "single writer of the announced state", not others, "only the push_block_store_state handler writes a watch<BlockStoreState> in gossip" if not others else "the announced state is also written by %s" % others)


def rule_fetch_deadline(ctx):
    R = "C19.8"
    ctx.rule(R, "a handed-over request has a deadline: the get_block client bounds the call by cfg.rpc.get_block_timeout, and the configuration every node starts from (RpcConfig::default) sets it to Some(..) - with None a peer that accepts the request and stays silent holds it forever (the completion channel is never dropped, the request never returns to the queue)")
    d = [f for f in ctx.F.by_qname.get("<zksync_consensus_network::config::RpcConfig as std::default::Default>::default", []) if not f.in_testonly()]
    ctx.floor(R, "RpcConfig::default", len(d), 1)
    for f in d:
        T = ctx.T(f)
        val = None
        for b in f.blocks:
            for st in b["s"]:
                if st["k"] == "assign" and st["r"]["k"] == "agg" and str(st["r"].get("def", "")).endswith("config::RpcConfig"):
                    t = T.rvalue(st["r"])
                    for name, x in t[3]:
                        if name == "get_block_timeout":
                            val = x
        ok = val is not None and val[0] == "agg" and val[2] == "Some"
        ctx.ob(R, "default get_block_timeout", ok, "RpcConfig::default().get_block_timeout is Some(..)" if ok else "RpcConfig::default() sets get_block_timeout to %s: by default an accepted fetch request has no deadline" % (show(val)[:60] if val else "an unreadable value"), f.loc())
    # the client applies it
    users = []
    for f in ctx.F.fns:
        if f.in_testonly() or f.crate != "zksync_consensus_network" or "loadtest" in f.qname:
            continue
        T = ctx.T(f)
        for c in T.calls():
            if (c["q"] or "").endswith(("Option::map", "Option::map_or", "Option::map_or_else", "Option::and_then")) or (c["q"] or "").endswith("Ctx::with_timeout"):
                if any(x[0] == "field" and x[2] == "get_block_timeout" for a in T.args_of(c) for x in subterms(a)):
                    users.append((f, c))
    ctx.ob(R, "deadline applied", bool(users), "the get_block client derives its call context from cfg.rpc.get_block_timeout (%d site(s))" % len(users) if users else "no call context is derived from cfg.rpc.get_block_timeout any more", users[0][0].loc(users[0][1]["t"].get("ln")) if users else None)


RULES = [("C19.8", rule_fetch_deadline), ("C19.7", rule_peer_state_verified), ("C19.1", rule_only_available), ("C19.2", rule_atomic_accept), ("C19.3", rule_retry), ("C19.4", rule_completion), ("C19.6", rule_fetcher)]
