"""Cross-cutting hazard inventories (H-rules), scoped per property to the files the property is anchored in.

Three code shapes that repeatedly turned out to be how a subtle defect is introduced, each rare enough in this code base
to be kept as a reviewed inventory (tables/hazards.json): a site that is not in the table is reported under the
property whose anchor file contains it.

 H1 take-then-await: state is moved out of a field (mem::replace / mem::take / Option::take on a field of self) and an
    await is reachable before the function ends - if the await is cancelled the moved-out state is lost.
 H2 double lock: one function locks the same mutex field more than once - a check under the first acquisition and an
    update under the second are not atomic.
 H3 swallowed error: the Err outcome of a workspace call reaches a non-error return of the enclosing function (the
    error is logged or ignored instead of propagated).
 H5 configuration field swapped: a function stops reading one configuration field (of a `*Config` / `Rate` type) and starts
    reading another field of the same type - the shape of "the get_block limit is taken from the push_tx setting". Uses that
    are merely added, removed or moved to another function are not reported.
 H4 process-wide state: a `static` (incl. lazy / thread-local cells) in a crate the property is anchored in, other than
    tracing call sites, protobuf descriptors and metrics registries - a decision or verification result remembered in
    process-wide state is shared by every caller, chain, epoch and committee that runs in the process.
"""
import json, os
from engine import query as Q
from engine.terms import show, subterms
from engine.guards import chain
from engine.panics import origin_root

VERIF = os.path.dirname(os.path.dirname(os.path.abspath(__file__)))
_ANCHOR_FILES = None


def anchor_files(prop):
    global _ANCHOR_FILES
    if _ANCHOR_FILES is None:
        _ANCHOR_FILES = {}
        for l in open(os.path.join(VERIF, "properties.jsonl")):
            d = json.loads(l)
            _ANCHOR_FILES[d["id"]] = set(f[len("node/"):] for f in d["anchors"]["files"] if f.startswith("node/"))
    return _ANCHOR_FILES.get(prop, set())


def _field_key(t):
    root, names = chain(t)
    return ".".join(n for n in names if not n.endswith("()") and not n.startswith("as "))[-60:]


def sites(ctx, files):
    """[(kind, key, where, detail)] for the bodies defined in `files`"""
    out = []
    for f in ctx.F.fns:
        if f.in_testonly() or f.file not in files:
            continue
        T = ctx.T(f)
        cfg = None
        root = origin_root(f.qname)
        # H1
        if f.kind == "coroutine":
            for c in T.calls():
                if c["q"] in ("std::mem::replace", "std::mem::take", "std::option::Option::take"):
                    a = T.args_of(c)
                    if not a or not chain(a[0])[1]:
                        continue
                    cfg = cfg or ctx.cfg(f)
                    r = cfg.reach_from([y for _, y in cfg.succ[c["bb"]]])
                    if any(f.blocks[b]["t"]["k"] == "yield" for b in r):
                        out.append(("take-then-await", "%s | %s" % (root, _field_key(a[0])), f.loc(c["t"].get("ln")), "%s(%s) and an await is reachable afterwards" % (c["q"].rsplit("::", 1)[1], show(a[0])[:60])))
        # H2
        locks = {}
        for c in T.calls():
            if c["q"] in ("std::sync::Mutex::lock", "std::sync::RwLock::write", "std::sync::RwLock::read"):
                locks.setdefault(_field_key(T.args_of(c)[0]), []).append(c)
            elif c["q"].endswith("sync::lock") and len(T.args_of(c)) > 1:
                locks.setdefault(_field_key(T.args_of(c)[1]), []).append(c)
        for k, cs in locks.items():
            if len(cs) >= 2:
                out.append(("double-lock", "%s | %s" % (root, k), f.loc(cs[1]["t"].get("ln")), "the mutex %s is locked %d times in one function" % (k, len(cs))))
        # H3
        if f.kind == "coroutine" or f.locals[0].s.startswith(("std::result::Result<", "std::task::Poll<std::result::Result<")):
            rets = [b for b, _ in Q.return_blocks_maybe_ok(ctx, f)]
            if f.locals[0].s.startswith("std::result::Result<"):
                # a Result-returning body: only blocks where the result may become Ok (an Err stored by an inlined helper
                # and moved into the return place at the join is not a success)
                rets = Q.success_return_blocks(ctx, f)
            if rets:
                for bb in range(len(f.blocks)):
                    si = T.switch_info(bb)
                    if not si or si[0][0] != "discr":
                        continue
                    x = si[0][1]
                    if x[0] == "call" and x[1] == "std::ops::Try::branch":
                        continue
                    ob = Q.outcome_base(si[0])
                    if ob is None:
                        continue
                    inner = ob[0][1] if ob[0][0] == "await" else ob[0]
                    if inner[0] != "call" or not inner[1].startswith("zksync_"):
                        continue
                    # a cancellation / deadline (ctx::OrCanceled) is not a failure of the operation
                    rty = ""
                    for st in f.blocks[bb]["s"]:
                        if st["k"] == "assign" and st["r"]["k"] == "discr":
                            rty = f.locals[st["r"]["p"]["l"]].s
                    if rty.replace(" ", "").endswith(",zksync_concurrency::ctx::Canceled>"):
                        continue
                    for tgt, labs in si[1].items():
                        if "Err" in labs and not (set(labs) - {"Err"}):
                            cfg = cfg or ctx.cfg(f)
                            if set(rets) & cfg.reach_from([tgt]) and set(rets) & cfg.reach_from_sensitive([tgt]):
                                out.append(("swallowed-error", "%s | %s" % (root, inner[1]), f.loc(f.blocks[bb]["t"].get("ln")), "an Err of %s can be followed by a non-error return" % inner[1].split("::", 1)[-1]))
    # one entry per key (multiplicity kept)
    return out


CRATE_DIR = {"zksync_concurrency": "libs/concurrency/", "zksync_consensus_crypto": "libs/crypto/", "zksync_consensus_engine": "libs/engine/", "zksync_protobuf": "libs/protobuf/",
             "zksync_protobuf_build": "libs/protobuf_build/", "zksync_consensus_roles": "libs/roles/", "zksync_consensus_utils": "libs/utils/", "zksync_consensus_bft": "components/bft/",
             "zksync_consensus_network": "components/network/", "zksync_consensus_executor": "components/executor/"}


def static_sites(ctx, files):
    """process-wide state (H4) declared in the crates that contain one of `files`"""
    crates = set(c for c, d in CRATE_DIR.items() if any(f.startswith(d) for f in files))
    out = []
    for path, c in sorted(ctx.F.consts.items()):
        if c.get("dk") != "Static":
            continue
        cr = path.lstrip("<").split("::", 1)[0]
        if cr not in crates:
            continue
        ty = c.get("ty", "")
        if "__CALLSITE" in path or path.endswith("::META") or "descriptor::INIT" in path or "register_metric" in path or ty.startswith("vise::") or "::testonly::" in path:
            continue
        if ty.replace(" ", "") in ("std::sync::atomic::Atomic<u64>", "std::sync::atomic::Atomic<usize>", "std::sync::atomic::Atomic<u32>", "std::sync::atomic::Atomic<i64>",
                                   "std::sync::atomic::AtomicU64", "std::sync::atomic::AtomicUsize", "std::sync::atomic::AtomicU32", "std::sync::atomic::AtomicI64"):
            continue        # a plain integer counter (statistics); it cannot hold a remembered decision about a value
        out.append(("static-state", path, None, "static %s : %s" % (path.rsplit("::", 1)[-1], ty[:80])))
    return out


def _walk_fields(o, out):
    if isinstance(o, dict):
        if "f" in o and "n" in o and "o" in o and isinstance(o["o"], str):
            out.append((o["o"], o["n"]))
        for v in o.values():
            _walk_fields(v, out)
    elif isinstance(o, list):
        for v in o:
            _walk_fields(v, out)


def config_uses(ctx):
    """{root function: {"<Owner>.<field>": count}} for reads of fields of configuration types, derive impls excluded"""
    from collections import Counter, defaultdict
    uses = defaultdict(Counter)
    for f in list(ctx.F.fns) + list(getattr(ctx.F, "helpers", {}).values()):
        if f.in_testonly():
            continue
        r = f
        while r.parent is not None:
            r = r.parent
        if r.item.impl_trait is not None and r.item.impl_trait.rsplit("::", 1)[-1] in ("Debug", "Clone", "PartialEq", "Eq", "Hash", "Default", "ProtoFmt", "ProtoRepr"):
            continue
        out = []
        _walk_fields(f.blocks, out)
        for o, n in out:
            if o.endswith("Config") or o.endswith("limiter::Rate"):
                uses[origin_root(f.qname)]["%s.%s" % (o, n)] += 1
    return uses


def config_swaps(ctx, files):
    tabp = os.path.join(VERIF, "tables", "config_uses.json")
    if not os.path.exists(tabp):
        return []
    ctx.tables_used.add("config_uses.json")
    tab = json.load(open(tabp))["uses"]
    cur = config_uses(ctx)
    crates = set(c for c, d in CRATE_DIR.items() if any(f.startswith(d) for f in files))

    def fty(key):
        owner, name = key.rsplit(".", 1)
        ad = ctx.F.adts.get(owner)
        for v in (ad or {}).get("variants", []):
            for fl in v["fields"]:
                if fl["name"] == name:
                    return ad["_types"][fl["t"]].s
        return None
    out = []
    for fn, old in sorted(tab.items()):
        if fn.lstrip("<").split("::", 1)[0] not in crates or fn not in cur:
            continue
        now = cur[fn]
        gone = [k for k, n in old.items() if now.get(k, 0) < n]
        new = [k for k, n in now.items() if old.get(k, 0) < n]
        for g in gone:
            for k in new:
                if fty(g) is not None and fty(g) == fty(k) and g.rsplit(".", 1)[0] == k.rsplit(".", 1)[0]:
                    out.append(("config-swap", "%s | %s -> %s" % (fn, g.rsplit("::", 1)[-1], k.rsplit("::", 1)[-1]), None,
                                "%s reads %s where the reviewed code read %s (same type %s)" % (fn.rsplit("::", 2)[-2] + "::" + fn.rsplit("::", 1)[-1], k.rsplit("::", 1)[-1], g.rsplit("::", 1)[-1], fty(g)[:40])))
    return out


def rule_hazards(ctx):
    R = "H"
    prop = ctx.prop
    ctx.rule(R, "hazard inventory in the files this property is anchored in: take-then-await (state moved out of a field with an await still ahead), double lock of one mutex in a function, error of a workspace call swallowed, process-wide statics in the anchored crates - every site must be in the reviewed table (tables/hazards.json)")
    files = anchor_files(prop)
    tab = ctx.table("hazards.json")["sites"]
    allowed = {}
    for e in tab:
        allowed[(e["kind"], e["key"])] = e
    found = {}
    for kind, key, where, detail in sites(ctx, files) + static_sites(ctx, files) + config_swaps(ctx, files):
        found.setdefault((kind, key), []).append((where, detail))
    n = 0
    # a reviewed site that moved into another function (helper extracted / renamed): same kind and same field / callee,
    # and the reviewed function no longer has it. Scope: all anchor files (the table is global).
    all_files = set()
    for l in open(os.path.join(VERIF, "properties.jsonl")):
        all_files |= anchor_files(json.loads(l)["id"])
    everywhere = {}
    for kind, key, where, detail in sites(ctx, all_files) if files else []:
        everywhere[(kind, key)] = everywhere.get((kind, key), 0) + 1
    spare = {}
    for (kind, key), e in allowed.items():
        miss = e["count"] - everywhere.get((kind, key), 0)
        if miss > 0:
            spare[(kind, key.split(" | ", 1)[-1])] = spare.get((kind, key.split(" | ", 1)[-1]), 0) + miss
    for (kind, key), ws in sorted(found.items()):
        e = allowed.get((kind, key))
        cnt = e["count"] if e else 0
        for i, (where, detail) in enumerate(ws):
            n += 1
            if i < cnt:
                ctx.ob(R, "%s %s #%d" % (kind, key, i), True, "reviewed: %s" % e["reason"], where)
            elif spare.get((kind, key.split(" | ", 1)[-1]), 0) > 0:
                spare[(kind, key.split(" | ", 1)[-1])] -= 1
                ctx.ob(R, "%s %s (moved)" % (kind, key), True, "re-matched as moved from a reviewed site with the same kind and field/callee", where)
            elif kind == "static-state" and any(e2["kind"] == "static-state" and e2["key"] not in ctx.F.consts and e2.get("ty") == detail.split(" : ", 1)[-1] for e2 in tab):
                ctx.ob(R, "%s %s (moved)" % (kind, key), True, "re-matched as a renamed / moved reviewed static of the same type", where)
            else:
                ctx.ob(R, "%s %s" % (kind, key), False, "new %s site (%s): not in the reviewed hazard table - %s" % (kind, detail, {
                    "take-then-await": "if the await is cancelled, the state that was moved out is lost",
                    "double-lock": "a decision made under the first acquisition can be stale when the second one acts on it",
                    "swallowed-error": "the caller continues as if the operation had succeeded",
                    "config-swap": "the limit / rate / key / timeout applied here is no longer the one configured for it",
                    "static-state": "what it remembers is shared by every caller in the process (all chains, epochs, committees, connections)"}[kind]), where)
    ctx.counts["H:sites in scope"] = n


_LOCKED_RUNNERS = ("sync::wait_for", "sync::wait_for_some", "watch::Receiver::wait_for", "watch::Sender::send_if_modified", "watch::Sender::send_modify",
                   "sync::try_send_modify")
_WATCH_ACCESS = ("watch::Sender::borrow", "watch::Receiver::borrow", "watch::Receiver::borrow_and_update", "watch::Sender::send", "watch::Sender::send_replace",
                 "watch::Sender::send_if_modified", "watch::Sender::send_modify", "watch::Receiver::has_changed", "watch::Receiver::wait_for")


def _watch_payloads(f, t):
    """payload types T of the watch::Sender<T> / watch::Receiver<T> / watch::Ref values among the operands of a call"""
    out = set()
    for a in t.get("args", []):
        pl = a.get("m") or a.get("c")
        if pl is None:
            continue
        ty = f.locals[pl["l"]].s
        for key in ("watch::Sender<", "watch::Receiver<"):
            i = ty.find(key)
            while i >= 0:
                j = i + len(key)
                d = 1
                k = j
                while k < len(ty) and d:
                    d += ty[k] == "<"
                    d -= ty[k] == ">"
                    k += 1
                out.add(ty[j:k - 1])
                i = ty.find(key, k)
    return out


def rule_reentrant_watch(ctx):
    """H6 (global, expected count zero): a closure that tokio's watch runs while it holds the channel's lock (the predicate of
    wait_for, the updater of send_if_modified / send_modify, and the workspace wrappers around them) must not touch a watch
    channel again - directly or through up to three levels of workspace calls. The lock is not re-entrant and readers queue behind
    a waiting writer: `wait_for(|_| self.queued()...)` deadlocks every user of the store as soon as a writer arrives between the
    two reads (seed S9C06). Non-vacuity: the number of such closures scanned has a floor."""
    R = "H6"
    ctx.rule(R, "no re-entrant watch access: closures run under a watch channel's lock (wait_for predicates, send_if_modified / send_modify updaters) reach no watch borrow / send API within three workspace calls")
    G = ctx.cg
    scanned = 0
    for f in ctx.F.fns:
        if f.in_testonly() or f.crate in ("zksync_protobuf", "zksync_protobuf_build") or "loadtest" in f.qname:
            continue
        T = ctx.T(f)
        for c in T.calls():
            q = c["rq"] or c["q"] or ""
            if not q.endswith(_LOCKED_RUNNERS):
                continue
            pay = _watch_payloads(f, c["t"])
            cl = [x for a in T.args_of(c) for x in subterms(a) if x[0] == "closure"]
            for x in cl:
                g0 = (ctx.F.by_qname.get(x[1]) or [None])[0]
                if g0 is None:
                    continue
                scanned += 1
                seen = {g0}
                front = [(g0, [g0.qname])]
                hit = None
                for depth in range(4):
                    nxt = []
                    for g, path in front:
                        for c2 in ctx.T(g).calls():
                            q2 = c2["rq"] or c2["q"] or ""
                            if q2.endswith(_WATCH_ACCESS):
                                # the same channel needs the same payload type (a clock's or another component's watch is another lock)
                                p2 = _watch_payloads(g, c2["t"])
                                if not pay or not p2 or pay & p2:
                                    hit = hit or (g, c2, path, q2)
                        for h in G.edges.get(g, ()):
                            if h not in seen and not h.in_testonly() and G.edge_why.get((g, h)) in ("direct", "closure"):
                                seen.add(h)
                                nxt.append((h, path + [h.qname]))
                    front = nxt
                    if hit:
                        break
                if hit:
                    g, c2, path, q2 = hit
                    ctx.ob(R, "%s | %s" % (origin_root(f.qname), "::".join(q2.split("::")[-2:])), False,
                           "the closure handed to %s in %s reaches %s (via %s) while the watch channel's lock is held: a second, non-re-entrant acquisition - it deadlocks as soon as a writer queues between the two" % ("::".join(q.split("::")[-2:]), origin_root(f.qname), "::".join(q2.split("::")[-3:]), " -> ".join(p.split("::")[-1] for p in path)), g.loc(c2["t"].get("ln")))
    ctx.floor(R, "closures run under a watch lock", scanned, 10)
    ctx.ob(R, "scan", True, "%d closures run under a watch lock scanned to depth 3" % scanned)


RULES = [("H", rule_hazards), ("H6", rule_reentrant_watch)]
