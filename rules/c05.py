"""C05 — view changes are justified, monotone and follow the specification (decision tables + who-writes)."""
from . import common
from engine import query as Q
from engine.terms import show, subterms
from engine.guards import Atom, Walker, field_path, chain
from .phase_gate import SM, is_self, self_field, msg_view_number, view_cmp_atom, sign_blocks, CHONKY_MSG
from .c03 import bft_bodies, root_fn, sm_field_assign_blocks, find_sends, msg_variant


def view_number_chain(t):
    """(root, names) if t is a `<...>.view[()].number` access chain, else None"""
    root, names = chain(t)
    if names[-1:] != ["number"]:
        return None
    if not any(n in ("view", "view()") for n in names[:-1]):
        return None
    return root, names


def rule_who_writes(ctx):
    R = "C05.1"
    ctx.rule(R, "who-may-write: view_number, phase, high_vote, high_commit_qc, high_timeout_qc of the replica are written only by the reviewed handlers")
    allowed = {"phase": {"on_proposal", "start_new_view", "start_timeout"}, "view_number": {"on_proposal", "start_new_view"},
               "high_vote": {"on_proposal"}, "high_commit_qc": {"process_commit_qc"}, "high_timeout_qc": {"process_timeout_qc"}}
    found = {k: set() for k in allowed}
    for f in bft_bodies(ctx):
        for bb in range(len(f.blocks)):
            for names, kind, node in Q.stmt_field_writes(f, bb, SM):
                for n in names & set(allowed):
                    found[n].add(root_fn(f).qname.split("::")[-1])
    for k, s in sorted(found.items()):
        extra = s - allowed[k]
        ctx.ob(R, "writers of %s" % k, not extra and bool(s), "StateMachine.%s is written by %s" % (k, sorted(s)) if not extra else
               "StateMachine.%s is also written by %s (allowed: %s)" % (k, sorted(extra), sorted(allowed[k])))
    ctx.floor(R, "fields with writers", sum(1 for s in found.values() if s), 5)


def adoption_table(ctx, R, fn_name, field, param_ty):
    f = ctx.body(SM + "::" + fn_name)
    T = ctx.T(f)
    pn = common.pnames(f, param_ty)
    param = "/".join(sorted(pn)) or "<certificate argument>"

    def is_cur(t):
        return self_field(t, field)

    def m(a, b):
        ca, cb = view_number_chain(a), view_number_chain(b)
        if not ca or not cb:
            return 0
        ra, rb = ca[0], cb[0]
        a_cur = any(is_cur(x) for x in subterms(a))
        b_cur = any(is_cur(x) for x in subterms(b))
        a_new = (not a_cur) and common.is_p(ra, pn)
        b_new = (not b_cur) and common.is_p(rb, pn)
        if a_cur and b_new:
            return 1
        if b_cur and a_new:
            return -1
        return 0
    atoms = [Atom("cur", "opt", is_cur, ["None", "Some"], kills=[field]),
             Atom("cmp(cur.view,qc.view)", "cmp", m, ["<", "=", ">"], kills=[field])]
    W = Walker(ctx, f, atoms)
    writes = sm_field_assign_blocks(f, field)
    good = sm_field_assign_blocks(f, field, lambda t: t[0] == "agg" and t[2] == "Some" and any(common.is_p(x, pn) for x in subterms(t)), T)
    ctx.floor(R, "writes of %s" % field, len(writes), 1)
    ctx.ob(R, "%s value" % field, set(writes) == set(good), "every write is %s := Some(<the certificate argument>)" % field if set(writes) == set(good) else
           "a write to %s stores something other than Some(%s)" % (field, param), f.loc())
    names, tab = W.table({"adopt": writes})
    for (cur, c), reach in sorted(tab.items()):
        exp = cur == "None" or c == "<"
        got = "adopt" in reach
        if cur == "None" and c != "<":
            key = "row cur=None"
            if c != "=":
                continue
        else:
            key = "row cur=%s cmp%s" % (cur, c)
        ctx.ob(R, "%s %s" % (field, key), exp == got,
               "%s adoption %s as specified (only a strictly newer certificate replaces the held one)" % (field, "reachable" if got else "unreachable") if exp == got else
               ("%s is overwritten when the held certificate's view is %s the new one's (must be strictly older)" % (field, {"=": "equal to", ">": "newer than"}.get(c, c)) if got else
                "a strictly newer certificate is not adopted (cur=%s, cmp %s)" % (cur, c)), f.loc())
    # ... and MUST be adopted then: with the write removed, no successful return is reachable when nothing is held or the held
    # certificate is strictly older (an additional skip condition would leave the replica below a certificate it was given)
    rets = set(Q.success_return_blocks(ctx, f)) if f.locals[0].s.startswith("std::result::Result<") else set(b for b, _ in Q.return_blocks_maybe_ok(ctx, f))
    if writes and rets:
        for val, key in (({"cur": "None", "cmp(cur.view,qc.view)": "<"}, "must adopt when none is held"), ({"cur": "Some", "cmp(cur.view,qc.view)": "<"}, "must adopt a strictly newer certificate")):
            r = W.reachable(val, 0, frozenset(writes))
            leak = r & rets
            ctx.ob(R, "%s %s" % (field, key), not leak, "every successful return is preceded by %s := Some(qc)" % field if not leak else
                   "%s can return Ok without adopting the certificate although %s: the replica stays below a certificate it has verified" % (fn_name, "it holds none" if val["cur"] == "None" else "the held one is strictly older"), f.loc())
    if W.unrecognised:
        ctx.note("%s %s: %d switch(es) not decided by the atoms, e.g. %s" % (R, fn_name, len(W.unrecognised), show(W.unrecognised[0][1])[:160]))


def rule_strictly_newer(ctx):
    R = "C05.2"
    ctx.rule(R, "strictly-newer adoption (guard tables): high_commit_qc / high_timeout_qc := Some(qc) reachable exactly when none is held or the held one's view number is < qc's view number")
    adoption_table(ctx, R, "process_commit_qc", "high_commit_qc", "CommitQC")
    adoption_table(ctx, R, "process_timeout_qc", "high_timeout_qc", "TimeoutQC")


def rule_embedded_commit_qc(ctx):
    R = "C05.3"
    ctx.rule(R, "process_timeout_qc hands the certificate's high commit QC to process_commit_qc whenever it has one - also when the timeout certificate itself is not newer than the held one (two certificates of one view can carry different commit certificates; spec/informal-spec/replica.rs process_timeout_qc)")
    f = ctx.body(SM + "::process_timeout_qc")
    T = ctx.T(f)
    pn = common.pnames(f, "TimeoutQC")

    def is_hq(t):
        return t[0] == "call" and t[1].endswith("TimeoutQC::high_qc")

    def is_cur(t):
        return self_field(t, "high_timeout_qc")

    def m(a, b):
        ca, cb = view_number_chain(a), view_number_chain(b)
        if not ca or not cb:
            return 0
        a_cur = any(is_cur(x) for x in subterms(a))
        b_cur = any(is_cur(x) for x in subterms(b))
        if a_cur and not b_cur and common.is_p(cb[0], pn):
            return 1
        if b_cur and not a_cur and common.is_p(ca[0], pn):
            return -1
        return 0
    calls = [c["bb"] for c in T.calls() if (c["rq"] or c["q"]) == SM + "::process_commit_qc"]
    ctx.floor(R, "process_commit_qc call sites in process_timeout_qc", len(calls), 1)
    W = Walker(ctx, f, [Atom("qc.high_qc()", "opt", is_hq, ["Some"]), Atom("held", "opt", is_cur, ["None", "Some"], kills=["high_timeout_qc"]),
                        Atom("cmp(held.view,qc.view)", "cmp", m, ["<", "=", ">"], kills=["high_timeout_qc"])])
    cfg = ctx.cfg(f)
    rets = set(Q.return_blocks_maybe_ok(ctx, f) and [b for b, _ in Q.return_blocks_maybe_ok(ctx, f)])
    bad = []
    import itertools
    for held, c in itertools.product(["None", "Some"], ["<", "=", ">"]):
        val = {"qc.high_qc()": "Some", "held": held, "cmp(held.view,qc.view)": c}
        r = W.reachable(val, 0, frozenset(calls))
        if r & rets:
            bad.append((held, c))
    ctx.ob(R, "embedded commit QC always processed", not bad and bool(calls),
           "every successful path of process_timeout_qc with qc.high_qc() = Some passes process_commit_qc, whatever the held timeout certificate" if not bad and calls else
           "process_timeout_qc can return Ok without processing the certificate's high commit QC when (held timeout QC, held.view vs qc.view) is %s: a newer commit certificate carried by a same-view (or older) timeout certificate is dropped" % bad, f.loc())


def rule_justification_always_processed(ctx):
    R = "C05.10"
    ctx.rule(R, "a handler that accepts a message carrying a justification (on_proposal, on_new_view) hands that certificate to process_commit_qc / process_timeout_qc on EVERY successful path - also when the message is for the view the replica is already in (it may have entered the view through another, older certificate; spec/informal-spec/replica.rs on_proposal / on_new_view process the justification unconditionally). Skipping it leaves the replica's highest certificates below what it has verified and acted on: its own timeout / new-view messages are then no longer self-justifying and a finalized block is not saved")
    for h in ("on_proposal", "on_new_view"):
        f = ctx.body(SM + "::" + h)
        T = ctx.T(f)
        calls = {}
        for c in T.calls():
            q = c["rq"] or c["q"]
            if q in (SM + "::process_commit_qc", SM + "::process_timeout_qc"):
                calls.setdefault(q.rsplit("::", 1)[1], []).append(c["bb"])
        ctx.floor(R, "process_*_qc call sites in %s" % h, len(calls), 2)
        if len(calls) < 2:
            continue
        allc = frozenset(b for v in calls.values() for b in v)
        rets = set(Q.success_return_blocks(ctx, f)) if f.locals[0].s.startswith("std::result::Result<") else set(b for b, _ in Q.return_blocks_maybe_ok(ctx, f))
        cfg = ctx.cfg(f, with_cancel=False)
        r = cfg.reach_from([0], avoid_blocks=allc)
        leak = r & rets
        if leak:
            # per kind of justification (an `if let Commit .. else if let Timeout ..` chain has a third, infeasible way out)
            def is_j(t):
                return t[0] == "field" and t[2] == "justification"
            W = Walker(ctx, f, [Atom("justification", "enum", is_j, ["Commit", "Timeout"])])
            leak = set()
            for v in ("Commit", "Timeout"):
                leak |= W.reachable({"justification": v}, 0, allc) & rets
        ctx.ob(R, "%s: justification processed on every successful path" % h, not leak and bool(rets),
               "every Ok return of %s is preceded by process_commit_qc / process_timeout_qc of the carried certificate" % h if not leak and rets else
               "%s can return Ok without handing the message's justification to process_commit_qc / process_timeout_qc: the certificate of an accepted message is dropped (e.g. when the message is for the replica's current view)" % h, f.loc())
        # which certificate: the one inside the handled message's justification
        okarg = True
        for c in T.calls():
            q = c["rq"] or c["q"]
            if q in (SM + "::process_commit_qc", SM + "::process_timeout_qc"):
                a = T.args_of(c)
                qc = a[2] if len(a) > 2 else None
                if qc is None or not any(x[0] == "field" and x[2] == "justification" for x in subterms(qc)):
                    vs = common.value_terms(f, T, qc) if qc is not None else []
                    if not any(x[0] == "field" and x[2] == "justification" for v in vs for x in subterms(v)):
                        okarg = False
        ctx.ob(R, "%s: the processed certificate is the message's justification" % h, okarg, "process_*_qc(ctx, <message>.justification's certificate)" if okarg else "%s processes a certificate that is not the handled message's justification" % h, f.loc())


def rule_restore(ctx):
    R = "C05.12"
    ctx.rule(R, "what a restarted replica resumes from (StateMachine::start): the stored state as a whole when - and only when - it was written in the epoch the replica runs in (backup.epoch == config.epoch), the default state (view 0, Prepare, no vote, no certificates) otherwise. Views restart from 0 in every epoch: a state of another epoch, even with its epoch field overwritten, makes the replica claim a view it was never justified to be in and report certificates of another committee")
    f = ctx.body(SM + "::start")
    T = ctx.T(f)
    cands = [l for l, ty in enumerate(f.locals) if ty.s.endswith("state::ChonkyV2State") and len(T.defs.get(l, [])) > 1]
    if len(cands) != 1:
        ctx.note("C05.12: the restored state is not a single multiply-assigned ChonkyV2State local (%d candidates) - not decided" % len(cands))
        ctx.ob(R, "restored state", True, "undecided shape (not reported)", f.loc())
        return
    loc = cands[0]
    stored, dflt, other = [], [], []
    for d in T.defs[loc]:
        if d[0] == "s":
            v = T.rvalue(f.blocks[d[1]]["s"][d[2]]["r"])
            if v[0] == "agg":
                other.append((d[1], show(v)[:100]))
            elif any(x[0] == "call" and x[1].endswith("EngineManager::get_state") for x in subterms(v)):
                stored.append(d[1])
            else:
                other.append((d[1], show(v)[:100]))
        elif d[0] == "c":
            ct = T.call_term(f.blocks[d[1]]["t"])
            if ct[0] == "call" and ct[1].endswith("Default::default") and not ct[2]:
                dflt.append(d[1])
            else:
                other.append((d[1], show(ct)[:100]))
    ctx.ob(R, "restored state is the stored one or the default", not other and bool(stored) and bool(dflt), "the state resumed from is the stored ChonkyV2State (whole) or ChonkyV2State::default()" if not other and stored and dflt else
           "StateMachine::start resumes from a state that is neither the stored state as a whole nor the default: %s" % ([o[1] for o in other][:2] or "stored / default assignment missing"), f.loc())

    def m(a, b):
        ea = chain(a)[1][-1:] == ["epoch"]
        eb = chain(b)[1][-1:] == ["epoch"]
        sa = any(x[0] == "call" and x[1].endswith("EngineManager::get_state") for x in subterms(a))
        sb = any(x[0] == "call" and x[1].endswith("EngineManager::get_state") for x in subterms(b))
        if ea and eb and sa and not sb:
            return 1
        if ea and eb and sb and not sa:
            return -1
        return 0
    if stored and common.atom_is_tested(ctx, f, m):
        W = Walker(ctx, f, [Atom("stored.epoch vs config.epoch", "cmp", m, ["=", "!="])])
        names, tab = W.table({"stored": stored, "default": dflt})
        ok = "stored" in tab.get(("=",), set()) and "stored" not in tab.get(("!=",), {"stored"}) and "default" in tab.get(("!=",), set())
        ctx.ob(R, "stored state used only for its own epoch", ok, "the stored state is resumed only when backup.epoch == config.epoch; otherwise the default" if ok else
               "the stored state is resumed although it was written in another epoch: %s" % {k: sorted(v) for k, v in tab.items()}, f.loc())
    elif stored:
        ctx.note("C05.12: no comparison of the stored epoch with the configured one found - not decided")
        ctx.ob(R, "stored state used only for its own epoch", True, "undecided shape (not reported)", f.loc())


def rule_new_view_membership(ctx):
    R = "C05.9"
    ctx.rule(R, "a new-view message is acted on only when its signer is a committee member (spec/informal-spec/replica.rs on_new_view): certificate adoption and the view change are unreachable when validators.contains(author) is false")
    f = ctx.body(SM + "::on_new_view")
    T = ctx.T(f)

    def a_member(t):
        return t[0] == "call" and t[1].endswith("Schedule::contains")
    acts = [c["bb"] for c in T.calls() if (c["rq"] or c["q"]) in (SM + "::process_commit_qc", SM + "::process_timeout_qc", SM + "::start_new_view")]
    ctx.floor(R, "actions of on_new_view (certificate adoption, view change)", len(acts), 3)
    W = Walker(ctx, f, [Atom("member", "bool", a_member, [True, False])])
    names, tab = W.table({"act": acts})
    ok = "act" in tab.get((True,), set()) and "act" not in tab.get((False,), {"act"})
    ctx.ob(R, "membership gate", ok, "on_new_view adopts certificates / changes view only for committee members" if ok else
           "on_new_view acts on a new-view message although its signer is not in the validator committee (reachability by membership: %s)" % {k[0]: sorted(v) for k, v in tab.items()}, f.loc())


def rule_stale_new_view(ctx):
    R = "C05.5"
    ctx.rule(R, "stale new-view (guard table over view order x author is the view's leader): certificates are processed iff msg.view > self.view, or msg.view == self.view and the author is the leader of the current view; a newer view is started exactly when msg.view > self.view")
    f = ctx.body(SM + "::on_new_view")
    T = ctx.T(f)
    sig_names = common.pnames(f, "::Signed<")

    def m_leader(a, b):
        def is_author(t):
            root, names = chain(t)
            return names[-1:] == ["key"] and common.is_p(root, sig_names)

        def is_leader(t):
            return any(x[0] == "call" and x[1].endswith("Schedule::view_leader") for x in subterms(t))
        if is_author(a) and is_leader(b):
            return 1
        if is_author(b) and is_leader(a):
            return -1
        return 0
    W = Walker(ctx, f, [view_cmp_atom(), Atom("author vs leader", "cmp", m_leader, ["=", "!="])])
    proc = [c["bb"] for c in T.calls() if (c["rq"] or c["q"]) in (SM + "::process_commit_qc", SM + "::process_timeout_qc")]
    start = [c["bb"] for c in T.calls() if (c["rq"] or c["q"]) == SM + "::start_new_view"]
    ctx.floor(R, "certificate adoption calls in on_new_view", len(proc), 2)
    ctx.floor(R, "view start calls in on_new_view", len(start), 1)
    names, tab = W.table({"process": proc, "start": start})
    leader_decided = len(set(frozenset(v) for (c, l), v in tab.items() if c == "=")) > 1
    if not leader_decided:
        ctx.note("C05.5: the author/leader comparison was not recognised - the same-view row is decided on the view order only")
    for (c, l), reach in sorted(tab.items()):
        exp_proc = c == ">" or (c == "=" and (l == "=" or not leader_decided))
        ok = (("process" in reach) == exp_proc) and (("start" in reach) == (c == ">"))
        ctx.ob(R, "row view%s author%sleader" % (c, l), ok, "reachable: %s (spec: old messages dropped, same-view messages only from the leader, newer view started)" % sorted(reach) if ok else
               "for msg.view %s self.view and author %s leader the handler reaches %s (expected process iff newer view or same view from its leader, start iff newer view)" % (c, l, sorted(reach)), f.loc())


def rule_stale_votes(ctx):
    R = "C05.6"
    ctx.rule(R, "stale votes (guard table): the commit and timeout handlers process a vote only when msg.view >= self.view")
    for name, cache in (("on_commit", "commit_qcs_cache"), ("on_timeout", "timeout_qcs_cache")):
        f = ctx.body(SM + "::" + name)
        T = ctx.T(f)
        W = Walker(ctx, f, [view_cmp_atom()])
        adds = [c["bb"] for c in T.calls() if c["q"].endswith("QC::add")]
        ctx.floor(R, "QC::add sites in %s" % name, len(adds), 1)
        names, tab = W.table({"add": adds})
        for (c,), reach in sorted(tab.items()):
            exp = c != "<"
            got = "add" in reach
            ctx.ob(R, "%s row view%s" % (name, c), exp == got, "vote %s" % ("processed" if got else "rejected") if exp == got else
                   ("%s processes a vote for an old view" % name if got else "%s rejects a vote for view %s the current one" % (name, c)), f.loc())


def rule_wrong_leader(ctx):
    R = "C05.8"
    ctx.rule(R, "wrong leader (guard table): proposal processing is unreachable when the author is not view_leader(view of the message)")
    f = ctx.body(SM + "::on_proposal")
    T = ctx.T(f)

    def m(a, b):
        def is_author(t):
            root, names = chain(t)
            return names[-1:] == ["key"] and common.is_p(root, common.pnames(f, "::Signed<"))
        def is_leader(t):
            return t[0] == "call" and t[1].endswith("Schedule::view_leader")
        if is_author(a) and is_leader(b):
            return 1
        if is_author(b) and is_leader(a):
            return -1
        return 0
    W = Walker(ctx, f, [Atom("author==leader", "cmp", m, ["=", "!="])])
    tg = sign_blocks(ctx, f, "ReplicaCommit")
    names, tab = W.table({"vote": tg})
    ok = "vote" in tab.get(("=",), set()) and "vote" not in tab.get(("!=",), {"vote"})
    ctx.ob(R, "leader table", ok, "vote reachable only when author == view_leader(..)" if ok else "vote reachable with author != leader: %s" % {k: sorted(v) for k, v in tab.items()}, f.loc())
    # the leader is computed for the message's view
    leaders = [T.args_of(c) for c in T.calls() if c["q"].endswith("Schedule::view_leader")]
    okv = bool(leaders) and all(msg_view_number(a[1]) for a in leaders)
    ctx.ob(R, "leader of the message's view", okv, "view_leader is evaluated at message.view().number" if okv else "view_leader is not evaluated at the message's view: %s" % [show(a[1]) for a in leaders], f.loc())


def rule_self_justifying(ctx):
    R = "C05.7"
    ctx.rule(R, "every emitted ReplicaNewView carries get_justification() of the current state; the proposer watch is fed the same justification")
    n = 0
    for f, c, var, args in find_sends(ctx):
        if var != "ReplicaNewView":
            continue
        n += 1
        ok = False
        for t in subterms(args[1]):
            if t[0] == "agg" and t[1].endswith("::ReplicaNewView") and t[2] == "ReplicaNewView":
                j = dict(t[3]).get("justification")
                ok = j is not None and j[0] == "call" and j[1] == SM + "::get_justification"
        ctx.ob(R, "new-view justification in %s" % root_fn(f).qname.split("::")[-1], ok,
               "ReplicaNewView.justification = self.get_justification()" if ok else "an emitted ReplicaNewView does not carry get_justification()", f.loc(c["t"].get("ln")))
    ctx.floor(R, "ReplicaNewView sends", n, 2)
    # get_justification returns one of the two held certificates
    g = ctx.fn(SM + "::get_justification")
    T = ctx.T(g)
    rets = []
    for b in g.blocks:
        for s in b["s"]:
            if s["k"] == "assign" and s["p"]["l"] in Q.ret_locals(g) and s["r"]["k"] == "agg":
                rets.append(T.rvalue(s["r"]))
    exp = {"Commit": "high_commit_qc", "Timeout": "high_timeout_qc"}
    ok = set(r[2] for r in rets) == {"Commit", "Timeout"}
    for r in rets:
        fld = exp.get(r[2])
        inner = r[3][0][1] if r[3] else None
        ok = ok and fld is not None and inner is not None and any(x[0] == "field" and x[2] == fld for x in subterms(inner))
    ctx.ob(R, "get_justification returns held certificates", ok, "Commit(self.high_commit_qc) / Timeout(self.high_timeout_qc)" if ok else "get_justification returns %s" % [show(r)[:100] for r in rets], g.loc())


def rule_timeout_content(ctx):
    R = "C05.11"
    ctx.rule(R, "every ReplicaTimeout a replica signs reports its state verbatim: high_vote is the recorded high vote (self.high_vote, unfiltered), high_qc the highest commit certificate it holds (self.high_commit_qc), the view its current view in its epoch. The re-proposal rule counts exactly these reports: a replica that withholds its high vote (e.g. once a timeout certificate of the vote's view exists) lets a later timeout certificate come out without the sub-quorum for a block that a quorum has voted to commit, and the next leader proposes another payload for that number")
    n = 0
    for f, c, var, args in find_sends(ctx):
        if var != "ReplicaTimeout":
            continue
        T = ctx.T(f)
        for t in subterms(args[1]):
            if t[0] == "agg" and t[1].endswith("::ReplicaTimeout") and t[2] == "ReplicaTimeout":
                n += 1
                flds = dict(t[3])
                for fld, src in (("high_vote", "high_vote"), ("high_qc", "high_commit_qc")):
                    v = flds.get(fld)
                    vs = common.value_terms(f, T, v) if v is not None else []
                    while v is not None and v[0] == "call" and v[1] in ("std::clone::Clone::clone", "std::option::Option::cloned", "std::option::Option::as_ref") and v[2]:
                        v = v[2][0]
                    direct = v is not None and self_field(v, src)
                    filtered = any(x[0] == "call" and x[1].rsplit("::", 1)[-1] in ("filter", "take_if", "and_then", "xor", "zip", "then", "then_some", "take", "replace") for u in vs for x in subterms(u))
                    ok = direct and not filtered
                    ctx.ob(R, "ReplicaTimeout.%s in %s" % (fld, root_fn(f).qname.split("::")[-1]), ok, "%s: self.%s.clone()" % (fld, src) if ok else
                           "the signed ReplicaTimeout reports %s = %s instead of the recorded self.%s: what the replica has voted for / holds is under-reported to the timeout certificate" % (fld, show(flds.get(fld))[:100] if flds.get(fld) is not None else None, src), f.loc(c["t"].get("ln")))
                vw = flds.get("view")
                okv = vw is not None and any(self_field(x, "view_number") for x in subterms(vw))
                ctx.ob(R, "ReplicaTimeout.view in %s" % root_fn(f).qname.split("::")[-1], okv, "view.number = self.view_number" if okv else "the timeout vote is not for the replica's current view: %s" % (show(vw)[:80] if vw is not None else None), f.loc(c["t"].get("ln")))
    ctx.floor(R, "signed ReplicaTimeout messages", n, 1)


def rule_justification_choice(ctx):
    R = "C05.4"
    ctx.rule(R, "justification choice (table over held commit/timeout certificates and their view order): Commit is chosen iff a commit certificate is held and (no timeout certificate is held or commit.view >= timeout.view); with neither held only the assertion is reachable")
    g = ctx.fn(SM + "::get_justification")
    T = ctx.T(g)

    def is_c(t):
        return self_field(t, "high_commit_qc")

    def is_t(t):
        return self_field(t, "high_timeout_qc")

    def m(a, b):
        def side(t):
            subs = list(subterms(t))
            if any(is_c(x) for x in subs):
                return "c"
            if any(is_t(x) for x in subs):
                return "t"
            return None
        sa, sb = side(a), side(b)
        if sa == "c" and sb == "t":
            return 1
        if sa == "t" and sb == "c":
            return -1
        return 0
    atoms = [Atom("commit", "opt", is_c, ["None", "Some"]), Atom("timeout", "opt", is_t, ["None", "Some"]), Atom("cmp(commit.view,timeout.view)", "cmp", m, ["<", "=", ">"])]
    W = Walker(ctx, g, atoms)
    rc = [bi for bi, b in enumerate(g.blocks) for s in b["s"] if s["k"] == "assign" and s["p"]["l"] in Q.ret_locals(g) and s["r"]["k"] == "agg" and s["r"].get("variant") == "Commit"]
    rt = [bi for bi, b in enumerate(g.blocks) for s in b["s"] if s["k"] == "assign" and s["p"]["l"] in Q.ret_locals(g) and s["r"]["k"] == "agg" and s["r"].get("variant") == "Timeout"]
    pan = [c["bb"] for c in T.calls() if c["q"] in ("std::panicking::panic", "std::panicking::panic_fmt")]
    names, tab = W.table({"Commit": rc, "Timeout": rt, "assert": pan})
    seen = set()
    for (c, t, o), reach in sorted(tab.items()):
        if c == "None" and t == "None":
            exp, key = {"assert"}, "none held"
        elif c == "Some" and (t == "None" or o in ("=", ">")):
            exp, key = {"Commit"}, "commit held, timeout %s" % ("absent" if t == "None" else "view %s= commit" % ("<" if o == ">" else "="))
        else:
            exp, key = {"Timeout"}, "timeout newer or commit absent (c=%s t=%s %s)" % (c, t, o if c == "Some" else "-")
        if key in seen and reach == exp:
            continue
        seen.add(key)
        ctx.ob(R, "row %s" % key, reach == exp, "-> %s" % sorted(reach) if reach == exp else
               "with commit=%s timeout=%s order %s get_justification reaches %s; specified %s (spec/informal-spec/replica.rs create_justification)" % (c, t, o, sorted(reach), sorted(exp)), g.loc())


RULES = [("C05.1", rule_who_writes), ("C05.4", rule_justification_choice), ("C05.2", rule_strictly_newer), ("C05.3", rule_embedded_commit_qc), ("C05.10", rule_justification_always_processed), ("C05.12", rule_restore), ("C05.9", rule_new_view_membership), ("C05.5", rule_stale_new_view), ("C05.6", rule_stale_votes),
         ("C05.7", rule_self_justifying), ("C05.11", rule_timeout_content), ("C05.8", rule_wrong_leader)]
