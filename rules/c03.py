"""C03 — no vote equivocation by a correct validator, even across crashes.

Persist-before-send as a dominance fact over every path and therefore every crash point."""
from . import common
from engine import query as Q
from engine.terms import show, subterms, strip, RESULT_ADAPTERS
from engine.guards import Atom, Walker, field_path

SM = "zksync_consensus_bft::v2_chonky_bft::StateMachine"
CHONKY_MSG = "zksync_consensus_roles::validator::messages::v2::consensus::ChonkyMsg"
INPUT_MSG = "zksync_consensus_network::io::ConsensusInputMessage"
ENGINE_SET_STATE = "zksync_consensus_engine::manager::EngineManager::set_state"
IFACE_SET_STATE = "zksync_consensus_engine::interface::EngineInterface::set_state"
STATE_ADT = "zksync_consensus_roles::validator::messages::v2::state::ChonkyV2State"
MUST_PERSIST = {"ReplicaCommit", "ReplicaTimeout", "ReplicaNewView"}


def bft_bodies(ctx):
    return [f for f in ctx.F.fns if f.crate == "zksync_consensus_bft" and not f.in_testonly()]


def root_fn(f):
    while f.parent is not None:
        f = f.parent
    return f


def msg_variant(term):
    """ChonkyMsg variant carried by a (signed) message term, or None."""
    for t in subterms(term):
        if t[0] == "agg" and t[1] == CHONKY_MSG:
            return t[2]
    return None


def persist_like(ctx):
    """Qnames of fns that return Ok only after the durable write succeeded: fixpoint over
    'every maybe-Ok return is dominated by success(await(P))', seeded with EngineManager::set_state
    whose own body must reach EngineInterface::set_state (C03.2)."""
    P = getattr(ctx, "_persist_like", None)
    if P is not None:
        return P
    P = {ENGINE_SET_STATE}
    changed = True
    cands = [f for f in ctx.F.fns if f.kind == "coroutine" and not f.in_testonly() and f.crate in ("zksync_consensus_bft",)]
    while changed:
        changed = False
        for f in cands:
            rq = root_fn(f).qname
            if rq in P or f.parent is None or f.parent.parent is not None:
                continue
            T = ctx.T(f)
            if not any(c["q"] in P for c in T.calls()):
                continue
            edges = Q.success_edges(ctx, f, lambda b: Q.is_await_of(b, P))
            cfg = ctx.cfg(f, with_cancel=False)
            rets = Q.return_blocks_maybe_ok(ctx, f)

            def propagates(bb, how):
                """the value returned here IS the persist call's result (possibly through wrap/context/map_err): Ok iff it was Ok"""
                if how != "call":
                    return False
                for pb, b in enumerate(f.blocks):
                    t = b["t"]
                    if t["k"] == "call" and t.get("t") == bb and not t["dest"].get("pr") and t["dest"]["l"] in Q.ret_locals(f):
                        ct = strip(T.call_term(t), RESULT_ADAPTERS)
                        if Q.is_await_of(ct, P):
                            return True
                return False
            if rets and all((bool(edges) and cfg.must_pass(bb, edges)) or propagates(bb, how) for bb, how in rets):
                P.add(rq)
                changed = True
    ctx._persist_like = P
    return P


def dominated_by_persist(ctx, f, bb, depth=0, trail=()):
    """Is block bb of body f dominated by the success of an awaited persist-like call — locally, or
    (wrapper lifting, depth <= 4) at every call site of f's root fn?  Returns (ok, explanation)."""
    P = persist_like(ctx)
    edges = Q.success_edges(ctx, f, lambda b: Q.is_await_of(b, P))
    cfg = ctx.cfg(f)
    if edges and cfg.must_pass(bb, edges):
        return True, "dominated in %s by success of %s" % (f.qname, sorted(set(show(ctx.T(f).switch_info(e[0])[0]) for e in edges))[:2])
    if depth >= 4:
        return False, "not dominated within lifting depth 4 (%s)" % " <- ".join(trail + (f.qname,))
    r = root_fn(f)
    sites = []
    for g in bft_bodies(ctx):
        for c in ctx.T(g).calls():
            if c["rq"] == r.qname or c["q"] == r.qname:
                sites.append((g, c["bb"]))
    if not sites:
        return False, "no dominating persist in %s and no caller to lift the obligation to" % f.qname
    for g, cbb in sites:
        ok, why = dominated_by_persist(ctx, g, cbb, depth + 1, trail + (f.qname,))
        if not ok:
            return False, "caller %s: %s" % (g.qname, why)
    return True, "lifted to %d call site(s) of %s, each dominated" % (len(sites), r.qname)


def find_sends(ctx):
    out = []
    for f in bft_bodies(ctx):
        T = ctx.T(f)
        for c in T.calls():
            ga = c["t"]["f"].get("ga", [])
            if c["q"].endswith("::send") and ga and f.ty(ga[0]).s == INPUT_MSG:
                args = T.args_of(c)
                out.append((f, c, msg_variant(args[1]) if len(args) > 1 else None, args))
    return out


def find_signs(ctx):
    out = []
    for f in bft_bodies(ctx):
        T = ctx.T(f)
        for c in T.calls():
            if c["q"].endswith("::SecretKey::sign_msg") and "validator" in c["q"]:
                args = T.args_of(c)
                out.append((f, c, msg_variant(args[1]) if len(args) > 1 else None, args))
    return out


def rule_persist_before_send(ctx):
    R = "C03.1"
    ctx.rule(R, "every send/sign of a ReplicaCommit/ReplicaTimeout/ReplicaNewView in bft is dominated by the success of an awaited persist-like call (wrappers lifted to callers)")
    n_send = n_sign = 0
    for kind, sites in (("send", find_sends(ctx)), ("sign", find_signs(ctx))):
        for f, c, var, args in sites:
            rq = root_fn(f).qname.split("::")[-1]
            key = "%s %s in %s" % (kind, var or "unknown-variant", rq)
            if var == "LeaderProposal":
                ctx.ob(R, key, True, "exempt: a LeaderProposal is not recorded in replica state (proposer loop)", f.loc(c["t"].get("ln")))
                continue
            if kind == "send":
                n_send += 1
            else:
                n_sign += 1
            ok, why = dominated_by_persist(ctx, f, c["bb"])
            if not ok and kind == "sign":
                # signed early, sent late: a signature that has not left the node binds nobody. The obligation is on what
                # leaves - every send the signed value flows into must come after the durable write.
                LF = Q.LocalFlow(f)
                d = c["t"]["dest"]["l"]
                outs = []
                for f2, c2, var2, args2 in find_sends(ctx):
                    if f2 is f and c2["t"]["args"]:
                        al = [LF._local_op(a) for a in c2["t"]["args"]]
                        if any(a is not None and LF.derives_from_local(a, d) for a in al):
                            outs.append(dominated_by_persist(ctx, f, c2["bb"])[0])
                if outs and all(outs):
                    ok, why = True, "signed before the backup but handed to the network only by %d send(s) that the backup's success dominates" % len(outs)
            ctx.ob(R, key, ok, ("persist-before-%s holds: %s" % (kind, why)) if ok else
                   "a signed %s can leave the node (or be signed) on a path where the state recording it was not durably written first: %s" % (var or "message", why),
                   f.loc(c["t"].get("ln")), {"function": f.qname, "variant": var})
    ctx.floor(R, "sends of persisted-vote messages", n_send, 4)
    ctx.floor(R, "sign_msg of persisted-vote messages", n_sign, 4)


def rule_backup_reaches_engine(ctx):
    R = "C03.2"
    ctx.rule(R, "backup_state returns Ok only after EngineManager::set_state succeeded, which returns Ok only after the dyn EngineInterface::set_state succeeded")
    P = persist_like(ctx)
    backup = [q for q in P if q.startswith("zksync_consensus_bft")]
    ctx.ob(R, "bft persist-like fns", len(backup) >= 1, "bodies in bft proven persist-like (every maybe-Ok return dominated by set_state success): %s" % sorted(backup))
    # EngineManager::set_state itself
    f = ctx.body(ENGINE_SET_STATE)
    edges = Q.success_edges(ctx, f, lambda b: Q.is_await_of(b, {IFACE_SET_STATE}))
    cfg = ctx.cfg(f, with_cancel=False)
    rets = Q.return_blocks_maybe_ok(ctx, f)
    ok = bool(edges) and bool(rets) and all(cfg.must_pass(bb, edges) for bb, _ in rets)
    ctx.ob(R, "EngineManager::set_state", ok, "every maybe-Ok return of EngineManager::set_state is dominated by success of the awaited EngineInterface::set_state (error not swallowed)" if ok else
           "EngineManager::set_state can return Ok without the interface's set_state having succeeded", f.loc())
    # the state handed over is the argument
    T = ctx.T(f)
    calls = [c for c in T.calls() if c["q"] == IFACE_SET_STATE]
    okarg = False
    for c in calls:
        args = T.args_of(c)
        st_names = common.pnames(f, "ReplicaState")
        okarg = okarg or any(common.is_p(x, st_names) for a in args[1:] for x in subterms(a))
    ctx.ob(R, "state forwarded", okarg, "the state passed to the interface is the caller's state argument", f.loc())


def persisted_fields(ctx):
    """StateMachine fields read by the body that builds ChonkyV2State (derived, not hand-listed)."""
    out = set()
    where = None
    for f in bft_bodies(ctx):
        T = ctx.T(f)
        for b in f.blocks:
            for s in b["s"]:
                if s["k"] == "assign" and s["r"]["k"] == "agg" and s["r"].get("def") == STATE_ADT:
                    where = f
                    t = T.rvalue(s["r"])
                    for x in subterms(t):
                        if x[0] == "field":
                            base, path = field_path(x)
                            if base in (("upvar", "self"), ("param", 1, "self")) and path:
                                out.add(path[0])
    # proposals are built from the cache
    if where is not None:
        T = ctx.T(where)
        for b in where.blocks:
            for s in b["s"]:
                if s["k"] == "assign" and s["r"]["k"] == "ref":
                    t = T.place(s["r"]["p"])
                    base, path = field_path(t)
                    if base == ("upvar", "self") and path and path[0] == "block_proposal_cache":
                        out.add("block_proposal_cache")
    return out, where


def rule_no_write_between(ctx):
    R = "C03.3"
    ctx.rule(R, "on every path from the backup's success to each send, no write to the persisted StateMachine fields (derived from the body that builds ChonkyV2State; callee summaries included)")
    W, where = persisted_fields(ctx)
    W.discard("config")
    ctx.ob(R, "derived persisted set", {"view_number", "phase", "high_vote", "high_commit_qc", "high_timeout_qc"} <= W,
           "persisted set derived from %s: %s" % (where.qname if where else None, sorted(W)))
    P = persist_like(ctx)
    mw = Q.MayWrite(ctx, SM)
    n = 0
    for f, c, var, args in find_sends(ctx):
        if var == "LeaderProposal":
            continue
        edges = Q.success_edges(ctx, f, lambda b: Q.is_await_of(b, P))
        cfg = ctx.cfg(f)
        if not edges or not cfg.must_pass(c["bb"], edges):
            continue  # lifted obligations are covered at the caller by C03.1; region check applies where the persist is local
        n += 1
        region = Q.region_between(cfg, [t for _, t in edges], c["bb"])
        bad = []
        for bb in region:
            for names, kind, node in Q.stmt_field_writes(f, bb, SM):
                if names & W:
                    bad.append("bb%d %s of %s (line %s)" % (bb, kind, sorted(names & W), node.get("ln")))
            t = f.blocks[bb]["t"]
            if t["k"] == "call" and bb != c["bb"]:
                w = mw.of_call(f, t) & W
                if w:
                    decl, res, rk = f.callee(t)
                    bad.append("bb%d call %s may write %s (line %s)" % (bb, decl.qname, sorted(w), t.get("ln")))
        rq = root_fn(f).qname.split("::")[-1]
        ctx.ob(R, "persist->send %s in %s" % (var, rq), not bad,
               "no write to %s between backup success and the send (%d blocks on the paths)" % (sorted(W), len(region)) if not bad else
               "the persisted state can change between the durable write and the send: %s" % "; ".join(bad[:4]), f.loc(c["t"].get("ln")))
    ctx.floor(R, "persist->send regions", n, 4)


def rule_backup_restore_agree(ctx):
    R = "C03.4"
    ctx.rule(R, "every field of ChonkyV2State is populated in the backup from a StateMachine field and read back in StateMachine::start into the same field; the backup is used only for the same epoch")
    fields = [n for n, _ in ctx.F.adt_fields(STATE_ADT)]
    ctx.floor(R, "ChonkyV2State fields", len(fields), 7)
    # backup side
    bf = None
    agg = None
    for f in bft_bodies(ctx):
        for b in f.blocks:
            for s in b["s"]:
                if s["k"] == "assign" and s["r"]["k"] == "agg" and s["r"].get("def") == STATE_ADT:
                    bf, agg = f, ctx.T(f).rvalue(s["r"])
    if bf is None:
        ctx.ob(R, "backup aggregate", False, "no body constructs ChonkyV2State in bft (anchor missing)")
        return
    expect = {"view_number": "view_number", "phase": "phase", "high_vote": "high_vote", "high_commit_qc": "high_commit_qc",
              "high_timeout_qc": "high_timeout_qc"}
    for name, t in agg[3]:
        if name in expect:
            base, path = field_path(t)
            ok = base == ("upvar", "self") and path == [expect[name]]
            ctx.ob(R, "backup %s" % name, ok, "ChonkyV2State.%s := self.%s" % (name, ".".join(path)) if ok else "ChonkyV2State.%s is not populated from self.%s but from %s" % (name, expect[name], show(t)), bf.loc())
        elif name == "epoch":
            base, path = field_path(t)
            ok = path[-1:] == ["epoch"] and "config" in path
            ctx.ob(R, "backup epoch", ok, "ChonkyV2State.epoch := self.config.epoch" if ok else "epoch populated from %s" % show(t), bf.loc())
    # restore side: StateMachine::start builds the StateMachine aggregate
    st = ctx.fn(SM + "::start")
    body = ctx.F.body_of(st)
    T = ctx.T(body)
    sm_agg = None
    for b in body.blocks:
        for s in b["s"]:
            if s["k"] == "assign" and s["r"]["k"] == "agg" and s["r"].get("def") == SM:
                sm_agg = T.rvalue(s["r"])
    if sm_agg is None:
        ctx.ob(R, "restore aggregate", False, "StateMachine::start does not construct StateMachine with a struct literal (shape unrecognised)", body.loc())
        return
    for name, t in sm_agg[3]:
        if name in expect:
            base, path = field_path(t)
            ok = path[-1:] == [name]
            ctx.ob(R, "restore %s" % name, ok, "StateMachine.%s := backup.%s" % (name, name) if ok else "StateMachine.%s restored from %s (expected the backup's %s)" % (name, show(t), name), body.loc())
    # epoch gate: the backup is used only when backup.epoch == config.epoch
    def m(a, b):
        pa, pb = field_path(a)[1], field_path(b)[1]
        def is_cfg(t, path):
            base = field_path(t)[0]
            return "config" in path or (base[0] in ("upvar", "param") and "config" in str(base[-1]))
        if pa[-1:] == ["epoch"] and pb[-1:] == ["epoch"] and (is_cfg(a, pa) != is_cfg(b, pb)):
            return 1
        return 0
    W = Walker(ctx, body, [Atom("epoch_eq", "cmp", m, ["=", "!="])])
    adopt, dflt = set(), set()
    # the local the StateMachine literal is restored from
    src_locals = set()
    for name, t in sm_agg[3]:
        if name in expect:
            base, path = field_path(t)
            # the persisted-state value the field is read from: a local, possibly behind `?` / Ok(..) of an inlined loader
            for x in subterms(base):
                if x[0] == "var" and "ChonkyV2State" in body.locals[x[1]].s:
                    src_locals.add(x[1])
    ctx.ob(R, "restore source", len(src_locals) == 1, "all restored fields come from one ChonkyV2State local (%s)" % sorted(src_locals), body.loc())
    for bi, b in enumerate(body.blocks):
        defs = []
        for s in b["s"]:
            if s["k"] == "assign" and not s["p"].get("pr") and s["p"]["l"] in src_locals:
                defs.append(T.rvalue(s["r"]))
        t = b["t"]
        if t["k"] == "call" and not t["dest"].get("pr") and t["dest"]["l"] in src_locals:
            defs.append(T.call_term(t))
        for d in defs:
            if d[0] == "call" and d[1] == "std::ops::FromResidual::from_residual":
                continue    # error propagation (`?`), not a state value
            if d[0] == "agg" and d[2] == "Err":
                continue
            subs = list(subterms(d))
            if any(x[0] == "call" and x[1].endswith("EngineManager::get_state") for x in subs):
                adopt.add(bi)
            elif any(x[0] == "call" and x[1] == "std::default::Default::default" for x in subs):
                dflt.add(bi + 0 if d[0] == "call" else bi)
    # a call's destination is defined on the edge to its target block
    names, tab = W.table({"adopt_persisted": adopt, "default": dflt})
    ok = bool(adopt) and bool(dflt) and "adopt_persisted" in tab.get(("=",), set()) and "adopt_persisted" not in tab.get(("!=",), {"adopt_persisted"}) and "default" in tab.get(("!=",), set())
    ctx.ob(R, "epoch gate", ok, "the persisted ChonkyV2State is adopted only when backup.epoch == config.epoch, otherwise Default (2 valuations; %d adopting / %d default assignments)" % (len(adopt), len(dflt)) if ok else
           "adoption of the persisted state vs. epoch equality: %s (adopting blocks %s, default blocks %s)" % ({k: sorted(v) for k, v in tab.items()}, sorted(adopt), sorted(dflt)), body.loc())


def sm_field_assign_blocks(f, field, pred=None, T=None):
    """Blocks with a statement assigning self.<field> (StateMachine) (optionally with rvalue predicate)."""
    out = []
    for bi, b in enumerate(f.blocks):
        for s in b["s"]:
            if s["k"] != "assign":
                continue
            pr = s["p"].get("pr", [])
            fl = [e for e in pr if isinstance(e, dict) and "f" in e]
            if len(fl) == 1 and fl[0]["n"] == field and fl[0]["o"] == SM:
                if pred is None or pred(T.rvalue(s["r"])):
                    out.append(bi)
    return out


SELECTING = ("filter", "filter_map", "take", "take_while", "skip", "skip_while", "step_by", "find", "find_map", "nth", "last", "first", "next", "min", "max", "min_by", "max_by", "min_by_key", "max_by_key", "dedup", "dedup_by_key", "truncate", "pop")


def rule_proposals_roundtrip(ctx):
    R = "C03.10"
    ctx.rule(R, "the cached payloads survive a restart: the backup's `proposals` are built from every entry of block_proposal_cache (no selecting / truncating step), and StateMachine::start restores the cache from them by merging per block number (entry(number).or_default().insert(hash, payload)) - an overwriting construction (insert / collect of (number, map) pairs) keeps one payload per number and can drop the one the replica voted for")
    # backup side
    bf = None
    aggr = None
    for f in bft_bodies(ctx):
        for b in f.blocks:
            for st in b["s"]:
                if st["k"] == "assign" and st["r"]["k"] == "agg" and st["r"].get("def") == STATE_ADT:
                    bf, aggr = f, st["r"]
    if bf is None or "proposals" not in aggr.get("fields", []):
        ctx.ob(R, "backup proposals", False, "ChonkyV2State literal with a `proposals` field not found (anchor missing)")
    else:
        T = ctx.T(bf)
        LF = Q.LocalFlow(bf)
        pl = Q.LocalFlow._local_op(aggr["ops"][aggr["fields"].index("proposals")])
        src = LF.closure(pl) if pl is not None else set()

        def from_cache(t):
            return "decl" in t["f"] and bool(t["args"]) and any(x[0] == "field" and x[2] == "block_proposal_cache" for x in subterms(T.operand(t["args"][0])))
        ok_src = pl is not None and LF.derives_from_call_where(pl, from_cache)
        sel = []
        for b in bf.blocks:
            t = b["t"]
            if t["k"] == "call" and "decl" in t["f"] and not t["dest"].get("pr") and t["dest"]["l"] in src:
                q = bf.callee(t)[0].qname
                if q.rsplit("::", 1)[-1] in SELECTING and q.startswith(("std::iter::", "std::vec::", "[T]::", "std::collections::")) and not q.endswith("Iterator::next"):
                    sel.append(q)
        ok = ok_src and not sel
        ctx.ob(R, "backup proposals", ok, "proposals derive from an unfiltered traversal of self.block_proposal_cache" if ok else
               ("the backed-up proposals are not built from self.block_proposal_cache" if not ok_src else "the backed-up proposals pass a selecting step (%s): some cached payloads are not persisted" % sorted(set(sel))[:3]), bf.loc())
    # restore side
    st = ctx.fn(SM + "::start")
    body = ctx.F.body_of(st)
    T = ctx.T(body)
    sma = None
    for b in body.blocks:
        for s2 in b["s"]:
            if s2["k"] == "assign" and s2["r"]["k"] == "agg" and s2["r"].get("def") == SM:
                sma = s2["r"]
    if sma is None or "block_proposal_cache" not in sma.get("fields", []):
        ctx.ob(R, "restore proposals", False, "StateMachine literal with block_proposal_cache not found in StateMachine::start (anchor missing)", body.loc())
        return
    LF = Q.LocalFlow(body)
    cl = Q.LocalFlow._local_op(sma["ops"][sma["fields"].index("block_proposal_cache")])
    src = LF.closure(cl) if cl is not None else set()
    from_backup = any(any(x[0] == "field" and x[2] == "proposals" for x in subterms(T.local(l))) for l in src) or \
        any(any(isinstance(e, dict) and e.get("n") == "proposals" for e in (st2["r"].get("p") or {}).get("pr", []) + ((st2["r"].get("o") or {}).get("m") or (st2["r"].get("o") or {}).get("c") or {}).get("pr", []))
            for b in body.blocks for st2 in b["s"] if st2["k"] == "assign" and st2["p"]["l"] in src)
    merge, overwrite = [], []
    fam = [body] + common.family(ctx, body, ("closure",))
    for g in fam:
        for c in ctx.T(g).calls():
            q = c["q"]
            tys = [g.ty(i).s for i in c["t"]["f"].get("ga", [])]
            if q.endswith("BTreeMap::entry") and any("BlockNumber" in t for t in tys):
                merge.append(q)
            if q.endswith("BTreeMap::insert") and any("BlockNumber" in t for t in tys) and any("HashMap" in t for t in tys):
                overwrite.append("BTreeMap::insert")
            if q in ("std::iter::Iterator::collect", "std::iter::FromIterator::from_iter") and any(t.startswith("std::collections::BTreeMap<") and "BlockNumber" in t and "HashMap" in t for t in tys + [g.locals[c["t"]["dest"]["l"]].s]):
                overwrite.append("collect::<BTreeMap<_, HashMap<..>>>")
    if overwrite:
        ctx.ob(R, "restore proposals", False, "StateMachine::start rebuilds block_proposal_cache with %s: proposals of the same block number overwrite each other, so after a restart the replica can lack the payload it voted for (it cannot build the block when the certificate forms)" % sorted(set(overwrite)), body.loc())
    elif merge and from_backup:
        ctx.ob(R, "restore proposals", True, "every backed-up proposal is merged into the cache by entry(number)", body.loc())
    elif not from_backup:
        ctx.ob(R, "restore proposals", False, "block_proposal_cache is not restored from the backup's proposals: a restarted replica forgets the payloads it voted for", body.loc())
    else:
        ctx.note("C03.10 restore of block_proposal_cache: neither the merging nor an overwriting form recognised - not decided")
        ctx.ob(R, "restore proposals", True, "undecided shape (not reported)", body.loc())


def rule_recorded_vote(ctx):
    R = "C03.6"
    ctx.rule(R, "in the proposal handler, phase := Commit, view_number := message.view().number and high_vote := Some(v) dominate the backup, v being the term that is signed; no later write to them before the backup")
    f = ctx.body(SM + "::on_proposal")
    T = ctx.T(f)
    cfg = ctx.cfg(f)
    P = persist_like(ctx)
    pcalls = [c for c in T.calls() if (c["rq"] or c["q"]) in P]
    ctx.floor(R, "backup call sites in on_proposal", len(pcalls), 1)
    signs = [(c, T.args_of(c)) for c in T.calls() if c["q"].endswith("::SecretKey::sign_msg")]
    vote_term = None
    for c, args in signs:
        for t in subterms(args[1]):
            if t[0] == "agg" and t[1] == CHONKY_MSG and t[2] == "ReplicaCommit":
                vote_term = t[3][0][1]
    ctx.ob(R, "signed vote term", vote_term is not None, "signed ReplicaCommit term: %s" % (show(vote_term)[:200] if vote_term else None), f.loc())
    checks = [
        ("phase", lambda t: t[0] == "agg" and t[1].endswith("::Phase") and t[2] == "Commit", "Phase::Commit"),
        ("view_number", lambda t: "view" in show(t) and any(x[0] == "call" and x[1].endswith("LeaderProposal::view") for x in subterms(t)) and field_path(t)[1][-1:] == ["number"], "message.view().number"),
        ("high_vote", lambda t: t[0] == "agg" and t[2] == "Some" and vote_term is not None and t[3][0][1] == vote_term, "Some(<the signed vote>)"),
    ]
    mw = Q.MayWrite(ctx, SM)
    for pc in pcalls:
        for field, pred, desc in checks:
            good = sm_field_assign_blocks(f, field, pred, T)
            anyw = sm_field_assign_blocks(f, field)
            ok = bool(good) and cfg.must_pass_blocks(pc["bb"], set(good))
            why = "self.%s := %s dominates the backup" % (field, desc)
            if ok:
                # no other write to the field between the good write and the backup
                region = Q.region_between(cfg, good, pc["bb"])
                others = [b for b in anyw if b in region and b not in good]
                for bb in region:
                    t = f.blocks[bb]["t"]
                    if t["k"] == "call" and bb != pc["bb"] and field in mw.of_call(f, t):
                        others.append(bb)
                if others:
                    ok = False
                    why = "self.%s is written again (bb%s) between the recording write and the backup" % (field, others[:3])
            else:
                why = "on some path to the backup self.%s has not been set to %s (writes found in blocks %s, matching %s)" % (field, desc, anyw, good)
            ctx.ob(R, "on_proposal %s" % field, ok, why, f.loc(f.blocks[pc["bb"]]["t"].get("ln")))


def rule_timeout(ctx):
    R = "C03.7"
    ctx.rule(R, "in the timeout starter phase := Timeout dominates the backup and both sends; the ReplicaTimeout carries view.number = self.view_number, high_vote = self.high_vote, high_qc = self.high_commit_qc")
    f = ctx.body(SM + "::start_timeout")
    T = ctx.T(f)
    cfg = ctx.cfg(f)
    P = persist_like(ctx)
    good = sm_field_assign_blocks(f, "phase", lambda t: t[0] == "agg" and t[1].endswith("::Phase") and t[2] == "Timeout", T)
    pcalls = [c for c in T.calls() if (c["rq"] or c["q"]) in P]
    ctx.floor(R, "backup call sites in start_timeout", len(pcalls), 1)
    for pc in pcalls:
        ok = bool(good) and cfg.must_pass_blocks(pc["bb"], set(good))
        ctx.ob(R, "phase:=Timeout before backup", ok, "self.phase := Phase::Timeout dominates the backup" if ok else "the backup can run without phase having been set to Timeout", f.loc())
    sends = [(c, T.args_of(c)) for c in T.calls() if c["q"].endswith("::send") and c["t"]["f"].get("ga") and f.ty(c["t"]["f"]["ga"][0]).s == INPUT_MSG]
    ctx.floor(R, "sends in start_timeout", len(sends), 2)
    for c, args in sends:
        ok = bool(good) and cfg.must_pass_blocks(c["bb"], set(good))
        ctx.ob(R, "phase:=Timeout before send %s" % msg_variant(args[1]), ok, "phase := Timeout dominates the send" if ok else "send reachable without phase := Timeout", f.loc(c["t"].get("ln")))
        for t in subterms(args[1]):
            if t[0] == "agg" and t[1].endswith("::ReplicaTimeout") and t[2] == "ReplicaTimeout":
                d = dict(t[3])
                exp = {"high_vote": ["high_vote"], "high_qc": ["high_commit_qc"]}
                for k, p in exp.items():
                    base, path = field_path(d.get(k, ("cunit",)))
                    ok = path == p and base[0] in ("var", "upvar", "param")
                    ctx.ob(R, "ReplicaTimeout.%s" % k, ok, "ReplicaTimeout.%s = self.%s" % (k, p[0]) if ok else "ReplicaTimeout.%s = %s (expected self.%s)" % (k, show(d.get(k, ("cunit",))), p[0]), f.loc(c["t"].get("ln")))
                v = d.get("view")
                okv = False
                if v and v[0] == "agg":
                    vd = dict(v[3])
                    base, path = field_path(vd.get("number", ("cunit",)))
                    okv = path == ["view_number"]
                ctx.ob(R, "ReplicaTimeout.view.number", okv, "ReplicaTimeout.view.number = self.view_number" if okv else "ReplicaTimeout.view.number is not self.view_number", f.loc(c["t"].get("ln")))


def rule_who_writes(ctx):
    R = "C03.9"
    ctx.rule(R, "who writes phase / view_number / high_vote: exactly the proposal handler, the view starter, the timeout starter (and the constructor)")
    allowed = {"phase": {"on_proposal", "start_new_view", "start_timeout"}, "view_number": {"on_proposal", "start_new_view"},
               "high_vote": {"on_proposal"}}
    found = {k: set() for k in allowed}
    for f in bft_bodies(ctx):
        for bb in range(len(f.blocks)):
            for names, kind, node in Q.stmt_field_writes(f, bb, SM):
                for n in names & set(allowed):
                    found[n].add(root_fn(f).qname.split("::")[-1])
    for k, s in found.items():
        extra = s - allowed[k]
        ctx.ob(R, "writers of %s" % k, not extra and bool(s), "StateMachine.%s is written by %s" % (k, sorted(s)) if not extra else
               "StateMachine.%s is also written by %s (allowed: %s)" % (k, sorted(extra), sorted(allowed[k])))


VOTE_STATE = ("view_number", "phase", "high_vote")


_success_returns = Q.success_return_blocks


def rule_never_dirty(ctx):
    R = "C03.11"
    ctx.rule(R, "vote-relevant state is never left dirty: after every write to view_number / phase / high_vote (outside the constructor) a successful return is reachable only through the success of the awaited backup - otherwise the durable record lags the replica's memory and a restart forgets a vote or a view")
    P = persist_like(ctx)
    n = 0
    for f in bft_bodies(ctx):
        rq = root_fn(f).qname
        if rq.endswith("StateMachine::start"):
            continue
        wr = {}
        for bb in range(len(f.blocks)):
            for names, kind, node in Q.stmt_field_writes(f, bb, SM):
                for x in names & set(VOTE_STATE):
                    wr.setdefault(x, []).append((bb, node.get("ln")))
        if not wr:
            continue
        edges = Q.success_edges(ctx, f, lambda b: Q.is_await_of(b, P))
        cfg = ctx.cfg(f, with_cancel=False)
        rets = set(_success_returns(ctx, f, P))
        for field, sites in sorted(wr.items()):
            for bb, ln in sites:
                n += 1
                r = cfg.reach_from([bb], avoid_edges=frozenset(edges))
                bad = sorted(rets & r)
                if bad and edges:
                    r = cfg.reach_from_sensitive([bb], avoid_edges=frozenset(edges))
                    bad = sorted(rets & r)
                ctx.ob(R, "%s := .. in %s" % (field, rq.split("::")[-1]), not bad and bool(edges),
                       "every successful return after the write passes the backup's success" if not bad and edges else
                       "self.%s is changed and the function can return successfully without a later successful state backup (the persisted state no longer records what the replica did)" % field, f.loc(ln))
    ctx.floor(R, "writes of vote-relevant fields", n, 6)


ENGINE_GET_STATE = "zksync_consensus_engine::manager::EngineManager::get_state"
IFACE_GET_STATE = "zksync_consensus_engine::interface::EngineInterface::get_state"


def rule_restore_passthrough(ctx):
    R = "C03.12"
    ctx.rule(R, "what a restarting replica restores is what was stored: EngineManager::get_state returns Ok only with the value the awaited EngineInterface::get_state returned (no filter, no substitute default) - a stored view / phase / high vote that is discarded on restart lets the validator vote again in a view it already voted in")
    f = ctx.body(ENGINE_GET_STATE)
    T = ctx.T(f)
    edges = Q.success_edges(ctx, f, lambda b: Q.is_await_of(b, {IFACE_GET_STATE}))
    cfg = ctx.cfg(f, with_cancel=False)
    rets = Q.return_blocks_maybe_ok(ctx, f)
    ok = bool(edges) and bool(rets) and all(cfg.must_pass(bb, edges) for bb, _ in rets)
    ctx.ob(R, "get_state after the interface", ok, "every maybe-Ok return of EngineManager::get_state is dominated by success of the awaited EngineInterface::get_state" if ok else
           "EngineManager::get_state can return Ok without the interface's get_state having succeeded", f.loc())
    RL = Q.ret_locals(f)
    bad = []
    n = 0
    for bi, b in enumerate(f.blocks):
        for st in b["s"]:
            if st["k"] == "assign" and not st["p"].get("pr") and st["p"]["l"] in RL and st["r"]["k"] == "agg" and st["r"].get("variant") == "Ok":
                n += 1
                t = T.rvalue(st["r"])
                if not any(Q.is_await_of(x, {IFACE_GET_STATE}) for x in subterms(t)):
                    bad.append((bi, show(t)[:120]))
    ctx.floor(R, "Ok returns of get_state", n, 1)
    ctx.ob(R, "get_state value", not bad, "every Ok(..) of EngineManager::get_state carries the interface's value" if not bad else
           "EngineManager::get_state returns %s - a value that is not the stored state (the durable record of the last vote is dropped on restart)" % bad[0][1], f.loc(f.blocks[bad[0][0]]["t"].get("ln")) if bad else f.loc())


RULES = [("C03.12", rule_restore_passthrough), ("C03.1", rule_persist_before_send), ("C03.2", rule_backup_reaches_engine), ("C03.3", rule_no_write_between),
         ("C03.4", rule_backup_restore_agree), ("C03.10", rule_proposals_roundtrip), ("C03.6", rule_recorded_vote), ("C03.7", rule_timeout), ("C03.9", rule_who_writes), ("C03.11", rule_never_dirty)]
