"""Shared rule helpers."""
import os, re, json
from engine import panics
from engine.terms import show, subterms

REPO = os.environ.get("VP_REPO", "/repo")
_SELECT = re.compile(r"^tokio:macro:(.*::)?select$")


def cargo_profile_panic_abort():
    """panic = "abort" in both dev and release profiles of node/Cargo.toml (read as configuration)."""
    import tomllib
    with open(os.path.join(REPO, "node", "Cargo.toml"), "rb") as fh:
        t = tomllib.load(fh)
    prof = t.get("profile", {})
    return {p: prof.get(p, {}).get("panic") for p in ("dev", "release", "test")}


def is_const(t):
    return t is not None and t[0] == "const"


def auto_discharge(site, fn, T, panic_abort):
    """Machine-discharged classes of may-panic sites. Returns a reason string or None."""
    t = fn.blocks[site.bb]["t"]
    macs = t.get("mac", [])
    if any(_SELECT.match(m) for m in macs):
        # branch bookkeeping of tokio::select! (constant number of branches, mask shifts by branch index,
        # unreachable arms of the generated match). Code the user wrote inside a branch keeps the user's
        # syntax context, so its expansion chain does not contain the select macro and is not affected.
        return "tokio::select! internal bookkeeping"
    if site.kind in ("overflow", "divzero") and t["k"] == "assert":
        m = t["msg"]
        a = site.terms[0] if site.terms else None
        b = site.terms[1] if len(site.terms) > 1 else None
        if m["k"] == "Overflow":
            if m.get("op") == "Sub" and a is not None and b is not None:
                g = _guarded_sub(fn, T, site.bb, a, b)
                if g:
                    return g
                if is_const(b):
                    g = _guarded_sub_const(fn, T, site.bb, a, b[1])
                    if g:
                        return g
            if m.get("op") == "Add" and _is_unit_counter(fn, T, a, b):
                return "increment by 1 of a 64-bit local counter that starts at 0 (2^64 increments are infeasible)"
            if is_const(a) and is_const(b):
                return "constant operands (evaluated by the compiler's arithmetic_overflow lint)"
            if m.get("op") in ("Div", "Rem") and is_const(b) and b[1] != -1:
                return "signed division overflow needs divisor -1; divisor is the constant %s" % b[1]
            if m.get("op") in ("Shl", "Shr") and is_const(b) and 0 <= b[1] < 32:
                return "shift by constant %s < bit width" % b[1]
        if m["k"] in ("DivisionByZero", "RemainderByZero"):
            cond = T.operand(t["cond"])
            if cond[0] == "bin" and cond[1] == "Eq" and is_const(cond[2]) and cond[2][1] != 0 and cond[3] == ("const", 0):
                return "divisor is the non-zero constant %s" % cond[2][1]
            if cond[0] == "bin" and cond[1] == "Eq" and cond[3] == ("const", 0) and not is_const(cond[2]):
                g = _guarded_nonzero(fn, T, site.bb, cond[2])
                if g:
                    return g
    if site.kind == "unwrap" and site.terms:
        g = _guarded_unwrap(fn, T, site.bb, site.terms[0])
        if g:
            return g
        a = site.terms[0]
        if a[0] == "call" and a[1] in ("std::sync::Mutex::lock", "std::sync::RwLock::read", "std::sync::RwLock::write"):
            if panic_abort:
                return "lock poisoning requires a prior panic; panic=abort in every profile"
    if site.kind == "extern" and site.callee == "<time::Instant as std::ops::Sub>::sub" and len(site.terms) >= 2:
        # elapsed time: both operands are readings of the context clock taken in this body (Instant - Instant panics only
        # when the signed difference does not fit 64-bit seconds)
        def reading(x):
            return x[0] == "call" and x[1] in ("zksync_concurrency::ctx::Ctx::now", "zksync_concurrency::ctx::clock::Clock::now", "time::Instant::now")
        if reading(site.terms[0]) and reading(site.terms[1]):
            return "difference of two readings of the context clock taken in this function"
    if site.kind == "index" and t["k"] == "assert" and t["msg"].get("k") == "BoundsCheck" and len(site.terms) > 1 and site.terms[0] is not None:
        # slice[i]: the assert compares i with the slice's length (PtrMetadata of the slice place)
        ln = site.terms[0]
        recv0 = ln[2] if ln[0] == "un" and len(ln) > 2 else None
        if recv0 is not None:
            g = _range_loop_index(fn, T, recv0, site.terms[1]) or _range_closure_index(fn, T, recv0, site.terms[1])
            if g:
                return g
    if site.kind == "index" and t["k"] == "call" and len(site.terms) > 1:
        g = _guarded_index(fn, T, site.bb, site.terms[0], site.terms[1])
        if g:
            return g
    if site.kind == "index" and t["k"] == "call":
        ga = t["f"].get("ga", [])
        if ga and fn.ty(ga[0]).s.startswith("vise::wrappers::Family<"):
            return "vise metrics Family index is get-or-create (never panics)"
        if len(site.terms) > 1:
            b = site.terms[1]
            if b[0] == "agg" and b[1] == "std::ops::RangeFull":
                return "full-range slice [..] never panics"
    return None


def family(ctx, top, kinds=("coroutine", "closure"), include_top=False):
    """Bodies that belong to `top`: its async body, and transitively every closure / async block CREATED in them
    (aggregate statements) - which, after virtual inlining, includes the closures of inlined helpers - plus the
    children by definition site. Used instead of parent links so that extracting a helper never hides a closure."""
    F = ctx.F
    root = top
    while root.parent is not None:
        root = root.parent
    seen = []
    ids = set()

    def add(g):
        if g is not None and id(g) not in ids:
            ids.add(id(g))
            seen.append(g)
            return True
        return False
    st = []
    for g in [top, F.body_of(top) if top.kind in ("fn", "method") else top]:
        if add(g):
            st.append(g)
    for g in F.fns:
        if g.parent is not None:
            r = g
            while r.parent is not None:
                r = r.parent
            if r is root and add(g):
                st.append(g)
    while st:
        b = st.pop()
        for blk in b.blocks:
            for s in blk["s"]:
                if s["k"] == "assign" and s["r"]["k"] == "agg" and s["r"].get("ak") in ("closure", "coroutine", "coroutine_closure"):
                    g = F.by_path.get(s["r"].get("def"))
                    if add(g):
                        st.append(g)
    out = [g for g in seen if g.kind in kinds and g is not top]
    return ([top] + out) if include_top else out


def owner_roots(ctx, g):
    """The top-level functions a body belongs to. For a closure / async block: the functions in whose (inlined) body
    it is created, transitively - so a closure written inside an extracted helper belongs to the helper's callers."""
    F = ctx.F
    idx = F.__dict__.get("_creators")
    if idx is None:
        idx = {}
        for f in F.fns:
            for blk in f.blocks:
                for s in blk["s"]:
                    if s["k"] == "assign" and s["r"]["k"] == "agg" and s["r"].get("ak") in ("closure", "coroutine", "coroutine_closure"):
                        idx.setdefault(s["r"].get("def"), set()).add(f)
        F._creators = idx
    out = set()
    seen = set()
    st = [g]
    while st:
        x = st.pop()
        if id(x) in seen:
            continue
        seen.add(id(x))
        if x.kind in ("fn", "method"):
            out.add(x)
            continue
        cs = idx.get(x.path, ())
        if not cs:
            r = x
            while r.parent is not None:
                r = r.parent
            out.add(r)
        for c in cs:
            st.append(c)
    return out


def value_terms(f, T, t, depth=3):
    """The term t plus, for every multiply-assigned local it mentions, the terms of that local's non-error
    definitions (Ok(..)/Some(..)/plain values; not `?` propagation or Err(..)) - transitively. Lets a rule look through
    the return place of an inlined helper."""
    out = [t]
    seen = set()
    frontier = [t]
    for _ in range(depth):
        nxt = []
        for u in frontier:
            for x in subterms(u):
                if x[0] == "var" and x[1] not in seen:
                    seen.add(x[1])
                    for d in T.defs.get(x[1], ()):
                        if d[0] == "s":
                            dt = T.rvalue(f.blocks[d[1]]["s"][d[2]]["r"])
                        elif d[0] == "c" and f.blocks[d[1]]["t"]["k"] == "call":
                            dt = T.call_term(f.blocks[d[1]]["t"])
                        else:
                            continue
                        if dt[0] == "call" and dt[1] == "std::ops::FromResidual::from_residual":
                            continue
                        if dt[0] == "agg" and dt[2] in ("Err", "None", "Pending"):
                            continue
                        out.append(dt)
                        nxt.append(dt)
        frontier = nxt
    return out


def select_extreme(ctx, g, t, cls):
    """How term t picks between two classified quantities: returns ("max"|"min"|"other", {label: operand term}).
    Accepted shapes: a max()/min() call of two operands with distinct labels; a local assigned one of them on
    different paths, decided by a guard table over their order. cls(term) -> label or None."""
    from engine.guards import Atom, Walker
    T = ctx.T(g)
    if t[0] == "call" and t[1] in ("std::cmp::max", "std::cmp::Ord::max", "std::cmp::min", "std::cmp::Ord::min") and len(t[2]) == 2:
        labs = {cls(x): x for x in t[2]}
        if None in labs or len(labs) != 2:
            return "other", {}
        return ("max" if t[1].endswith("max") else "min"), labs
    if t[0] != "var":
        return "other", {}
    defs = {}
    ops = {}
    for bi, b in enumerate(g.blocks):
        for st in b["s"]:
            if st["k"] == "assign" and not st["p"].get("pr") and st["p"]["l"] == t[1]:
                v = T.rvalue(st["r"])
                lab = cls(v)
                if lab is None:
                    return "other", {}
                defs.setdefault(lab, []).append(bi)
                ops[lab] = v
    if len(defs) != 2:
        return "other", {}
    l1, l2 = sorted(defs)

    def m(a, b):
        if cls(a) == l1 and cls(b) == l2:
            return 1
        if cls(a) == l2 and cls(b) == l1:
            return -1
        return 0
    W = Walker(ctx, g, [Atom("cmp(%s,%s)" % (l1, l2), "cmp", m, ["<", "=", ">"])])
    names, tab = W.table(defs)
    lt, eq, gt = tab.get(("<",)), tab.get(("=",)), tab.get((">",))
    if not eq or not eq <= {l1, l2}:
        return "other", {}
    if lt == {l2} and gt == {l1}:
        return "max", ops
    if lt == {l1} and gt == {l2}:
        return "min", ops
    return "other", {}


def buffer_full_matcher(buf_q):
    """cmp matcher for "the bytes::Buffer is full": capacity() vs 0, or (inlined getter) end vs inner.len(). '=' = full."""
    from engine.guards import chain

    def cap(t):
        return any(x[0] == "call" and x[1] == buf_q + "::capacity" for x in subterms(t))

    def end(t):
        return chain(t)[1][-1:] == ["end"]

    def ilen(t):
        return t[0] == "call" and t[1].rsplit("::", 1)[-1] == "len" and len(t[2]) == 1 and chain(t[2][0])[1][-1:] == ["inner"]

    def m(a, b):
        if cap(a) and b == ("const", 0):
            return 1
        if cap(b) and a == ("const", 0):
            return -1
        if end(a) and ilen(b):
            return 1
        if end(b) and ilen(a):
            return -1
        return 0
    return m


def atom_is_tested(ctx, g, matcher):
    """some switch of g compares the two sides the cmp matcher recognises (else a table over that atom decides nothing)"""
    T = ctx.T(g)
    for bb in range(len(g.blocks)):
        si = T.switch_info(bb)
        if si is None:
            continue
        sc = si[0]
        while sc[0] == "un" and sc[1] == "Not":
            sc = sc[2]
        p = _cmp_parts(sc)
        if p is not None and matcher(p[1], p[2]):
            return True
    return False


def ret_truths(ctx, W, g, val):
    """Truth values (True / False / None = undecided) a bool-returning body may return under the valuation."""
    from engine import query as Q
    T = ctx.T(g)
    RL = Q.ret_locals(g)
    out = set()
    for bi in W.reachable(val):
        b = g.blocks[bi]
        for s in b["s"]:
            if s["k"] == "assign" and not s["p"].get("pr") and s["p"]["l"] in RL:
                r = s["r"]
                if r["k"] == "use":
                    pl = r["o"].get("m") or r["o"].get("c")
                    if pl is not None and not pl.get("pr") and pl["l"] in RL:
                        continue
                out.add(W.truth(T.rvalue(r), val, set()))
        t = b["t"]
        if t["k"] == "call" and not t["dest"].get("pr") and t["dest"]["l"] in RL and "decl" in t["f"]:
            out.add(W.truth(T.call_term(t), val, set()))
    return out


def pnames(fn, ty_substr=None, index=None):
    """Names of the parameters of the user-level function of body `fn` whose type contains `ty_substr` (or at
    position `index`). Rules identify a parameter by its type/position - never by its (renameable) name."""
    while fn.parent is not None:
        fn = fn.parent
    vn = fn.var_names()
    out = set()
    for i in range(1, fn.argc + 1):
        if (ty_substr is None or ty_substr in fn.locals[i].s) and (index is None or index == i):
            if i in vn:
                out.add(vn[i])
    return out


def is_p(t, names):
    """t is a parameter (or a capture of it in the async body / a closure) with one of `names`"""
    return t[0] in ("upvar", "param") and t[-1] in names


def _plain_cfg(fn):
    from engine.mir import CFG
    cfg = fn._cache.get("cfg_plain")
    if cfg is None:
        cfg = CFG(fn, True)
        fn._cache["cfg_plain"] = cfg
    return cfg


FACTS = None     # set by inventory(): lets the purity test look at workspace callees


def _pure_workspace_fn(qname, depth=0):
    """a getter: a workspace function taking only shared references / values, with no write through a reference and
    calling only pure functions"""
    if FACTS is None or depth > 2:
        return False
    l = FACTS.by_qname.get(qname, [])
    if len(l) != 1:
        return False
    g = l[0]
    memo = g._cache.get("pure")
    if memo is not None:
        return memo
    g._cache["pure"] = False
    ok = g.kind in ("fn", "method") and not g.is_async and not any("&mut " in g.locals[i].s for i in range(1, g.argc + 1))
    if ok:
        from engine.terms import Terms
        Tg = Terms(g)
        for b in g.blocks:
            for st in b["s"]:
                if st["k"] == "assign" and st["p"].get("pr") and any(e == "*" for e in st["p"]["pr"]):
                    ok = False
        for c in Tg.calls() if ok else []:
            q = c["rq"] or c["q"]
            if q not in _PURE_CALLS and not _pure_workspace_fn(q, depth + 1):
                ok = False
                break
    g._cache["pure"] = ok
    return ok


_PURE_CALLS = ("std::collections::VecDeque::front", "std::collections::VecDeque::back", "[T]::first", "[T]::last", "std::ops::Try::branch", "std::option::Option::as_ref", "std::option::Option::as_mut", "std::clone::Clone::clone", "std::ops::Deref::deref", "std::option::Option::as_deref",
               "std::vec::Vec::len", "[T]::len", "std::collections::VecDeque::len", "std::collections::BTreeMap::len", "std::collections::HashMap::len")


def _stable(T, *terms):
    """The value at the guard is the value at the use: no operand is a local assigned on several paths, the operands
    are places / pure projections (no lookup whose result could differ the second time), and no field they read is
    assigned anywhere in the function."""
    fn = T.fn
    written = fn._cache.get("written_fields")
    if written is None:
        written = set()
        for b in fn.blocks:
            for st in b["s"]:
                if st["k"] == "assign":
                    for e in st["p"].get("pr", []):
                        if isinstance(e, dict) and "n" in e:
                            written.add(e["n"])
                    r = st["r"]
                    if r["k"] in ("ref", "rawptr") and (r.get("bk") == "mut" or r.get("mut")):
                        for e in r["p"].get("pr", []):
                            if isinstance(e, dict) and "n" in e:
                                written.add(e["n"])
        fn._cache["written_fields"] = written
        # objects handed out whole as `&mut` (e.g. `&mut *self` passed to a method): a callee may change any field of them
        whole = []
        for b in fn.blocks:
            for st in b["s"]:
                if st["k"] == "assign" and st["r"]["k"] in ("ref", "rawptr") and (st["r"].get("bk") == "mut" or st["r"].get("mut")):
                    pr = st["r"]["p"].get("pr", [])
                    if not any(isinstance(e, dict) and "n" in e for e in pr) or (pr and pr[-1] == "*"):
                        if "&mut" in fn.locals[st["r"]["p"]["l"]].s or pr:
                            try:
                                whole.append(T.place(st["r"]["p"]))
                            except Exception:
                                pass
        fn._cache["whole_mut"] = whole
    whole = fn._cache.get("whole_mut", [])
    for t in terms:
        if t is None:
            continue
        for x in subterms(t):
            if x[0] == "var" and len(T.defs.get(x[1], ())) >= 2:
                return False
            if x[0] in ("icall", "await"):
                return False
            if x[0] == "call" and x[1] not in _PURE_CALLS and not _pure_workspace_fn(x[1]):
                return False
            if x[0] == "field" and x[2] in written:
                return False
            if x[0] == "field" and x[1] in whole:
                return False
    return True


def _dominating_truth(fn, T, bb, pred):
    """pred(scrutinee term) -> True/False/None: the truth value of the scrutinee that establishes the guard.
    Returns True when block bb is dominated by the edge of some switch taken exactly under that truth value."""
    cfg = _plain_cfg(fn)
    for sb in range(len(fn.blocks)):
        si = T.switch_info(sb)
        if si is None:
            continue
        scrut, edges = si
        neg = False
        while scrut[0] == "un" and scrut[1] == "Not":
            neg = not neg
            scrut = scrut[2]
        want = pred(scrut)
        if want is None:
            continue
        if neg:
            want = not want
        for tgt, labs in edges.items():
            if labs == [want] and len(cfg.pred[tgt]) == 1 and cfg.dominates(tgt, bb):
                return True
    return False


def _cmp_parts(scrut):
    CM = {"std::cmp::PartialOrd::lt": "Lt", "std::cmp::PartialOrd::le": "Le", "std::cmp::PartialOrd::gt": "Gt", "std::cmp::PartialOrd::ge": "Ge",
          "std::cmp::PartialEq::eq": "Eq", "std::cmp::PartialEq::ne": "Ne"}
    if scrut[0] == "bin" and scrut[1] in ("Lt", "Le", "Gt", "Ge", "Eq", "Ne"):
        return scrut[1], scrut[2], scrut[3]
    if scrut[0] == "call" and scrut[1] in CM and len(scrut[2]) == 2:
        return CM[scrut[1]], scrut[2][0], scrut[2][1]
    return None


def _range_loop_index(fn, T, recv, idx):
    """v[i] where i is the item of `for i in 0..N` (or `a..N`) and N is v.len() or a min(..) that includes v.len()"""
    if recv is None or idx is None or not _stable(T, recv):
        return None
    if not (idx[0] == "field" and idx[2] == "0" and idx[1][0] == "downcast" and idx[1][2] == "Some"):
        return None
    c = idx[1][1]
    if c[0] != "call" or c[1] != "std::iter::Iterator::next" or not c[2]:
        return None
    it = c[2][0]
    while it[0] == "call" and it[1] == "std::iter::IntoIterator::into_iter" and it[2]:
        it = it[2][0]
    if it[0] != "agg" or it[1] != "std::ops::Range":
        return None
    end = dict(it[3]).get("end")

    def bounded(e, depth=0):
        if e is None or depth > 4:
            return False
        if e[0] == "call" and e[1].rsplit("::", 1)[-1] == "len" and len(e[2]) == 1 and e[2][0] == recv:
            return True
        if e[0] == "call" and e[1] in ("std::cmp::min", "std::cmp::Ord::min") and len(e[2]) == 2:
            return any(bounded(x, depth + 1) for x in e[2])
        return False
    return "index is the item of a `for i in a..N` loop with N bounded by the length of the indexed sequence" if bounded(end) else None


RANGE_ADAPTERS = ("filter", "map", "filter_map", "for_each", "all", "any", "find", "find_map", "position", "take_while", "skip_while", "map_while", "flat_map", "inspect", "try_for_each")


def _range_closure_index(fn, T, recv, idx):
    """v[i] inside a closure whose argument i is the item of `(a..v.len()).<adapter>(|i| ..)`: the closure is created
    in its parent as the argument of an iterator adapter applied directly to a Range whose end is the length of the
    very sequence the closure captured as `v`."""
    if fn.kind != "closure" or fn.parent is None or recv is None or idx is None:
        return None
    i = idx
    while i[0] in ("deref", "ref"):
        i = i[1]
    if not (i[0] == "param" and i[1] == 2):
        return None
    r = recv
    while r[0] in ("deref", "ref"):
        r = r[1]
    if r[0] != "upvar":
        return None
    names = [c["name"] for c in fn.captures]
    if r[1] not in names:
        return None
    from engine.terms import Terms
    P = fn.parent
    TP = P._cache.get("_terms_for_discharge")
    if TP is None:
        TP = Terms(P)
        P._cache["_terms_for_discharge"] = TP
    for c in TP.calls():
        if not c["q"].startswith("std::iter::Iterator::") or c["q"].rsplit("::", 1)[1] not in RANGE_ADAPTERS:
            continue
        a = TP.args_of(c)
        if len(a) < 2 or a[1][0] != "closure" or a[1][1] != fn.qname:
            continue
        it = a[0]
        while it[0] == "call" and it[1] == "std::iter::IntoIterator::into_iter" and it[2]:
            it = it[2][0]
        if it[0] != "agg" or it[1] != "std::ops::Range":
            return None
        end = dict(it[3]).get("end")
        caps = a[1][2]
        if len(caps) != len(names):
            return None
        bound = caps[names.index(r[1])]
        while bound[0] in ("deref", "ref"):
            bound = bound[1]
        e = end
        if e is not None and e[0] == "call" and e[1].rsplit("::", 1)[-1] == "len" and len(e[2]) == 1:
            x = e[2][0]
            while x[0] in ("deref", "ref"):
                x = x[1]
            if x == bound:
                return "index is the item of `(a..v.len()).%s(|i| ..)` over the captured sequence v" % c["q"].rsplit("::", 1)[1]
        return None
    return None


def _split_within_len(fn, T, bb, recv, mid):
    """v.split_at(m) / split_at_mut(m) with m = min(.., v.len(), ..): m <= len"""
    t = fn.blocks[bb]["t"]
    if t["k"] != "call" or "decl" not in t["f"] or fn.callee(t)[0].qname not in ("[T]::split_at", "[T]::split_at_mut"):
        return None
    if recv is None or mid is None or not _stable(T, recv):
        return None

    def bounded(e, depth=0):
        if depth > 4:
            return False
        if e[0] == "call" and e[1].rsplit("::", 1)[-1] == "len" and len(e[2]) == 1 and e[2][0] == recv:
            return True
        if e[0] == "call" and e[1] in ("std::cmp::min", "std::cmp::Ord::min") and len(e[2]) == 2:
            return any(bounded(x, depth + 1) for x in e[2])
        return False
    return "split point is min(.., len of the slice, ..): never beyond the end" if bounded(mid) else None


def _loop_guarded_index(fn, T, bb, recv, idx):
    """`while i < v.len() { .. v[i] .. }` with a counter i that changes elsewhere in the loop: between the true edge of
    the bounds test and the access nothing is assigned, mutably borrowed or called (except pure reads)."""
    if recv is None or idx is None or idx[0] != "var":
        return None
    if any(x[0] == "var" and x != idx and len(T.defs.get(x[1], ())) >= 2 for x in subterms(recv)):
        return None
    if any(x[0] in ("icall", "await") or (x[0] == "call" and x[1] not in _PURE_CALLS and not _pure_workspace_fn(x[1])) for x in subterms(recv)):
        return None
    cfg = _plain_cfg(fn)

    def is_len(t):
        return t[0] == "call" and t[1].rsplit("::", 1)[-1] == "len" and len(t[2]) == 1 and t[2][0] == recv
    for sb in range(len(fn.blocks)):
        si = T.switch_info(sb)
        if si is None:
            continue
        scrut, edges = si
        neg = False
        while scrut[0] == "un" and scrut[1] == "Not":
            neg = not neg
            scrut = scrut[2]
        p = _cmp_parts(scrut)
        if p is None:
            continue
        op, x, y = p
        want = None
        if x == idx and is_len(y):
            want = {"Lt": True, "Ge": False}.get(op)
        elif is_len(x) and y == idx:
            want = {"Gt": True, "Le": False}.get(op)
        if want is None:
            continue
        if neg:
            want = not want
        for tgt, labs in edges.items():
            if labs != [want] or len(cfg.pred[tgt]) != 1 or not cfg.dominates(tgt, bb):
                continue
            # blocks on a path tgt -> bb that does not re-enter the test
            fwd = set()
            st = [tgt]
            while st:
                b = st.pop()
                if b in fwd or b == sb:
                    continue
                fwd.add(b)
                if b != bb:
                    st += [z for _, z in cfg.succ[b]]
            back = {bb}
            st = [bb]
            while st:
                b = st.pop()
                for _, z in cfg.pred[b]:
                    if z in fwd and z not in back:
                        back.add(z)
                        st.append(z)
            region = fwd & back
            clean = True
            for b in region:
                blk = fn.blocks[b]
                for stt in blk["s"]:
                    if stt["k"] != "assign":
                        continue
                    if stt["p"]["l"] == idx[1]:
                        clean = False
                    r = stt["r"]
                    if r["k"] in ("ref", "rawptr") and (r.get("bk") == "mut" or r.get("mut")):
                        clean = False
                    if stt["p"].get("pr") and any(e == "*" or (isinstance(e, dict) and "n" in e) for e in stt["p"]["pr"]):
                        clean = False        # a store through a reference / into a field
                if b != bb and blk["t"]["k"] == "call":
                    ct = T.call_term(blk["t"])
                    if ct[0] != "call" or (ct[1] not in _PURE_CALLS and not _pure_workspace_fn(ct[1])):
                        clean = False
            if clean:
                return "index guarded by the loop's bounds test (i < len) with nothing assigned, borrowed mutably or called between test and access"
    return None


def _guarded_index(fn, T, bb, recv, idx):
    """v[i] dominated by i < v.len() (or v.len() > i)"""
    g = _range_loop_index(fn, T, recv, idx) or _range_closure_index(fn, T, recv, idx) or _split_within_len(fn, T, bb, recv, idx) or _loop_guarded_index(fn, T, bb, recv, idx)
    if g:
        return g
    if recv is None or idx is None or not _stable(T, recv, idx):
        return None

    def is_len(t):
        return t[0] == "call" and t[1].rsplit("::", 1)[-1] == "len" and len(t[2]) == 1 and t[2][0] == recv

    def pred(s):
        p = _cmp_parts(s)
        if p is None:
            return None
        op, x, y = p
        if x == idx and is_len(y):
            return {"Lt": True, "Ge": False}.get(op)
        if is_len(x) and y == idx:
            return {"Gt": True, "Le": False}.get(op)
        return None
    return "index guarded by a dominating bounds comparison (i < len)" if _dominating_truth(fn, T, bb, pred) else None


def _guarded_unwrap(fn, T, bb, opt):
    """x.unwrap() dominated by x.is_some() / !x.is_none() (Option) or x.is_ok() (Result) on the same, unchanged x"""
    if opt is None or not _stable(T, opt):
        return None

    def pred(s):
        if s[0] == "call" and len(s[2]) == 1 and s[2][0] == opt:
            if s[1] in ("std::option::Option::is_some", "std::result::Result::is_ok"):
                return True
            if s[1] in ("std::option::Option::is_none", "std::result::Result::is_err"):
                return False
        return None
    return "unwrap guarded by a dominating is_some()/is_ok() test of the same value" if _dominating_truth(fn, T, bb, pred) else None


def _guarded_sub_const(fn, T, bb, a, k):
    """a - k (k a small positive constant) dominated by a > k-1 / a >= k / a != 0 (k == 1) / !x.is_empty() for a = x.len()"""
    if a is None or not _stable(T, a) or not isinstance(k, int) or k < 1:
        return None

    def pred(s):
        p = _cmp_parts(s)
        if p is not None:
            op, x, y = p
            if x == a and y[0] == "const" and isinstance(y[1], int):
                c = y[1]
                if op == "Gt" and c >= k - 1:
                    return True
                if op == "Ge" and c >= k:
                    return True
                if op == "Lt" and c >= k:
                    return False
                if op == "Le" and c >= k - 1:
                    return False
                if k == 1 and c == 0:
                    return {"Ne": True, "Eq": False}.get(op)
            if y == a and x[0] == "const" and isinstance(x[1], int):
                c = x[1]
                if op == "Lt" and c >= k - 1:
                    return True
                if op == "Le" and c >= k:
                    return True
        if k == 1 and s[0] == "call" and s[1].rsplit("::", 1)[-1] == "is_empty" and len(s[2]) == 1 and a[0] == "call" and a[1].rsplit("::", 1)[-1] == "len" and a[2] and a[2][0] == s[2][0]:
            return False
        return None
    return "subtraction of a constant guarded by a dominating lower-bound test" if _dominating_truth(fn, T, bb, pred) else None


def _guarded_sub(fn, T, bb, a, b):
    """`a - b` is dominated by the branch on which a >= b was established (same operand terms, or the newtype wrappers
    whose `.0` fields are subtracted), and neither operand can change in between."""
    from engine.mir import CFG
    if not _stable(T, a, b):
        return None

    def forms(t):
        out = [t]
        if t[0] == "field" and t[2] == "0":
            out.append(t[1])
        return out
    pairs = [(x, y) for x in forms(a) for y in forms(b)]
    cfg = fn._cache.get("cfg_plain")
    if cfg is None:
        cfg = CFG(fn, True)
        fn._cache["cfg_plain"] = cfg
    CM = {"std::cmp::PartialOrd::lt": "Lt", "std::cmp::PartialOrd::le": "Le", "std::cmp::PartialOrd::gt": "Gt", "std::cmp::PartialOrd::ge": "Ge"}
    for sb in range(len(fn.blocks)):
        si = T.switch_info(sb)
        if si is None:
            continue
        scrut, edges = si
        neg = False
        while scrut[0] == "un" and scrut[1] == "Not":
            neg = not neg
            scrut = scrut[2]
        if scrut[0] == "bin" and scrut[1] in ("Lt", "Le", "Gt", "Ge"):
            op, x, y = scrut[1], scrut[2], scrut[3]
        elif scrut[0] == "call" and scrut[1] in CM and len(scrut[2]) == 2:
            op, x, y = CM[scrut[1]], scrut[2][0], scrut[2][1]
        else:
            continue
        want = None   # truth value of the (un-negated) comparison that implies a >= b
        if (x, y) in pairs:
            want = {"Ge": True, "Lt": False}.get(op)          # a >= b true / a < b false
            if op == "Gt":
                want = True                                  # a > b implies a >= b
        elif (y, x) in pairs:
            want = {"Le": True, "Gt": False}.get(op)          # b <= a true / b > a false
            if op == "Lt":
                want = True                                  # b < a implies a >= b
        if want is None:
            continue
        if neg:
            want = not want
        for tgt, labs in edges.items():
            if labs == [want] and len(cfg.pred[tgt]) == 1 and cfg.dominates(tgt, bb):
                return "subtraction guarded by a dominating comparison establishing minuend >= subtrahend"
    return None


def _is_unit_counter(fn, T, a, b):
    if b != ("const", 1) or a is None or a[0] != "var":
        return False
    l = a[1]
    if fn.locals[l].s not in ("usize", "u64", "i64", "isize", "u128", "i128"):
        return False
    for d in T.defs.get(l, ()):
        if d[0] != "s":
            return False
        r = fn.blocks[d[1]]["s"][d[2]]["r"]
        v = T.rvalue(r)
        if v == ("const", 0):
            continue
        # the increment itself: (l + 1).0 of the checked add
        if any(x[0] == "bin" and x[1].startswith("Add") and x[2][0] == "var" and x[2][1] == l and x[3] == ("const", 1) for x in subterms(v)):
            continue
        return False
    return True


def _guarded_nonzero(fn, T, bb, divisor):
    """The division at block bb is dominated by the true edge of `divisor != 0` (or `divisor > 0`, or the false edge of
    `divisor == 0`) and the divisor is a value that cannot change in between (parameter, field of &self, single-def local)."""
    from engine.mir import CFG
    if any(x[0] == "var" and len(T.defs.get(x[1], ())) >= 2 for x in subterms(divisor)):
        return None
    cfg = fn._cache.get("cfg_plain")
    if cfg is None:
        cfg = CFG(fn, True)
        fn._cache["cfg_plain"] = cfg
    for sb in range(len(fn.blocks)):
        si = T.switch_info(sb)
        if si is None:
            continue
        scrut, edges = si
        want = None
        if scrut[0] == "bin" and scrut[1] in ("Ne", "Gt") and scrut[2] == divisor and scrut[3] == ("const", 0):
            want = True
        elif scrut[0] == "bin" and scrut[1] == "Eq" and scrut[2] == divisor and scrut[3] == ("const", 0):
            want = False
        elif scrut[0] == "call" and scrut[1] in ("std::cmp::PartialEq::ne", "std::cmp::PartialOrd::gt") and len(scrut[2]) == 2 and scrut[2][0] == divisor and scrut[2][1] == ("const", 0):
            want = True
        if want is None:
            # `match divisor { 0 => .., d => x / d }`: the arm that excludes the label 0
            labs_all = [l for ls in edges.values() for l in ls]
            if scrut == divisor and any(l == 0 and not isinstance(l, bool) for l in labs_all):
                for tgt, labs in edges.items():
                    if labs == ["else"] and len(cfg.pred[tgt]) == 1 and cfg.dominates(tgt, bb):
                        return "divisor matched against 0 and the division is on the other arm"
            continue
        for tgt, labs in edges.items():
            if labs == [want] and len(cfg.pred[tgt]) == 1 and cfg.dominates(tgt, bb):
                return "divisor tested non-zero on the dominating branch"
    return None


def load_table(name):
    p = os.path.join(os.path.dirname(os.path.dirname(os.path.abspath(__file__))), "tables", name)
    with open(p) as fh:
        return json.load(fh)


def inventory(ctx, roots, skip, extern_panicking):
    """(closure parent map, [Site]) for a root set."""
    global FACTS
    FACTS = ctx.F
    cl = ctx.cg.closure(roots, skip)
    sites = []
    for f in cl:
        sites += panics.sites_of(f, ctx.T(f), extern_panicking)
    return cl, sites


def _infeasible(ctx, site):
    """An explicit panic (`unreachable!()`, the failing arm of a match) that no assignment of the Options tested in
    this body can reach: e.g. `assert!(a.is_some() || b.is_some()); match (&a, &b) { .., (None, None) => unreachable!() }`.
    The Options are places that cannot change inside the function (_stable); the walk is the guard-table walker, which
    follows every edge it cannot evaluate."""
    from engine.guards import Atom, Walker
    fn = site.fn
    if site.kind != "panic":
        return None
    T = ctx.T(fn)
    cands = []
    for bb in range(len(fn.blocks)):
        si = T.switch_info(bb)
        if si is None:
            continue
        scrut, edges = si
        labs = set(l for ls in edges.values() for l in ls)
        xs = []
        if scrut[0] == "discr" and labs <= {"Some", "None"}:
            xs.append(scrut[1])
        for y in subterms(scrut):
            if y[0] == "call" and y[1] in ("std::option::Option::is_some", "std::option::Option::is_none") and y[2]:
                xs.append(y[2][0])
        for x in xs:
            while x[0] == "call" and x[1] in Walker.SOMENESS_PRESERVING and x[2]:
                x = x[2][0]
            if x not in cands and x[0] == "field" and _stable(T, x):
                cands.append(x)
    # enum-typed places of the workspace tested by variant (`if let A(..) = self { return } let B(..) = self else { unreachable!() }`)
    ecands = []
    for bb in range(len(fn.blocks)):
        si = T.switch_info(bb)
        if si is None or si[0][0] != "discr":
            continue
        x = si[0][1]
        labs = set(l for ls in si[1].values() for l in ls)
        if labs <= {"Some", "None", "Ok", "Err", "Continue", "Break", "Ready", "Pending"} or not all(isinstance(l, str) for l in labs):
            continue
        root = x
        while root[0] in ("field", "downcast"):
            root = root[1]
        if root[0] != "param" or not _stable(T, x):
            continue
        ty = None
        if x[0] == "param":
            ty = fn.locals[x[1]].s.replace("&mut ", "").replace("&", "").split("<")[0].strip()
        ad = ctx.F.adts.get(ty) if ty else None
        if ad is None:
            continue
        vs = [v["name"] for v in ad.get("variants", [])]
        if len(vs) < 2 or not labs <= set(vs):
            continue
        if (x, tuple(vs)) not in ecands:
            ecands.append((x, tuple(vs)))
    if (not cands and not ecands) or len(cands) + len(ecands) > 4:
        return None
    atoms = [Atom("o%d" % i, "opt", (lambda t, x=x: t == x), ["Some", "None"]) for i, x in enumerate(cands)]
    atoms += [Atom("e%d" % i, "enum", (lambda t, x=x: t == x), list(vs)) for i, (x, vs) in enumerate(ecands)]
    W = Walker(ctx, fn, atoms)
    names, tab = W.table({"site": [site.bb]})
    if tab and all("site" not in r for r in tab.values()):
        return "infeasible arm: unreachable under every combination of Some/None of the Options / variants of the enums tested on the way (%s)" % ", ".join(show(x) for x in cands + [x for x, _ in ecands])
    return None


def _norm_arith(t):
    """(XWithOverflow(a,b)).0 -> X(a,b)"""
    if not isinstance(t, tuple):
        return t
    if t and t[0] == "field" and t[2] == "0" and t[1][0] == "bin" and t[1][1].endswith("WithOverflow"):
        return ("bin", t[1][1][:-len("WithOverflow")], _norm_arith(t[1][2]), _norm_arith(t[1][3]))
    return tuple(_norm_arith(x) if isinstance(x, tuple) else x for x in t)


def _expand_pure(ctx, t, depth=0):
    """inline calls of pure workspace getters / arithmetic helpers (single return term) into the term"""
    from engine.guards import Inliner
    t = _norm_arith(t)
    if not isinstance(t, tuple) or depth > 5:
        return t
    if t and t[0] == "call" and isinstance(t[1], str) and _pure_workspace_fn(t[1]):
        body = Inliner(ctx).inline_fn(t[1], [_expand_pure(ctx, a, depth + 1) for a in t[2]])
        if body is not None:
            return _expand_pure(ctx, body, depth + 1)
    return tuple(_expand_pure(ctx, x, depth + 1) if isinstance(x, tuple) else x for x in t)


def _linear_bound(ctx, site):
    """`n - e` / `c * e` on one unsigned quantity n where e <= A*n + B with A <= 1, B <= 0 (rational linear upper bound
    through constant division, constant multiplication, subtraction of constants and addition): e <= n, so the
    subtraction cannot underflow and the product cannot exceed n's type. Sub-expressions are separate sites."""
    from fractions import Fraction
    fn = site.fn
    t = fn.blocks[site.bb]["t"]
    if site.kind != "overflow" or t["k"] != "assert" or t["msg"].get("k") != "Overflow" or t["msg"].get("op") not in ("Sub", "Mul") or len(site.terms) < 2:
        return None
    tys = []
    for o in (t["msg"].get("a"), t["msg"].get("b")):
        d = o.get("c") or o.get("m") or o.get("k")
        tys.append(fn.ty(d["t"]).s if d and "t" in d else None)
    if tys[0] != tys[1] or tys[0] not in ("u8", "u16", "u32", "u64", "u128", "usize"):
        return None
    T = ctx.T(fn)
    a, b = (_expand_pure(ctx, x) for x in site.terms[:2])
    if any(x[0] == "cast" for y in (a, b) for x in subterms(y)):
        return None

    def leaves(e, out):
        if e[0] == "bin" and len(e) == 4:
            leaves(e[2], out)
            leaves(e[3], out)
        elif e[0] != "const":
            out.append(e)
        return out
    ls = set(leaves(a, []) + leaves(b, []))
    if len(ls) != 1:
        return None
    n = ls.pop()
    if n[0] not in ("param", "field") or not _stable(T, n):
        return None

    def ub(e):
        if e == n:
            return (Fraction(1), Fraction(0))
        if e[0] == "const" and isinstance(e[1], int) and e[1] >= 0:
            return (Fraction(0), Fraction(e[1]))
        if e[0] == "bin" and len(e) == 4:
            op, x, y = e[1], e[2], e[3]
            if op == "Div" and y[0] == "const" and isinstance(y[1], int) and y[1] > 0:
                u = ub(x)
                return None if u is None else (u[0] / y[1], u[1] / y[1])
            if op == "Mul":
                for c, z in ((x, y), (y, x)):
                    if c[0] == "const" and isinstance(c[1], int) and c[1] >= 0:
                        u = ub(z)
                        return None if u is None else (u[0] * c[1], u[1] * c[1])
            if op == "Sub":
                u = ub(x)
                if u is None:
                    return None
                lo = y[1] if y[0] == "const" and isinstance(y[1], int) and y[1] >= 0 else 0
                return (u[0], u[1] - lo)
            if op == "Add":
                u, v = ub(x), ub(y)
                return None if u is None or v is None else (u[0] + v[0], u[1] + v[1])
        return None
    op = t["msg"]["op"]
    if op == "Sub" and a == n:
        u = ub(b)
        if u is not None and u[0] <= 1 and u[1] <= 0:
            return "subtrahend <= %s*n%+d/%d <= n for every n >= 0 (linear upper bound): no underflow" % (u[0], u[1].numerator, u[1].denominator)
    if op == "Mul":
        u = ub(("bin", "Mul", a, b))
        if u is not None and u[0] <= 1 and u[1] <= 0:
            return "product <= %s*n%+d/%d <= n for every n >= 0 (linear upper bound): fits the type of n" % (u[0], u[1].numerator, u[1].denominator)
    return None


def _assert_implied_by_branch(ctx, site):
    """assert!(c) / debug_assert!(c) inside the branch that was taken because c holds: the failing arm of the assertion is
    dominated by the true edge of an earlier test of the very same (unchanging) condition."""
    fn = site.fn
    if site.kind != "panic":
        return None
    T = ctx.T(fn)
    cfg = _plain_cfg(fn)
    preds = set(p for _, p in cfg.pred[site.bb])
    if len(preds) != 1:
        return None
    pb = preds.pop()
    si = T.switch_info(pb)
    if si is None:
        return None
    cond, edges = si
    labs = edges.get(site.bb)
    if labs not in ([False], [True]):
        return None
    holds = not labs[0]          # the assertion passes when cond == holds
    neg = False
    c = cond
    while c[0] == "un" and c[1] == "Not":
        neg = not neg
        c = c[2]
    if neg:
        holds = not holds
    if not _stable(T, c):
        return None

    def pred(sx):
        return holds if sx == c else None
    if _dominating_truth(fn, T, pb, pred):
        return "assertion of a condition that the enclosing branch has just established (same unchanging term)"
    return None


def _monotone_atomic_counter(ctx, site):
    """`counter.fetch_add(k, ..) + c` on a 64-bit atomic that the workspace only ever increases by constants (fetch_add /
    load and nothing else on that field): the previous value is at most the number of increments performed, so the
    addition overflows only after 2^64 events."""
    from engine.guards import chain
    fn = site.fn
    t = fn.blocks[site.bb]["t"]
    if site.kind != "overflow" or t["k"] != "assert" or t["msg"].get("op") != "Add" or len(site.terms) < 2:
        return None
    a, b = site.terms[0], site.terms[1]
    if is_const(a):
        a, b = b, a
    if not (is_const(b) and isinstance(b[1], int) and 0 <= b[1] <= 2 ** 32):
        return None
    if not (a[0] == "call" and a[1].startswith("std::sync::atomic::Atomic") and a[1].endswith("::fetch_add") and len(a[2]) >= 2 and is_const(a[2][1])):
        return None
    o = t["msg"].get("a") or {}
    d = o.get("c") or o.get("m") or o.get("k") or {}
    if "t" not in d or fn.ty(d["t"]).s not in ("u64", "usize", "u128"):
        return None
    name = chain(a[2][0])[1][-1:]
    if not name:
        return None
    cache = ctx.F.__dict__.setdefault("_atomic_uses", {})
    uses = cache.get(name[0])
    if uses is None:
        uses = set()
        for g in ctx.F.fns:
            if g.in_testonly():
                continue
            Tg = ctx.T(g)
            for c in Tg.calls():
                if c["q"].startswith("std::sync::atomic::Atomic"):
                    ar = Tg.args_of(c)
                    if ar and chain(ar[0])[1][-1:] == name:
                        m = c["q"].rsplit("::", 1)[1]
                        uses.add(m if m != "fetch_add" or (len(ar) > 1 and is_const(ar[1])) else "fetch_add(non-const)")
        cache[name[0]] = uses
    if uses <= {"fetch_add", "load", "new"}:
        return "previous value of a 64-bit atomic counter that is only ever increased by constants (`%s`: %s)" % (name[0], sorted(uses))
    return None


def dedupe(ctx, sites, panic_abort):
    """One entry per written instruction: [(representative Site, discharge reason or None)]. An instruction of a
    helper that was inlined into several callers is discharged only if every copy is (the operands may be
    constants in one caller and not in another)."""
    from collections import OrderedDict
    groups = OrderedDict()
    for s in sites:
        groups.setdefault((s.ident, s.kind, s.callee), []).append(s)
    out = []
    for ss in groups.values():
        rs = [auto_discharge(s, s.fn, ctx.T(s.fn), panic_abort) or _infeasible(ctx, s) or _linear_bound(ctx, s) or _monotone_atomic_counter(ctx, s) or _assert_implied_by_branch(ctx, s) for s in ss]
        if all(r is not None for r in rs):
            out.append((ss[0], rs[0]))
        else:
            out.append(([s for s, r in zip(ss, rs) if r is None][0], None))
    return out


def match_table(ctx, rule, sites, table, panic_abort, prop_label, closure=None):
    """Compare an inventory with a reviewed table: every site must be auto-discharged or tabled
    (with multiplicity); a site whose function vanished is re-matched as 'moved' when exactly
    one unmatched new site has the same (crate, kind, callee, operand)."""
    from collections import Counter, defaultdict
    tab = {e["key"]: e for e in table["sites"]}
    found = defaultdict(list)
    auto = Counter()
    for s, r in dedupe(ctx, sites, panic_abort):
        if r is not None:
            auto[r] += 1
            continue
        found[s.key].append(s)
    unmatched_new = []
    for key, ss in found.items():
        e = tab.get(key)
        allowed = e["count"] if e else 0
        for i, s in enumerate(ss):
            if i < allowed:
                ctx.ob(rule, "site %s #%d" % (key, i), True, "reviewed: %s" % e["reason"], s.loc())
            else:
                unmatched_new.append(s)
    # moved re-matching
    missing = []
    in_scope = None
    if closure is not None:
        in_scope = set(panics.origin_root(f.qname) for f in closure)
        existing = set(panics.origin_root(f.qname) for f in ctx.F.fns) | set(panics.origin_root(q) for q in getattr(ctx.F, "helpers", {}))
    for key, e in tab.items():
        if in_scope is not None:
            root = [x.strip() for x in key.split("|")][1]
            # a tabled site can have 'moved' only out of a function of this closure or of one that no longer exists
            if root not in in_scope and root in existing:
                continue
        n = len(found.get(key, []))
        for i in range(n, e["count"]):
            missing.append(e)

    def loose(key):
        p = [x.strip() for x in key.split("|")]
        return (p[0], p[2], p[3], p[4]) if len(p) >= 5 else tuple(p)
    miss_by = defaultdict(list)
    for e in missing:
        miss_by[loose(e["key"])].append(e)
    new_by = defaultdict(list)
    still_new = []
    from engine.runner import load_known
    known_keys = set(k["key"] for k in load_known().get("findings", []))
    for s in unmatched_new:
        if "%s site %s" % (rule, s.key) in known_keys:
            still_new.append(s)     # a recorded finding: reported under its own key, never re-matched as 'moved'
        else:
            new_by[loose(s.key)].append(s)
    second = []
    for lk, ss in new_by.items():
        ms = miss_by.get(lk, [])
        if len(ss) <= len(ms):
            for s in ss:
                ctx.ob(rule, "site %s (moved)" % s.key, True, "re-matched as moved from a tabled site with the same crate/kind/callee/operand", s.loc())
            del ms[:len(ss)]
        else:
            second += ss
    # second pass, within one function: a reviewed site of that function is gone and a new one of the same class took its
    # place - a reworded assertion (`assert!(id <= MASK)` -> `assert!(id & !MASK == 0)`), or `seq.get(i).unwrap()` written
    # as `seq[i]` (and back). The count per function and class does not grow.
    def klass(key):
        q = [x.strip() for x in key.split("|")]
        if len(q) < 5:
            return tuple(q)
        kind = q[2]
        if kind == "panic":
            # assert!(c) <-> if !c { panic!(..) } <-> unreachable!(): one class of explicit panic within a function
            return (q[0], q[1], "panic")
        if kind in ("unwrap", "index"):
            return (q[0], q[1], "access")
        return (q[0], q[1], kind, q[3], q[4])
    rest = defaultdict(list)
    for ms in miss_by.values():
        for e in ms:
            rest[klass(e["key"])].append(e)
    by2 = defaultdict(list)
    for s in second:
        by2[klass(s.key)].append(s)
    third = []
    for kk, ss in by2.items():
        ms = rest.get(kk, [])
        if kk[2] in ("panic", "access") and len(ss) <= len(ms):
            for s in ss:
                ctx.ob(rule, "site %s (rewritten)" % s.key, True, "re-matched: a reviewed %s site of the same function is gone and this one took its place (count not increased)" % ("assertion / explicit panic" if kk[2] == "panic" else "element access"), s.loc())
            del ms[:len(ss)]
        else:
            third += ss
    # third pass: an assertion that moved into a sibling method of the same type and was reworded on the way
    def klass3(key):
        q = [x.strip() for x in key.split("|")]
        if len(q) >= 5 and q[2] == "panic":
            return (q[0], q[1].rsplit("::", 1)[0], "panic", (q[4].split(" ", 1)[0] if q[4] else ""))
        return None
    rest3 = defaultdict(list)
    for ms in rest.values():
        for e in ms:
            k3 = klass3(e["key"])
            if k3 is not None:
                rest3[k3].append(e)
    by3 = defaultdict(list)
    for s in third:
        k3 = klass3(s.key)
        if k3 is None:
            still_new.append(s)
        else:
            by3[k3].append(s)
    for k3, ss in by3.items():
        ms = rest3.get(k3, [])
        if len(ss) <= len(ms):
            for s in ss:
                ctx.ob(rule, "site %s (rewritten, moved within its type)" % s.key, True, "re-matched: a reviewed assertion of the same kind in a sibling method of this type is gone and this one took its place", s.loc())
        else:
            still_new += ss
    for s in still_new:
        ctx.ob(rule, "site %s" % s.key, False,
               "panic-capable site reachable from %s is neither machine-discharged nor in the reviewed table: %s" % (prop_label, s.detail[:300]),
               s.loc(), {"function": s.fn.qname, "kind": s.kind, "callee": s.callee, "operand": s.opterm})
    return auto, len(found), still_new


def ret_values(ctx, g):
    """[(bb, term)] of every value stored into the return place of g (or an alias of it); moves between return-place
    aliases are skipped."""
    from engine import query as Q
    T = ctx.T(g)
    RL = Q.ret_locals(g)
    out = []
    for bi, b in enumerate(g.blocks):
        for s in b["s"]:
            if s["k"] == "assign" and not s["p"].get("pr") and s["p"]["l"] in RL:
                r = s["r"]
                if r["k"] == "use":
                    pl = r["o"].get("m") or r["o"].get("c")
                    if pl is not None and not pl.get("pr") and pl["l"] in RL:
                        continue
                out.append((bi, T.rvalue(r)))
        t = b["t"]
        if t["k"] == "call" and not t["dest"].get("pr") and t["dest"]["l"] in RL and "decl" in t["f"]:
            out.append((bi, T.call_term(t)))
    return out
