"""C04 user obligations that live in C08's module: "belongs to this epoch and is signed by that epoch's committee" is decided by
CommitQC::verify for the ARGUMENTS it is given; the caller that verifies synced blocks (EngineManager::queue_block) must hand it the
schedule of the certificate's own epoch together with that epoch (C08.1; seed S10C04: the schedule is looked up by block height while
the expected epoch stays the certificate's claim - the epoch check compares the claim with itself)."""
from .c08 import rule_verify_before_queue

RULES = [("C08.1", rule_verify_before_queue)]
