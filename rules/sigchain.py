"""Signature-check chain (shared by C04, C12, C18): every `verify` of a signed message ends in the cryptographic
library call, over the hash of *that* message and the key / signature of *that* value, and the library's verdict decides
the result. The rules above this module treat `Signed::verify` / `verify_messages` as atoms; this module pins what those
atoms mean, hop by hop, down to blst / ed25519-dalek:

  validator::Signed::verify -> Signature::verify_msg -> verify_hash -> bls12_381::Signature::verify -> blst verify == BLST_SUCCESS
  CommitQC/TimeoutQC::verify -> AggregateSignature::verify_messages (-> verify_hash) -> bls12_381::AggregateSignature::verify
        -> every (message, key) pair enters the per-message key aggregation -> blst aggregate_verify == BLST_SUCCESS
  node::Signed::verify -> node::PublicKey::verify -> ed25519::PublicKey::verify -> verify_strict
"""
from engine import query as Q
from engine.terms import show, subterms
from engine.guards import Atom, Walker, Inliner, chain
from . import common

BLS = "zksync_consensus_crypto::bls12_381"
ED = "zksync_consensus_crypto::ed25519"
VKEYS = "zksync_consensus_roles::validator::keys"
NODE = "zksync_consensus_roles::node"


def _calls_in(t, suffixes):
    return [x for x in subterms(t) if x[0] == "call" and x[1].endswith(tuple(suffixes))]


def _mentions(t, pred):
    return any(pred(x) for x in subterms(t))


def _param_named(f, T, names):
    """terms of the params of f whose debug name is in names (self included)"""
    out = []
    for i in range(1, f.nparams + 1):
        t = T.local(i)
        out.append(t)
    return out


def _ok_blocks(f):
    RL = Q.ret_locals(f)
    return [bi for bi, b in enumerate(f.blocks) for s in b["s"] if s["k"] == "assign" and s["p"]["l"] in RL and not s["p"].get("pr") and s["r"]["k"] == "agg" and s["r"].get("variant") == "Ok"]


def _hop(ctx, R, f, key, callee_suffixes, checks, what):
    """f's success is the success of a call to one of callee_suffixes whose arguments satisfy checks[i](term): the call's
    result is what f returns (tail call, possibly through ok-ness preserving adapters), or every Ok(..) f can return is
    dominated by the call's success edge. Private helpers are already spliced in, so the call may sit in a former helper."""
    T = ctx.T(f)
    cfg = ctx.cfg(f)
    LF = Q.LocalFlow(f)
    RL = Q.ret_locals(f)
    own_ok = _ok_blocks(f)
    cands = [c for c in T.calls() if c["q"].endswith(tuple(callee_suffixes))]
    ok = False
    shape = None
    for c in cands:
        a = T.args_of(c)
        if len(a) < len(checks) or not all(ch is None or ch(a[i]) for i, ch in enumerate(checks)):
            continue
        d = c["t"]["dest"]["l"]
        tail = not c["t"]["dest"].get("pr") and (d in RL or any(d in LF.closure(r) for r in RL))
        ct = T.call_term(c["t"])
        e = Q.success_edges(ctx, f, lambda b, ct=ct: b == ct)
        guarded = bool(own_ok) and bool(e) and all(cfg.must_pass(ob, e) for ob in own_ok)
        if (tail and not own_ok) or guarded:
            ok = True
            shape = "tail call" if tail and not own_ok else "Ok only after its success"
    name = f.qname.split("::")[-2] + "::" + f.name
    ctx.ob(R, key, ok, "%s (%s)" % (what, shape) if ok else
           ("%s does not decide by the verdict of %s over the expected operands (calls found: %s)" % (name, [x.rsplit("::", 2)[-2] + "::" + x.rsplit("::", 1)[-1] for x in callee_suffixes][:2], [[show(x)[:40] for x in T.args_of(c)] for c in cands][:2])), f.loc())
    return ok


def _fld(names):
    def p(t):
        return chain(t)[1][-len(names):] == list(names)
    return p


def _has_call(suffix, inner=None):
    def p(t):
        return any(x[0] == "call" and x[1].endswith(suffix) and (inner is None or any(inner(a) for a in x[2])) for x in subterms(t))
    return p


def _is_param(i):
    def p(t):
        r, n = chain(t)
        return r[0] == "param" and r[1] == i
    return p


def blst_table(ctx, R, qname, lib_suffixes, label):
    """In a bls12_381 verify function Ok is reachable exactly when the blst verdict is BLST_SUCCESS (match or ==/!= form)."""
    f = ctx.fn(qname)
    T = ctx.T(f)

    def m(t):
        return t[0] == "call" and t[1].startswith("blst::") and t[1].endswith(tuple(lib_suffixes))
    vals = None
    cmp_form = False
    for bb in range(len(f.blocks)):
        si = T.switch_info(bb)
        if not si:
            continue
        if si[0][0] == "discr" and m(si[0][1]):
            vals = sorted(set(l for ls in si[1].values() for l in ls if isinstance(l, str)))
        elif any(m(x) for x in subterms(si[0])) and any(x[0] == "agg" and x[2] == "BLST_SUCCESS" for x in subterms(si[0])):
            cmp_form = True
    oks = _ok_blocks(f)
    if vals is None and cmp_form:
        vals = ["BLST_SUCCESS", "<any other verdict>"]
    if not vals or not oks:
        ctx.ob(R, "%s verdict" % label, False, "no test of the blst verdict / no Ok site found in %s (shape not recognised)" % qname, f.loc())
        return f
    at = Atom("blst verdict", "enum", m, vals)
    W = Walker(ctx, f, [at])
    names, tab = W.table({"ok": oks})
    bad = [k[0] for k, reach in tab.items() if reach and k[0] != "BLST_SUCCESS"]
    hit = bool(tab.get(("BLST_SUCCESS",)))
    ctx.ob(R, "%s verdict" % label, not bad and hit, "Ok is reachable exactly when blst returns BLST_SUCCESS (%d verdict values enumerated)" % len(tab) if not bad and hit else
           ("%s returns Ok for blst verdict(s) %s" % (label, bad) if bad else "%s never returns Ok on BLST_SUCCESS" % label), f.loc())
    return f


def root_name(g):
    while g.parent is not None:
        g = g.parent
    return g.name


def rule_validator_chain(ctx, R="C04.11"):
    ctx.rule(R, "signature-check chain (validator keys): Signed::verify -> verify_msg -> verify_hash -> bls Signature::verify and verify_messages -> bls AggregateSignature::verify are tail calls over the hash of the same message and the same key; each bls verify returns Ok exactly on BLST_SUCCESS; every (message, key) pair handed to the aggregate check enters the per-message key aggregation and a failing aggregation is an error")
    n = 0
    # hop 1: Signature::verify_msg(self, msg, pk) = verify_hash(self, hash(msg), pk) [or bls verify directly]
    f = ctx.fn(VKEYS + "::signature::Signature::verify_msg")
    T = ctx.T(f)
    n += _hop(ctx, R, f, "verify_msg", ["Signature::verify_hash", BLS + "::Signature::verify"],
              [_is_param(1), _has_call("Msg::hash", _is_param(2)), _is_param(3)], "verify_msg(msg, pk) = verify(self, hash(msg), pk)")
    f = ctx.fn(VKEYS + "::signature::Signature::verify_hash")
    n += _hop(ctx, R, f, "verify_hash", [BLS + "::Signature::verify"],
              [_is_param(1), lambda t: _is_param(2)(t) or _mentions(t, _is_param(2)), _is_param(3)], "verify_hash(h, pk) = self.0.verify(encode(h), pk.0)")
    # hop 2: aggregate - verify_messages hands every pair of its argument, with the message replaced by hash(insert(message)),
    # to the bls aggregate check, whose verdict it returns (flow-based: chains, loops and helper functions alike)
    f = ctx.fn(VKEYS + "::aggregate_signature::AggregateSignature::verify_messages")
    T = ctx.T(f)
    LF = Q.LocalFlow(f)
    RL = Q.ret_locals(f)
    lib = [c for c in T.calls() if c["q"] == BLS + "::AggregateSignature::verify"]
    own_ok = _ok_blocks(f)
    tail = [c for c in lib if not c["t"]["dest"].get("pr") and (c["t"]["dest"]["l"] in RL or any(c["t"]["dest"]["l"] in LF.closure(r) for r in RL))]
    src_ok = False
    for c in tail:
        al = [LF._local_op(a) for a in c["t"]["args"]]
        if len(al) >= 2 and al[1] is not None and LF.derives_from_local(al[1], 2):
            src_ok = True
    ok = bool(tail) and src_ok and not own_ok
    ctx.ob(R, "verify_messages", ok, "verify_messages returns the verdict of the bls aggregate check over pairs derived from its argument" if ok else
           ("verify_messages does not return the verdict of bls AggregateSignature::verify" if not tail else
            "verify_messages returns Ok on a path of its own" if own_ok else "the pairs handed to the bls check do not derive from the caller's (message, key) pairs"), f.loc())
    n += ok
    mod = VKEYS + "::aggregate_signature::"
    fam = [g for g in ctx.F.fns if (g.qname.startswith(mod) or g.qname.startswith("<" + mod)) and not g.in_testonly()]
    hash_ok = False
    filt = []
    SELECT = ("Iterator::filter", "Iterator::filter_map", "Iterator::skip", "Iterator::take", "Iterator::step_by", "Iterator::skip_while", "Iterator::take_while", "Iterator::map_while",
              "Itertools::dedup", "Itertools::unique", "Vec::dedup", "Vec::truncate", "Vec::retain", "Vec::pop", "Vec::dedup_by_key", "Vec::remove", "Vec::swap_remove", "Vec::drain", "Iterator::last", "Iterator::nth")
    for g in fam:
        rg = g
        while rg.parent is not None:
            rg = rg.parent
        if rg.item.impl_trait is not None or rg.name in ("add", "aggregate"):
            continue        # codecs / Debug / the signing-side helpers
        Tg = ctx.T(g)
        for c in Tg.calls():
            if c["q"].endswith("Msg::hash") and any(x[0] == "call" and x[1].endswith("Variant::insert") for x in subterms(Tg.args_of(c)[0])):
                hash_ok = True
            if c["q"].endswith(SELECT):
                filt.append(c["q"])
    ctx.ob(R, "aggregate: hashed messages", hash_ok, "each pair is (hash(insert(message)), key)" if hash_ok else "the aggregate check does not hash insert(message) per pair", f.loc())
    ctx.ob(R, "aggregate: no pair dropped", not filt, "no selecting step between the caller's pairs and the library call" if not filt else "pairs can be dropped before the aggregate check: %s" % filt, f.loc())
    # hop 3: bls
    blst_table(ctx, R, BLS + "::Signature::verify", ["Signature::verify"], "bls Signature::verify")
    g = blst_table(ctx, R, BLS + "::AggregateSignature::verify", ["Signature::aggregate_verify"], "bls AggregateSignature::verify")
    n += 2
    # operands of the single-signature check: (self.0, msg param, pk param .0)
    f1 = ctx.fn(BLS + "::Signature::verify")
    T1 = ctx.T(f1)
    ops = [T1.args_of(c) for c in T1.calls() if c["q"].startswith("blst::") and c["q"].endswith("Signature::verify")]
    ok = bool(ops) and all(_is_param(1)(a[0]) and _is_param(2)(a[2]) and _is_param(3)(a[5]) for a in ops if len(a) >= 6)
    ctx.ob(R, "bls Signature::verify operands", ok, "blst verify(self.0, msg, DST, pk.0)" if ok else "operands: %s" % [[show(x)[:40] for x in a] for a in ops], f1.loc())
    # the aggregation loop: every item of the input iterator is inserted or aggregated; an aggregation error returns Err
    Tg = ctx.T(g)
    cfg = ctx.cfg(g)
    LFg = Q.LocalFlow(g)
    nxt = [c for c in Tg.calls() if c["q"] == "std::iter::Iterator::next" and any(x[0] == "param" and x[1] == 2 for x in subterms(Tg.args_of(c)[0]))]
    ins = [c for c in Tg.calls() if c["q"].endswith(("BTreeMap::insert", "Entry::or_insert", "Entry::or_insert_with", "VacantEntry::insert", "HashMap::insert"))]
    addk = [c for c in Tg.calls() if c["q"].endswith("AggregatePublicKey::add_public_key") or c["q"].endswith("AggregatePublicKey::add_aggregate")]
    agg = [c for c in Tg.calls() if c["q"].endswith("Signature::aggregate_verify")]
    if not (nxt and ins and addk and agg):
        ctx.note("C04.11 key aggregation in bls AggregateSignature::verify: not the per-message loop (next / insert / add_public_key / aggregate_verify) - not decided")
        ctx.ob(R, "aggregate: every pair is accounted for", bool(agg), "undecided shape (not reported)" if agg else "bls AggregateSignature::verify does not call blst aggregate_verify", g.loc())
    else:
        head = nxt[0]["bb"]
        some_bb = None
        for bb in range(len(g.blocks)):
            sw = Tg.switch_info(bb)
            if sw and sw[0][0] == "discr" and sw[0][1] == Tg.call_term(nxt[0]["t"]):
                for tb, ls in sw[1].items():
                    if "Some" in ls:
                        some_bb = tb
        e_add = []
        for c in addk:
            ct = Tg.call_term(c["t"])
            e_add += Q.success_edges(ctx, g, lambda b, ct=ct: b == ct)
        ok = False
        if some_bb is not None and e_add:
            r = cfg.reach_from([some_bb], avoid_blocks=frozenset(c["bb"] for c in ins), avoid_edges=frozenset(e_add))
            ok = head not in r and agg[0]["bb"] not in r
        ctx.ob(R, "aggregate: every pair is accounted for", ok, "from the Some arm of the pair iterator the next iteration and the library call are reachable only through an insert of the key or a successful add_public_key" if ok else
               "a (message, key) pair can be skipped: the loop continues without inserting or aggregating its key (or an aggregation error is ignored)", g.loc())
        # what is verified comes from the aggregation map (derives-from flow), under this signature
        al = [LFg._local_op(a) for a in agg[0]["t"]["args"]]
        mp = set()
        for c in ins + [c for c in Tg.calls() if c["q"].endswith(("BTreeMap::entry", "BTreeMap::get_mut"))]:
            l0 = LFg._local_op(c["t"]["args"][0]) if c["t"]["args"] else None
            if l0 is not None:
                mp.add(LFg._root_borrow(l0))
                mp |= {x for x in LFg.closure(l0) if g.locals[x].s.startswith("std::collections::BTreeMap<")}
        okm = len(al) >= 5 and all(al[i] is not None and (LFg.closure(al[i]) & mp) for i in (2, 4))
        a0 = Tg.args_of(agg[0])
        ctx.ob(R, "aggregate: operands", okm and _is_param(1)(a0[0]), "aggregate_verify(self.0, messages and aggregated keys of the map the pairs were collected in)" if okm else
               "messages / keys handed to aggregate_verify do not derive from the aggregation map", g.loc())
    ctx.floor(R, "hops decided", n, 5)


def rule_node_chain(ctx, R="C12.9"):
    ctx.rule(R, "signature-check chain (node keys): node::Signed::verify = key.verify(hash(insert(msg)), sig); node::PublicKey::verify = ed25519 verify(encode(hash), sig.0); ed25519::PublicKey::verify returns the verdict of verify_strict over the same message and signature")
    f = ctx.fn(NODE + "::messages::Signed::verify")
    n = 0
    n += _hop(ctx, R, f, "node Signed::verify", [NODE + "::keys::PublicKey::verify"],
              [_fld(["key"]), lambda t: _has_call("Msg::hash")(t) and _mentions(t, _fld(["msg"])), _fld(["sig"])], "self.key.verify(&self.msg.insert().hash(), &self.sig)")
    f = ctx.fn(NODE + "::keys::PublicKey::verify")
    n += _hop(ctx, R, f, "node PublicKey::verify", [ED + "::PublicKey::verify"],
              [_is_param(1), lambda t: _mentions(t, _is_param(2)), _is_param(3)], "self.0.verify(encode(hash), &sig.0)")
    f = ctx.fn(ED + "::PublicKey::verify")
    n += _hop(ctx, R, f, "ed25519 PublicKey::verify", ["VerifyingKey::verify_strict", "VerifyingKey::verify", "Verifier::verify"],
              [_is_param(1), _is_param(2), _is_param(3)], "self.0.verify_strict(msg, &sig.0) mapped to InvalidSignatureError")
    ctx.floor(R, "hops decided", n, 3)


def rule_validator_chain_c18(ctx):
    return rule_validator_chain(ctx, "C18.6")


IMPURE = ("rand::", "rand_core::", "getrandom::", "std::time::Instant::now", "std::time::SystemTime::now", "time::OffsetDateTime::now", "time::Instant::now", "zksync_concurrency::ctx::Ctx::now",
          "zksync_concurrency::ctx::clock", "std::env::", "std::thread::", "std::sync::Mutex", "std::sync::RwLock", "std::sync::atomic", "std::cell::", "once_cell::", "std::sync::OnceLock",
          "std::sync::LazyLock", "std::sync::Once", "parking_lot::", "std::sync::mpsc", "std::sync::Condvar", "std::thread_local", "std::thread::LocalKey", "tokio::sync::", "std::fs::", "std::process::")


def rule_verify_pure(ctx, R="C04.12"):
    ctx.rule(R, "verification is a function of its arguments: the call-graph closure of every verify method of the consensus messages (votes, certificates, proposals, blocks, Signed) and of the signature checks reaches no lock, cell, atomic, lazy/once cell, clock, RNG, thread or environment API - a verdict cannot be remembered from, or influenced by, an earlier call with other arguments (another epoch, chain or committee)")
    roots = []
    for f in ctx.F.fns:
        if f.in_testonly() or f.parent is not None:
            continue
        q = f.qname
        if f.name in ("verify", "verify_msg", "verify_hash", "verify_messages") and (q.startswith("zksync_consensus_roles::validator::") or q.startswith("zksync_consensus_roles::node::") or q.startswith("zksync_consensus_crypto::")) \
                and (f.item.impl_trait is None):
            roots.append(f)
    ctx.floor(R, "verification entry points", len(roots), 14)
    # class-hierarchy expansion of generic calls (Clone, Debug, ProtoFmt::build ..) reaches every impl in the workspace: the
    # verification code itself lives in roles / crypto / protobuf / utils, and generated protobuf modules are codecs
    generated = lambda g: g.in_testonly() or "::proto::" in g.qname or "ReflectMessage>::descriptor" in g.qname or \
        g.crate not in ("zksync_consensus_roles", "zksync_consensus_crypto", "zksync_protobuf", "zksync_consensus_utils")
    cl = ctx.cg.closure(roots, generated)
    bad = []
    n = 0
    for g in cl:
        if generated(g):
            continue
        for bi, decl, res, rk in ctx.cg.ext_calls.get(g, []):
            t = g.blocks[bi]["t"]
            exp = (t.get("exp") or {}) if isinstance(t, dict) else {}
            for it in (decl, res):
                if it is None:
                    continue
                n += 1
                if it.qname.startswith(IMPURE) or any(("<" + p) in it.qname for p in IMPURE):
                    if str(exp.get("crate", "")).startswith(("tracing", "vise")) or str(exp.get("macro", "")).startswith(("tracing", "vise")):
                        continue
                    bad.append((g.qname, it.qname, g.loc(t.get("ln"))))
    seen = set()
    for gq, iq, where in bad:
        k = (gq, iq)
        if k in seen:
            continue
        seen.add(k)
        ctx.ob(R, "%s -> %s" % (gq.split("::", 2)[-1][-70:], iq[-60:]), False, "%s (reachable from a verify method) uses %s: the verdict can depend on state outside the verified value and the arguments (a remembered earlier verification, time, randomness)" % (gq, iq), where)
    ctx.ob(R, "no stateful API in the verification closure", not bad, "%d external callees of %d bodies in the closure of %d verify entry points checked" % (n, len(cl), len(roots)) if not bad else "%d stateful callee(s) reachable" % len(seen))
    ctx.floor(R, "external callees examined", n, 50)


RULES = [("C04.11", rule_validator_chain), ("C04.12", rule_verify_pure)]
RULES_NODE = [("C12.9", rule_node_chain)]
