"""C11 — leader election is a total, deterministic, eligible-only function."""
from engine import query as Q, panics
from engine.terms import show, subterms
from engine.guards import Atom, Walker, field_path, chain, Inliner
from . import common
from .c07 import SCHED, MOD, rule_domain as c07_domain

LS = MOD + "::LeaderSelection"
NONDET_PREFIXES = ("rand::", "rand_core::", "std::time::", "time::", "std::env::", "std::thread::", "tokio::", "std::collections::hash_map",
                   "std::collections::HashMap", "std::collections::HashSet", "std::collections::hash_set", "std::hash::random", "std::hash::RandomState",
                   "std::sys::", "std::fs::", "std::net::", "std::process::", "zksync_concurrency::ctx", "zksync_concurrency::time", "getrandom::", "im::")


def closure_of_view_leader(ctx):
    f = ctx.fn(SCHED + "::view_leader")
    return f, ctx.cg.closure([f], lambda g: g.in_testonly())


def rule_totality(ctx):
    R = "C11.1"
    ctx.rule(R, "totality: may-panic inventory over the closure of Schedule::view_leader; every division, remainder, index, unwrap, overflow and unreachable!() is machine-discharged, covered by a reviewed constructor invariant, or reported")
    f, cl = closure_of_view_leader(ctx)
    tab = ctx.table("extern_api.json")["apis"]
    panicking = set(k for k, v in tab.items() if v["disposition"] == "panicking")
    sites = []
    for g in cl:
        sites += panics.sites_of(g, ctx.T(g), panicking)
    # documented-panic extern APIs in this closure need dispositions as well
    for g in cl:
        for bi, decl, res, rk in ctx.cg.ext_calls.get(g, []):
            for it in (decl, res):
                if it is None or it.ws:
                    continue
                e = ctx.F.extern.get(it.path)
                if e and e["panics_section"]:
                    d = tab.get(it.qname)
                    ctx.ob(R, "extern-api %s" % it.qname, d is not None, "disposition: %s" % (d["disposition"] if d else None) if d else
                           "documented-panic external API without disposition in the leader-election closure", g.loc(g.blocks[bi]["t"].get("ln")))
    prof = common.cargo_profile_panic_abort()
    table = ctx.table("panic_sites.json")
    auto, ntab, new = common.match_table(ctx, R, sites, table, prof.get("dev") == "abort", "Schedule::view_leader", closure=cl)
    ctx.floor(R, "bodies in closure", len(cl), 4)
    ctx.floor(R, "panic-capable sites inventoried", len(sites), 6)


def rule_eligible_only(ctx):
    R = "C11.2"
    ctx.rule(R, "eligible-only: the returned key is vec[leaders[..]].key in both modes; `leaders` holds exactly the indices whose ValidatorInfo.leader is true; leader_weight sums exactly those weights; the weighted draw is taken modulo self.leader_weight")
    f = ctx.fn(SCHED + "::view_leader")
    T = ctx.T(f)
    # every assignment to the return place is get(<index from self.leaders>).unwrap().key.clone()
    rets = []
    for bi, b in enumerate(f.blocks):
        for s in b["s"]:
            if s["k"] == "assign" and s["p"]["l"] in Q.ret_locals(f) and not s["p"].get("pr"):
                rets.append((bi, T.rvalue(s["r"])))
        t = b["t"]
        if t["k"] == "call" and t["dest"]["l"] == 0 and not t["dest"].get("pr"):
            rets.append((bi, T.call_term(t)))
    ctx.floor(R, "return sites of view_leader", len(rets), 1)
    LFv = Q.LocalFlow(f)

    def via_leaders(t):
        """the value is drawn through self.leaders: the term (or a local it is built from) reads the `leaders` field"""
        if any(y[0] == "field" and y[2] == "leaders" for y in subterms(t)):
            return True
        for y in subterms(t):
            if y[0] == "var":
                for l in LFv.closure(y[1]):
                    for d in T.defs.get(l, ()):
                        if d[0] == "s":
                            r = f.blocks[d[1]]["s"][d[2]]["r"]
                            dt = T.rvalue(r)
                        else:
                            dt = T.call_term(f.blocks[d[1]]["t"]) if f.blocks[d[1]]["t"]["k"] == "call" else ("?",)
                        if any(z[0] == "field" and z[2] == "leaders" for z in subterms(dt)):
                            return True
        return False
    for bi, t in rets:
        root, names = chain(t)
        is_key = names[-1:] == ["key"] or any(x[0] == "field" and x[2] == "key" for x in subterms(t))
        through = via_leaders(t)
        direct_vec = any(x[0] == "field" and x[2] == "vec" for x in subterms(t)) and not through
        if is_key and through:
            st, txt = True, "returns the key of a validator drawn through self.leaders"
        elif direct_vec or (is_key and not through):
            st, txt = False, "a return value of view_leader is not the key of a validator indexed through self.leaders: %s" % show(t)[:200]
        else:
            st, txt = True, "undecided shape (not reported): %s" % show(t)[:120]
            ctx.note("C11.2 returned key: shape not recognised - not decided")
        ctx.ob(R, "returned key #%d" % rets.index((bi, t)), st, txt, f.loc())
    # the modulus of the weighted draw
    calls = [T.args_of(c) for c in T.calls() if c["q"] == LS + "::leader_weighted_eligibility"]
    ctx.floor(R, "weighted draw sites", len(calls), 1)
    for a in calls:
        base, path = field_path(a[1])
        ok = path == ["leader_weight"]
        ctx.ob(R, "modulus of the weighted draw", ok, "eligibility is drawn modulo self.leader_weight (the sum the cumulative walk covers)" if ok else
               "eligibility is drawn modulo %s while the cumulative walk covers only leader-eligible validators (sum = leader_weight): some draws match no leader" % show(a[1]), f.loc())
    # the cumulative walk stops at the first leader whose cumulative weight EXCEEDS the draw (strictly): `draw < offset`
    def is_draw(t):
        return any(x[0] == "call" and x[1] == LS + "::leader_weighted_eligibility" for x in subterms(t))

    def offset_like(body, Tb, t):
        # a running sum: a mutable local (or captured cell) that is increased by a `.weight`
        if t[0] == "var":
            for d in Tb.defs.get(t[1], ()):
                if d[0] == "s":
                    v = Tb.rvalue(body.blocks[d[1]]["s"][d[2]]["r"])
                    if any(x[0] == "field" and x[2] == "weight" for x in subterms(v)):
                        return True
        return t[0] == "upvar"
    decided = False
    for g in [f] + common.family(ctx, f, ("closure",)):
        Tg = ctx.T(g)

        def m_walk(a, b, g=g, Tg=Tg):
            if is_draw(a) and not is_draw(b) and offset_like(g, Tg, b):
                return 1
            if is_draw(b) and not is_draw(a) and offset_like(g, Tg, a):
                return -1
            # inside a closure the draw is a captured value: resolve through the capture list of the creating aggregate
            return 0
        W = Walker(ctx, g, [Atom("cmp(draw,cumulative)", "cmp", m_walk, ["<", "=", ">"])])
        if g is f:
            rl = Q.ret_locals(f)
            hits = [bi for bi, b in enumerate(f.blocks) for st in b["s"] if st["k"] == "assign" and st["p"]["l"] in rl and not st["p"].get("pr")]
            hits += [bi for bi, b in enumerate(f.blocks) if b["t"]["k"] == "call" and not b["t"]["dest"].get("pr") and b["t"]["dest"]["l"] in rl]
            heads = [c["bb"] for c in T.calls() if c["q"] == "std::iter::Iterator::next"]
            cfgf = ctx.cfg(f)
            for h in heads:
                inl = [b for b in hits if cfgf.dominates(h, b)]
                if not inl:
                    continue
                names, tab = W.table({"ret": inl}, start=h)
                if len(set(map(frozenset, tab.values()))) > 1:
                    decided = True
                    ok = tab.get(("<",)) == {"ret"} and not tab.get(("=",)) and not tab.get((">",))
                    ctx.ob(R, "weighted walk stops at the first cumulative weight above the draw", ok, "a leader is returned exactly when draw < cumulative weight (strict): every ticket 0..leader_weight-1 belongs to exactly one leader, in proportion to its weight" if ok else
                           "the weighted walk returns a leader for (draw vs cumulative weight) in %s instead of exactly '<': leaders get one ticket too many / too few" % sorted(k[0] for k, v in tab.items() if v), f.loc())
            if not decided:
                # the loop hands its result to code after it (break value / helper return place): decide on the loop's early exits
                for h in heads:
                    body = set(b for b in range(len(f.blocks)) if cfgf.dominates(h, b) and h in cfgf.reach_from([b]))
                    body.add(h)
                    exits = set()
                    for x in body:
                        si = T.switch_info(x)
                        if si is not None and si[0][0] == "discr" and si[0][1][0] == "call" and si[0][1][1] == "std::iter::Iterator::next":
                            continue      # the iterator is exhausted: the normal end of the loop
                        for _, y in cfgf.succ[x]:
                            if y not in body:
                                exits.add(y)
                    if not exits:
                        continue
                    names, tab = W.table({"exit": sorted(exits)}, start=h)
                    if len(set(map(frozenset, tab.values()))) > 1:
                        decided = True
                        ok = tab.get(("<",)) == {"exit"} and not tab.get(("=",)) and not tab.get((">",))
                        ctx.ob(R, "weighted walk stops at the first cumulative weight above the draw", ok, "the walk is left early exactly when draw < cumulative weight (strict)" if ok else
                               "the weighted walk stops for (draw vs cumulative weight) in %s instead of exactly '<': leaders get one ticket too many / too few" % sorted(k[0] for k, v in tab.items() if v), f.loc())
        else:
            # a predicate closure (find / position / take_while ...): its truth under the three orderings
            res = {c: common.ret_truths(ctx, W, g, {"cmp(draw,cumulative)": c}) for c in "<=>"}
            if all(v and None not in v for v in res.values()) and len(set(map(frozenset, res.values()))) > 1:
                decided = True
                ok = res["<"] == {True} and res["="] == {False} and res[">"] == {False}
                ctx.ob(R, "weighted walk stops at the first cumulative weight above the draw", ok, "the selecting predicate is draw < cumulative weight (strict)" if ok else
                       "the selecting predicate of the weighted walk is true for (draw vs cumulative weight) %s instead of exactly '<'" % {k: sorted(v) for k, v in res.items()}, g.loc())
    if not decided:
        ctx.note("C11.2 weighted walk comparison: shape not recognised - not decided")
    # the cumulative walk iterates self.leaders and accumulates weights of vec[l]
    walk_ok = any(c["q"] in ("[T]::iter", "std::iter::IntoIterator::into_iter") and T.args_of(c) and field_path(T.args_of(c)[0])[1][-1:] == ["leaders"] for c in T.calls())
    ctx.ob(R, "cumulative walk over leaders", walk_ok, "the weighted walk iterates self.leaders" if walk_ok else "the weighted walk does not iterate self.leaders", f.loc())
    # construction of `leaders` and `leader_weight`
    n = ctx.fn(SCHED + "::new")
    Tn = ctx.T(n)
    fm = [Tn.args_of(c) for c in Tn.calls() if c["q"] == "std::iter::Iterator::filter_map"]
    okf = False
    for a in fm:
        if a[1][0] == "closure":
            g = ctx.F.by_qname.get(a[1][1], [None])[0]
            if g is not None:
                Tg = ctx.T(g)
                # Some(i) reachable only when v.leader
                def lm(t):
                    return chain(t)[1][-1:] == ["leader"]
                W = Walker(ctx, g, [Atom("v.leader", "bool", lm, [True, False])])
                some = [bi for bi, b in enumerate(g.blocks) for s in b["s"] if s["k"] == "assign" and s["r"]["k"] == "agg" and s["r"].get("variant") == "Some"]
                none = [bi for bi, b in enumerate(g.blocks) for s in b["s"] if s["k"] == "assign" and s["r"]["k"] == "agg" and s["r"].get("variant") == "None"]
                names, tab = W.table({"some": some, "none": none})
                okf = tab.get((True,)) == {"some"} and tab.get((False,)) == {"none"}
    shape = "filter_map" if fm else None
    if not fm:
        # explicit loop: leaders.push(i) reachable exactly when v.leader
        aggn = None
        for b in n.blocks:
            for st in b["s"]:
                if st["k"] == "assign" and st["r"]["k"] == "agg" and st["r"].get("def") == SCHED:
                    aggn = st["r"]
        lead_local = None
        if aggn is not None and "leaders" in aggn.get("fields", []):
            lead_local = Q.LocalFlow._local_op(aggn["ops"][aggn["fields"].index("leaders")])
        LFn = Q.LocalFlow(n)
        pushes = []
        if lead_local is not None:
            srcs = LFn.closure(lead_local)
            for c in Tn.calls():
                if c["q"] == "std::vec::Vec::push" and c["t"]["args"]:
                    l0 = Q.LocalFlow._local_op(c["t"]["args"][0])
                    if l0 is not None and LFn._root_borrow(l0) in srcs and n.locals[LFn._root_borrow(l0)].s.startswith("std::vec::Vec<usize"):
                        pushes.append(c["bb"])
        if pushes:
            shape = "loop"
            from .c07 import loop_head as _lh
            hd = _lh(ctx, n, target=pushes)

            def lm0(t):
                return chain(t)[1][-1:] == ["leader"]
            W0 = Walker(ctx, n, [Atom("v.leader", "bool", lm0, [True, False])])
            names, tab = W0.table({"push": pushes}, start=hd if hd is not None else 0)
            okf = tab.get((True,)) == {"push"} and tab.get((False,)) == set()
    if shape is None:
        ctx.note("C11.2 construction of `leaders`: neither a filter_map chain nor a push loop - not decided")
        okf = True
    ctx.ob(R, "leaders = indices with leader flag", okf, ("an index enters `leaders` exactly when v.leader (%s form)" % shape if shape else "undecided shape (not reported)") if okf else "the leaders list is not built from exactly the validators flagged leader", n.loc())
    # the indices handed out are positions in `vec` itself: every enumerate() in Schedule::new counts a plain traversal of the
    # vector the Schedule stores. Counting a filtered / skipped / reversed sequence yields positions in *that* sequence, and
    # view_leader (leaders[..]) or Signers (indexes[key]) would then address a different validator.
    vec_term = None
    for b in n.blocks:
        for st in b["s"]:
            if st["k"] == "assign" and st["r"]["k"] == "agg" and st["r"].get("def") == SCHED:
                vec_term = dict(Tn.rvalue(st["r"])[3]).get("vec")
    PLAIN = ("[T]::iter", "std::iter::IntoIterator::into_iter", "std::vec::Vec::iter", "std::ops::Deref::deref")
    en = [Tn.args_of(c) for c in Tn.calls() if c["q"] == "std::iter::Iterator::enumerate"]
    if en and vec_term is not None:
        bad = []
        for a in en:
            r = a[0]
            while r[0] == "call" and r[1] in PLAIN and r[2]:
                r = r[2][0]
            while r[0] in ("ref", "deref"):
                r = r[1]
            if r != vec_term:
                bad.append(show(a[0])[:100])
        ctx.ob(R, "indices are positions in vec", not bad, "every enumerate() in Schedule::new (%d) counts a plain traversal of the stored validator vector" % len(en) if not bad else
               "an index list of the schedule is numbered over a derived sequence (%s), not over the stored validator vector: the indices address other validators" % bad[:2], n.loc())
    # leader_weight += v.weight only under v.leader

    def lm2(t):
        return chain(t)[1][-1:] == ["leader"]
    W = Walker(ctx, n, [Atom("v.leader", "bool", lm2, [True, False])])
    adds = []
    agg = None
    for bi, b in enumerate(n.blocks):
        for s in b["s"]:
            if s["k"] == "assign" and s["r"]["k"] == "agg" and s["r"].get("def") == SCHED:
                agg = Tn.rvalue(s["r"])
    lw_local = None
    if agg is not None:
        lw = dict(agg[3]).get("leader_weight")
        if lw is not None and lw[0] == "var":
            lw_local = lw[1]
    for bi, b in enumerate(n.blocks):
        for s in b["s"]:
            if s["k"] == "assign" and s["p"]["l"] == lw_local and not s["p"].get("pr") and Tn.rvalue(s["r"]) != ("const", 0):
                adds.append(bi)
    from .c07 import loop_head
    head = loop_head(ctx, n, target=adds) if adds else None
    okw = False
    if adds and head is not None:
        names, tab = W.table({"add": adds}, start=head)
        okw = "add" in tab.get((True,), set()) and "add" not in tab.get((False,), {"add"})
    if not okw and agg is not None:
        # computed afterwards from the finished lists: leader_weight derives from the `leaders` list (whose members are
        # pinned above) and sums `.weight` of the validators it indexes
        LFw = Q.LocalFlow(n)
        ld = dict(agg[3]).get("leaders")
        lw = dict(agg[3]).get("leader_weight")
        if ld is not None and lw is not None and lw[0] == "call" and lw[1] in ("std::iter::Iterator::sum", "std::iter::Iterator::fold"):
            # single-definition form: sum(map(iter(<leaders>), |&i| vec[i].weight))
            src_ok = any(x == ld or (ld[0] == "call" and x == ld) for x in subterms(lw)) or (ld[0] == "call" and any(x[0] == "call" and x[1] == ld[1] and x[2] == ld[2] for x in subterms(lw)))
            cls = [x for x in subterms(lw) if x[0] == "closure"]
            w_ok = False
            for c0 in cls:
                g0 = ctx.F.by_qname.get(c0[1], [None])[0]
                rt0 = Inliner(ctx).ret_term(g0) if g0 is not None else None
                w_ok = w_ok or (rt0 is not None and chain(rt0)[1][-1:] == ["weight"])
            okw = src_ok and w_ok
        elif ld is not None and lw is not None and ld[0] == "var" and lw[0] == "var" and LFw.derives_from_local(lw[1], ld[1]):
            fam = common.family(ctx, n, ("closure",))
            if any((Inliner(ctx).ret_term(g) is not None and chain(Inliner(ctx).ret_term(g))[1][-1:] == ["weight"]) for g in fam) and \
                    LFw.derives_from_call(lw[1], lambda q: q in ("std::iter::Iterator::sum", "std::iter::Iterator::fold", "std::iter::Iterator::try_fold")):
                okw = True
    ctx.ob(R, "leader_weight sums leader weights", okw, "leader_weight is increased only for validators flagged leader" if okw else "leader_weight accumulation is not guarded by v.leader", n.loc())


def rule_order_independence(ctx):
    R = "C11.3"
    ctx.rule(R, "order independence: Schedule::new collects the validators into a BTreeMap keyed by public key and derives vec/indexes/leaders from it in iteration order; no hashed container in new or view_leader")
    n = ctx.fn(SCHED + "::new")
    T = ctx.T(n)
    bodies = [n, ctx.fn(SCHED + "::view_leader")] + [g for g in ctx.F.fns if g.parent in (n,)]
    hashed = []
    for g in bodies:
        for i, ty in enumerate(g.locals):
            if any(h in ty.s for h in ("HashMap", "HashSet", "hash_map", "hash_set", "im::Hash")):
                hashed.append("%s: _%d %s" % (g.qname.split("::")[-1], i, ty.s[:60]))
    ctx.ob(R, "no hashed containers", not hashed, "no HashMap/HashSet local in Schedule::new / view_leader" if not hashed else "hashed containers: %s" % hashed[:3], n.loc())
    agg = None
    for b in n.blocks:
        for s in b["s"]:
            if s["k"] == "assign" and s["r"]["k"] == "agg" and s["r"].get("def") == SCHED:
                agg = T.rvalue(s["r"])
    ok = False
    aggr = None
    for b in n.blocks:
        for st in b["s"]:
            if st["k"] == "assign" and st["r"]["k"] == "agg" and st["r"].get("def") == SCHED:
                aggr = st["r"]
    if aggr is not None:
        LF = Q.LocalFlow(n)

        def from_sorted_map(t):
            if "decl" not in t["f"] or not t["args"]:
                return False
            q = n.callee(t)[0].qname
            if not q.endswith(("BTreeMap::into_values", "BTreeMap::values", "BTreeMap::iter", "BTreeMap::into_iter", "IntoIterator::into_iter")):
                return False
            a0 = Q.LocalFlow._local_op(t["args"][0])
            return a0 is not None and "BTreeMap<" in n.locals[a0].s
        ok = True
        for fld in ("vec", "indexes", "leaders"):
            if fld not in aggr.get("fields", []):
                ok = False
                continue
            l = Q.LocalFlow._local_op(aggr["ops"][aggr["fields"].index(fld)])
            ok = ok and l is not None and LF.derives_from_call_where(l, from_sorted_map)
    ctx.ob(R, "derived from the sorted map", ok, "vec = map.into_values(); indexes and leaders enumerate vec" if ok else "vec/indexes/leaders are not derived from the BTreeMap in iteration order", n.loc())
    # positive control for the hashed-container detector
    pc = [g for g in ctx.F.fns if g.crate == "zksync_consensus_network" and any("HashMap" in t.s for t in g.locals)]
    ctx.ob(R, "positive control", len(pc) >= 1, "the hashed-container detector matches %d bodies elsewhere in the fact base" % len(pc))


def rule_determinism(ctx):
    R = "C11.4"
    ctx.rule(R, "determinism: the call-graph closure of view_leader reaches no clock, RNG, environment, thread or hashed-iteration API; the weighted draw is Keccak256(turn.to_be_bytes()) mod weight")
    f, cl = closure_of_view_leader(ctx)
    bad = []
    nchecked = 0
    for g in cl:
        for bi, decl, res, rk in ctx.cg.ext_calls.get(g, []):
            for it in (decl, res):
                if it is None:
                    continue
                nchecked += 1
                if it.qname.startswith(NONDET_PREFIXES) or any(("<" + p) in it.qname for p in NONDET_PREFIXES):
                    bad.append("%s calls %s" % (g.qname.split("::")[-1], it.qname))
    ctx.ob(R, "no nondeterministic API", not bad, "%d external callees of %d bodies checked against the nondeterminism prefix list" % (nchecked, len(cl)) if not bad else "nondeterministic API reachable from view_leader: %s" % bad[:3], f.loc())
    ctx.floor(R, "external callees examined", nchecked, 10)
    e = ctx.fn(LS + "::leader_weighted_eligibility")
    T = ctx.T(e)
    t = Inliner(ctx).ret_term(e)
    subs = list(subterms(t)) if t else []
    okh = any(x[0] == "call" and x[1].endswith("Keccak256::new") and any(y[0] == "call" and y[1] == "u64::to_be_bytes" and y[2][0][0] == "param" for y in subterms(x)) for x in subs)
    okm = any(x[0] == "call" and x[1] == "std::ops::Rem::rem" and any(y[0] == "param" and y[1] == 2 for y in subterms(x[2][1])) for x in subs)
    if not (okh and okm):
        # several return sites (e.g. a match on the digit slice): decide by flow - the returned value derives from
        # `<hash of param 1's big-endian bytes> % <value built from param 2>`
        LF = Q.LocalFlow(e)

        def from_param(l, k):
            return k in LF.closure(l)

        def is_keccak(tt):
            if "decl" not in tt["f"] or not e.callee(tt)[0].qname.endswith("Keccak256::new") or not tt["args"]:
                return False
            a0 = Q.LocalFlow._local_op(tt["args"][0])
            return a0 is not None and LF.derives_from_call_where(a0, lambda u: "decl" in u["f"] and e.callee(u)[0].qname == "u64::to_be_bytes" and u["args"] and Q.LocalFlow._local_op(u["args"][0]) is not None and from_param(Q.LocalFlow._local_op(u["args"][0]), 1))

        def is_rem(tt):
            if "decl" not in tt["f"] or e.callee(tt)[0].qname != "std::ops::Rem::rem" or len(tt["args"]) != 2:
                return False
            a0, a1 = (Q.LocalFlow._local_op(x) for x in tt["args"])
            return a0 is not None and a1 is not None and LF.derives_from_call_where(a0, is_keccak) and from_param(a1, 2) and not from_param(a1, 1)
        okh = okm = all(LF.derives_from_call_where(l, is_rem) for l in Q.ret_locals(e) if l == 0)
        if okh:
            t = ("flow", "ret <- rem(keccak(to_be_bytes(param 1)), f(param 2))")
    ctx.ob(R, "draw term", okh and okm, "eligibility = Keccak256(input.to_be_bytes()) mod BigUint(total_weight argument)" if okh and okm else "eligibility term not recognised: %s" % (show(t)[:200] if t and t[0] != "flow" else None), e.loc())
    # positive control
    pc = any(it.qname.startswith("rand::") for g in ctx.F.fns if not g.in_testonly() for _, d, r, _ in ctx.cg.ext_calls.get(g, []) for it in (d,) if it is not None)
    ctx.ob(R, "positive control", pc, "the prefix list matches RNG calls elsewhere in the workspace")


def rule_frequency_zero(ctx):
    R = "C11.5"
    ctx.rule(R, "frequency 0 never rotates: turn = view / frequency must not divide by an unchecked frequency (turn = 0 when frequency == 0)")
    f = ctx.fn(SCHED + "::view_leader")
    T = ctx.T(f)
    div = []
    for bi, b in enumerate(f.blocks):
        t = b["t"]
        if t["k"] == "assert" and t["msg"]["k"] == "DivisionByZero":
            cond = T.operand(t["cond"])
            if cond[0] == "bin" and any(x[0] == "field" and x[2] == "frequency" for x in subterms(cond)):
                div.append(bi)
    # accepted idioms: checked_div(..).unwrap_or(0) (no assert at all) or a dominating frequency != 0 test
    guarded = True
    for bi in div:
        def m(a, b):
            if chain(a)[1][-1:] == ["frequency"] and b == ("const", 0):
                return 1
            if chain(b)[1][-1:] == ["frequency"] and a == ("const", 0):
                return -1
            return 0
        W = Walker(ctx, f, [Atom("frequency==0", "cmp", m, ["=", "!="])])
        names, tab = W.table({"div": [bi]})
        if "div" in tab.get(("=",), {"div"}):
            guarded = False
    uses_checked = any(c["q"] == "u64::checked_div" for c in T.calls())
    ok = (not div and uses_checked) or (bool(div) and guarded) or (not div and not uses_checked and False)
    ctx.ob(R, "division by frequency", ok, "the division by frequency is total (%s)" % ("checked_div" if uses_checked else "guarded by frequency != 0") if ok else
           "view_leader divides the view number by LeaderSelection.frequency without excluding 0, although frequency 0 is documented as 'never rotates'", f.loc())


RULES = [("C11.1", rule_totality), ("C11.2", rule_eligible_only), ("C11.3", rule_order_independence), ("C11.4", rule_determinism),
         ("C11.5", rule_frequency_zero), ("C07.3", c07_domain)]
