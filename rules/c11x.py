"""C11 user obligations that live in other properties' modules: "all nodes compute the same answer" is about the
function (schedule, view) -> leader; it only yields one leader per view network-wide if every caller asks for the view
the message is about. The rule that pins the argument of view_leader in the proposal / new-view handlers belongs to
C05 (wrong-leader check); it is run with C11 as well (seed S6C11: on_proposal asks for the leader of the replica's
current view)."""
from .c05 import rule_wrong_leader

RULES = [("C05.8", rule_wrong_leader)]
