"""C18 — the validator address book holds only authentic, newest announcements."""
from . import common
from engine import query as Q
from engine.terms import show, subterms
from engine.guards import Atom, Walker, field_path, chain, Inliner
from .c07 import loop_head
from .c04 import call_atom, conj_table

NET = "zksync_consensus_network"
VA = NET + "::gossip::validator_addrs::ValidatorAddrs"
VAW = NET + "::gossip::validator_addrs::ValidatorAddrsWatch"
DISC = "zksync_consensus_roles::validator::messages::discovery::NetAddress"


def root_fn(f):
    while f.parent is not None:
        f = f.parent
    return f


def rule_update_table(ctx):
    R = "C18.1"
    ctx.rule(R, "update table (per batch entry, 32 valuations): an entry is stored only if not duplicated in the batch, signed by a committee member, strictly newer than the stored one (or none stored) and its signature verifies; a duplicate fails the batch; non-members and not-newer entries are skipped without signature verification")
    f = ctx.fn(VA + "::update")
    T = ctx.T(f)

    # duplicate detection: `done.contains(k)` (true = duplicate) or `!done.insert(k)` (insert returns false for a duplicate)
    dup_by_insert = not any(c["q"].endswith("HashSet::contains") for c in T.calls()) and any(c["q"].endswith("HashSet::insert") for c in T.calls())

    def a_dup(t):
        return t[0] == "call" and t[1].endswith("HashSet::insert" if dup_by_insert else "HashSet::contains")

    def a_member(t):
        return t[0] == "call" and t[1].endswith("Schedule::contains")

    def a_stored(t):
        return t[0] == "call" and t[1].endswith("HashMap::get") and chain(t[2][0])[1][-1:] == ["0"]

    def a_newer(t):
        return t[0] == "call" and t[1] == DISC + "::is_newer"
    atoms = [Atom("duplicate in batch", "bool", a_dup, [True, False]), Atom("member", "bool", a_member, [True, False]), Atom("stored", "opt", a_stored, ["None", "Some"]),
             Atom("newer", "bool", a_newer, [True, False]), call_atom("signature", ["Signed::verify"])]
    ins = [c["bb"] for c in T.calls() if c["q"].endswith("HashMap::insert") and chain(T.args_of(c)[0])[1][-1:] == ["0"]]
    ver = [c["bb"] for c in T.calls() if c["q"].endswith("Signed::verify")]
    errs = [bi for bi, b in enumerate(f.blocks) for s in b["s"] if s["k"] == "assign" and s["p"]["l"] in Q.ret_locals(f) and s["r"]["k"] == "agg" and s["r"].get("variant") == "Err"]
    head = loop_head(ctx, f, target=ins) if ins else None
    ctx.floor(R, "address-book insert sites", len(ins), 1)
    ctx.floor(R, "signature verification sites", len(ver), 1)
    ctx.ob(R, "batch loop", head is not None, "loop over the batch found", f.loc())
    if head is None:
        return
    W = Walker(ctx, f, atoms)
    names, tab = W.table({"insert": ins, "verify": ver, "err": errs}, start=head)
    bad = []
    for (dup, mem, st, nw, sg), reach in tab.items():
        if dup_by_insert:
            dup = not dup     # the atom is `insert returned true` = first occurrence
        elig = (dup is False) and (mem is True) and (st == "None" or nw is True)
        exp_ins = elig and sg is True
        if ("insert" in reach) != exp_ins:
            bad.append(("insert", (dup, mem, st, nw, sg), sorted(reach)))
        if ("verify" in reach) != elig:
            bad.append(("verify", (dup, mem, st, nw, sg), sorted(reach)))
        if dup is True and "err" not in reach:
            bad.append(("dup-not-rejected", (dup, mem, st, nw, sg), sorted(reach)))
    # must-store: with the insert removed, an eligible entry with a valid signature cannot complete its iteration
    if not bad and head is not None and ins:
        cfgf = ctx.cfg(f, with_cancel=False)
        for st in ("None", "Some"):
            val = {"duplicate in batch": (True if dup_by_insert else False), "member": True, "stored": st, "newer": True, "signature": True}
            r = W.reachable(val, head, frozenset(ins))
            back = [x for x in r if x != head and any(y == head for _, y in cfgf.succ[x])] if len(r) > 1 else []
            if back:
                bad.append(("must-insert", tuple(val.values()), ["iteration completes without storing the entry"]))
    ctx.ob(R, "entry table", not bad, "32 valuations: stored iff eligible and signature valid (may and must); verified iff eligible; duplicates rejected" if not bad else
           "ValidatorAddrs::update deviates from the specified table (atoms %s): %s" % (names, bad[:3]), f.loc())
    # the batch duplicate test is on the signer KEY (two different announcements of one validator in a batch are a duplicate)
    dup_calls = [c for c in T.calls() if c["q"].endswith(("HashSet::contains", "HashSet::insert")) and not chain(T.args_of(c)[0])[1][-1:] == ["0"]]
    okd = bool(dup_calls)
    why = ""
    for c in dup_calls:
        a = T.args_of(c)
        elem_ty = f.ty(c["t"]["f"]["ga"][0]).s if c["t"]["f"].get("ga") else ""
        key_like = chain(a[1])[1][-1:] == ["key"] or any(x[0] == "field" and x[2] == "key" for x in subterms(a[1]))
        if not key_like or not elem_ty.endswith("PublicKey"):
            okd = False
            why = "%s(%s) over a set of %s" % (c["q"].rsplit("::", 1)[1], show(a[1])[:50], elem_ty[-60:])
    ctx.ob(R, "duplicates are detected per signer key", okd, "the per-batch set holds validator public keys (d.key)" if okd else
           "the per-batch duplicate test does not compare signer keys (%s): two different announcements of one validator pass as distinct" % why, f.loc())
    # what is inserted is the entry under its own key
    okk = False
    for c in T.calls():
        if c["q"].endswith("HashMap::insert") and chain(T.args_of(c)[0])[1][-1:] == ["0"]:
            a = T.args_of(c)
            okk = chain(a[1])[1][-1:] == ["key"] and chain(a[1])[0] == chain(a[2])[0]
    ctx.ob(R, "inserted under own key", okk, "self.0.insert(d.key, d)" if okk else "the entry is not stored under its own signer key", f.loc())


def rule_all_or_nothing(ctx):
    R = "C18.2"
    ctx.rule(R, "all-or-nothing publish: ValidatorAddrsWatch::update applies the batch to a private clone; the clone is published (send_replace) only on Ok(true); no other code applies a batch to the live address book")
    sites = []
    for f in ctx.F.fns:
        if f.in_testonly() or f.crate != NET:
            continue
        T = ctx.T(f)
        for c in T.calls():
            if c["q"] == VA + "::update":
                sites.append((f, c))
    ok = len(sites) == 1 and root_fn(sites[0][0]).qname == VAW + "::update"
    ctx.ob(R, "callers of ValidatorAddrs::update", ok, "ValidatorAddrs::update is applied only inside ValidatorAddrsWatch::update" if ok else "ValidatorAddrs::update callers: %s" % [s[0].qname for s in sites])
    if not sites:
        return
    f, c = sites[0]
    T = ctx.T(f)
    APPLY = VA + "::update"
    if f.kind == "closure" and c["t"]["args"] and (lambda r: r[0] == "param" and r[1] >= 2)(chain(T.operand(c["t"]["args"][0]))[0]):
        # higher-order form: the batch is applied by a closure to the value it is *given*; the function that owns the lock
        # hands it `&mut <copy>` through FnOnce::call_once. The obligations move to that call.
        host = ctx.F.body_of(ctx.fn(VAW + "::update"))
        Th = ctx.T(host)
        hc = [x for x in Th.calls() if x["q"].rsplit("::", 1)[-1] in ("call_once", "call_mut", "call") and "ops::function" in x["q"] or x["q"] in ("std::ops::FnOnce::call_once", "std::ops::FnMut::call_mut", "std::ops::Fn::call")]
        if len(hc) == 1:
            f, c, T = host, hc[0], Th
            APPLY = c["q"]
            # the receiver is the first element of the argument tuple
            tup = c["t"]["args"][1] if len(c["t"]["args"]) > 1 else None
            tl = (tup.get("m") or tup.get("c")) if tup is not None else None
            sd = T.single_def(tl["l"]) if tl is not None and not tl.get("pr") else None
            if sd and sd[0] == "s" and f.blocks[sd[1]]["s"][sd[2]]["r"]["k"] == "agg" and f.blocks[sd[1]]["s"][sd[2]]["r"].get("ops"):
                c = dict(c)
                c["t"] = dict(c["t"])
                c["t"]["args"] = [f.blocks[sd[1]]["s"][sd[2]]["r"]["ops"][0]]
        # otherwise the closure is handed to code that applies it to a value this rule cannot see being cloned (e.g. a
        # watch's send_if_modified, which runs it on the live value): decided below as "not a private clone"
    cfg = ctx.cfg(f)
    # receiver is a local that was produced by Clone::clone
    recv = c["t"]["args"][0]
    pl = recv.get("c") or recv.get("m")
    okc = False
    desc = "receiver not a local"
    if pl is not None:
        l = pl["l"]
        # follow `&mut local` temporaries
        sd = T.single_def(l)
        if sd and sd[0] == "s":
            r = f.blocks[sd[1]]["s"][sd[2]]["r"]
            if r["k"] == "ref" and not r["p"].get("pr"):
                l = r["p"]["l"]
        defs = T.defs.get(l, [])
        decls = []
        for _ in range(8):
            # a value moved whole from another local, or a (re)borrow `&mut *x` / `&mut x` of it (the argument tuple and
            # parameters of a spliced helper)
            if len(defs) == 1 and defs[0][0] == "s":
                r0 = f.blocks[defs[0][1]]["s"][defs[0][2]]["r"]
                src = None
                if r0["k"] == "use":
                    src = r0["o"].get("m") or r0["o"].get("c")
                    if src is not None and src.get("pr"):
                        src = None
                elif r0["k"] == "ref" and r0["p"].get("pr", []) in ([], ["*"]):
                    src = r0["p"]
                if src is not None:
                    l = src["l"]
                    defs = T.defs.get(l, [])
                    continue
            break
        for d in defs:
            if d[0] == "c":
                decls.append(f.callee(f.blocks[d[1]]["t"])[0].qname)
            elif d[0] == "s":
                decls.append("stmt")
        okc = decls == ["std::clone::Clone::clone"] and f.locals[l].s.replace("&mut ", "").replace("&", "") == VA
        desc = "local _%d (%s) defined by %s" % (l, f.locals[l].s.split("::")[-1], decls)
    ctx.ob(R, "batch applied to a private clone", okc, "the batch is applied to a local ValidatorAddrs produced by Clone::clone of the current value" if okc else
           "the batch is applied to %s - not a private clone of the address book, so a rejected batch can leave earlier entries stored" % desc, f.loc(c["t"].get("ln")))
    pubs = [x for x in T.calls() if x["q"].endswith("::send_replace")]
    ctx.floor(R, "publish sites", len(pubs), 1)
    edges = Q.success_edges(ctx, f, lambda b: b[0] == "call" and b[1] == APPLY)

    def a_changed(t):
        if t[0] == "try" and t[1][0] == "call" and t[1][1] == APPLY:
            return True
        # the Ok payload of an explicit match on the result
        return t[0] == "field" and t[2] == "0" and t[1][0] == "downcast" and t[1][2] == "Ok" and t[1][1][0] == "call" and t[1][1][1] == APPLY
    W = Walker(ctx, f, [Atom("changed", "bool", a_changed, [True, False])])
    for p in pubs:
        ok1 = bool(edges) and cfg.must_pass(p["bb"], edges)
        names, tab = W.table({"publish": [p["bb"]]})
        ok2 = "publish" in tab.get((True,), set()) and "publish" not in tab.get((False,), {"publish"})
        ctx.ob(R, "publish only on Ok(true)", ok1 and ok2, "send_replace is dominated by the batch's success and runs only when something changed" if ok1 and ok2 else
               "the address book can be published although the batch failed or nothing changed", f.loc(p["t"].get("ln")))
        a = T.args_of(p)
        okv = len(a) > 1 and a[1][0] in ("var", "call")
        ctx.ob(R, "published value", okv, "the published value is the updated clone" if okv else "published value: %s" % show(a[1])[:80], f.loc())


def rule_order(ctx):
    R = "C18.3"
    ctx.rule(R, "order: is_newer is the strict lexicographic comparison (self.version, self.timestamp) > (b.version, b.timestamp)")
    f = ctx.fn(DISC + "::is_newer")
    t = Inliner(ctx).ret_term(f)
    ok = False
    if t is not None and t[0] == "call" and t[1] == "std::cmp::PartialOrd::gt":
        a, b = t[2]
        if a[0] == "tuple" and b[0] == "tuple" and len(a[1]) == 2 and len(b[1]) == 2:
            pa = [chain(x) for x in a[1]]
            pb = [chain(x) for x in b[1]]
            ok = [p[1] for p in pa] == [["version"], ["timestamp"]] and [p[1] for p in pb] == [["version"], ["timestamp"]] and pa[0][0] == pa[1][0] and pb[0][0] == pb[1][0] and pa[0][0] != pb[0][0] \
                and pa[0][0][0] == "param" and pa[0][0][1] == 1 and pb[0][0][1] == 2
    if not ok and t is not None and t[0] == "call" and t[1].startswith("std::cmp::PartialOrd::") and len(t[2]) == 2 and t[2][0][0] == "tuple" and t[2][1][0] == "tuple":
        ctx.ob(R, "is_newer term", False, "is_newer compares the (version, timestamp) tuples with `%s` / in another field order instead of strictly greater: %s" % (t[1].rsplit("::", 1)[1], show(t)[:120]), f.loc())
        return
    if not ok:
        # any other shape: evaluate the returned value under the 9 orderings of (version, timestamp)
        def side(t, fld):
            root, names = chain(t)
            return names[-1:] == [fld] and root[0] == "param" and root[1] in (1, 2) and root[1]

        def mk(fld):
            def m(a, b):
                sa, sb = side(a, fld), side(b, fld)
                if sa == 1 and sb == 2:
                    return 1
                if sa == 2 and sb == 1:
                    return -1
                return 0
            return m
        W = Walker(ctx, f, [Atom("version", "cmp", mk("version"), ["<", "=", ">"]), Atom("timestamp", "cmp", mk("timestamp"), ["<", "=", ">"])])
        bad, undec = [], 0
        for v in "<=>":
            for ts in "<=>":
                exp = v == ">" or (v == "=" and ts == ">")
                tr = common.ret_truths(ctx, W, f, {"version": v, "timestamp": ts})
                if None in tr or not tr:
                    undec += 1
                elif tr != {exp}:
                    bad.append((v, ts, sorted(tr)))
        if bad:
            ctx.ob(R, "is_newer term", False, "is_newer is not the strict lexicographic order on (version, timestamp): for (version, timestamp) orderings %s it returns the listed values" % bad[:4], f.loc())
        elif undec:
            ctx.note("C18.3 is_newer: %d of 9 orderings could not be evaluated - not decided" % undec)
            ctx.ob(R, "is_newer term", True, "undecided shape (not reported): %d of 9 orderings not evaluated" % undec, f.loc())
        else:
            ctx.ob(R, "is_newer term", True, "is_newer returns true exactly when version is greater, or equal with a greater timestamp (9 orderings evaluated)", f.loc())
        return
    ctx.ob(R, "is_newer term", ok, "(self.version, self.timestamp) > (b.version, b.timestamp)", f.loc())


def rule_writers(ctx):
    R = "C18.4"
    ctx.rule(R, "who writes the address book: only ValidatorAddrs::update and ValidatorAddrsWatch::announce; announce signs with the given validator key and uses version = stored + 1 (or 0)")
    writers = set()
    for f in ctx.F.fns:
        if f.in_testonly() or f.crate != NET:
            continue
        T = ctx.T(f)
        for c in T.calls():
            if c["q"].endswith(("HashMap::insert", "HashMap::remove", "HashMap::entry", "HashMap::clear", "HashMap::retain")) and "im::" in c["q"] or c["q"].startswith("im::") and c["q"].rsplit("::", 1)[1] in ("insert", "remove", "entry", "clear", "retain", "update", "alter"):
                a = T.args_of(c)
                tys = [f.ty(i).s for i in c["t"]["f"].get("ga", [])]
                if a and chain(a[0])[1][-1:] == ["0"] and any("NetAddress" in t for t in tys):
                    writers.add(root_fn(f).qname)
    allowed = {VA + "::update", VAW + "::announce"}
    ctx.ob(R, "writers", writers == allowed, "the address map is mutated only by %s" % sorted(w.split("::")[-2] + "::" + w.split("::")[-1] for w in writers) if writers == allowed else "address map writers: %s" % sorted(writers))
    f0 = ctx.body(VAW + "::announce")
    f = f0
    keyp = common.pnames(f0, "SecretKey")
    for g in [f0] + common.family(ctx, f0, ("closure", "coroutine")):
        if any(c["q"].endswith("SecretKey::sign_msg") for c in ctx.T(g).calls()):
            f = g       # the signing may sit in a closure handed to a copy-modify-publish helper
            break
    T = ctx.T(f)
    signs = [T.args_of(c) for c in T.calls() if c["q"].endswith("SecretKey::sign_msg")]

    def is_key(t):
        if common.is_p(t, keyp) or common.is_p(t, common.pnames(f, "SecretKey")):
            return True
        r = chain(t)[0]
        return f is not f0 and r[0] == "upvar" and any(r[1] == (k[2] if len(k) > 2 else k[1]) or r[1] in str(k) for k in keyp)
    ok = bool(signs) and all(is_key(a[0]) for a in signs)
    ctx.ob(R, "announce signs with the node's key", ok, "announce signs the NetAddress with the key argument" if ok else "announce signing key: %s" % [show(a[0]) for a in signs], f.loc())
    okv = False
    for a in signs:
        for x in subterms(a[1]):
            if x[0] == "agg" and x[1].endswith("NetAddress"):
                v = dict(x[3]).get("version")
                okv = v is not None and v[0] == "call" and v[1] == "std::option::Option::unwrap_or" and v[2][1] == ("const", 0) and any(y[0] == "call" and y[1] == "std::option::Option::map" for y in subterms(v))
                if okv:
                    # the mapped value is the stored version + 1 (a re-announcement must be strictly newer than what peers hold)
                    from .c07 import norm_arith as _na
                    okv = False
                    for y in subterms(v):
                        if y[0] == "call" and y[1] == "std::option::Option::map" and len(y[2]) == 2 and y[2][1][0] == "closure":
                            body = Inliner(ctx).inline_closure(y[2][1], [("param", 99, "stored")])
                            if body is not None:
                                b2 = _na(body)
                                okv = b2[0] == "bin" and b2[1] == "Add" and b2[3] == ("const", 1) and chain(b2[2])[1][-2:] == ["msg", "version"]
                if not okv and v is not None and v[0] == "var":
                    # match / if-let form: 0 when nothing is stored, stored version + 1 otherwise (guard table over the lookup)
                    from .c07 import norm_arith

                    def cls(t):
                        t = norm_arith(t)
                        if t == ("const", 0):
                            return "zero"
                        if t[0] == "bin" and t[1] == "Add" and t[3] == ("const", 1) and chain(t[2])[1][-2:] == ["msg", "version"]:
                            return "succ"
                        return "other"
                    defs = {}
                    for bi, b in enumerate(f.blocks):
                        for st in b["s"]:
                            if st["k"] == "assign" and not st["p"].get("pr") and st["p"]["l"] == v[1]:
                                defs.setdefault(cls(T.rvalue(st["r"])), []).append(bi)
                    if set(defs) == {"zero", "succ"}:
                        def a_get(t):
                            return t[0] == "call" and t[1].rsplit("::", 1)[-1] == "get" and len(t[2]) == 2
                        W = Walker(ctx, f, [Atom("stored", "opt", a_get, ["None", "Some"])])
                        names, tab = W.table(defs)
                        okv = tab.get(("None",)) == {"zero"} and tab.get(("Some",)) == {"succ"}
    ctx.ob(R, "announce version", okv, "version = stored version + 1, or 0 when nothing is stored" if okv else "announce version term not recognised", f.loc())


def rule_handler(ctx):
    R = "C18.5"
    ctx.rule(R, "the push_validator_addrs handler applies the received batch with the validator schedule of the current epoch")
    sites = []
    for f in ctx.F.fns:
        if f.in_testonly() or f.crate != NET:
            continue
        T = ctx.T(f)
        for c in T.calls():
            if (c["rq"] or c["q"]) == VAW + "::update":
                sites.append((f, T.args_of(c)))
    ctx.floor(R, "callers of ValidatorAddrsWatch::update", len(sites), 1)
    for f, a in sites:
        ok = any(x[0] == "call" and x[1].endswith("Network::validator_schedule") for x in subterms(a[1])) and \
            (chain(a[2])[1][-1:] == ["0"] or any(x[0] == "field" and x[2] == "0" and x[1][0] in ("param", "upvar", "var") for x in subterms(a[2])))
        ctx.ob(R, "handler arguments in %s" % root_fn(f).qname.split("::")[-1], ok, "update(&self.net.validator_schedule()?, &req.0)" if ok else "update called with (%s, %s)" % (show(a[1])[:80], show(a[2])[:40]), f.loc())
        # the batch a peer sent is applied whole, by one call: the duplicate-key check and the all-or-nothing publish of
        # ValidatorAddrsWatch::update cover exactly what is handed to one call
        b = a[2]
        VIEW = ("std::ops::Deref::deref", "std::vec::Vec::as_slice", "std::convert::AsRef::as_ref", "std::borrow::Borrow::borrow")
        while True:
            if b[0] == "call" and b[1] in VIEW and b[2]:
                b = b[2][0]
            elif b[0] == "call" and b[1] == "std::ops::Index::index" and len(b[2]) == 2 and b[2][1][0] == "agg" and "RangeFull" in str(b[2][1][1]):
                b = b[2][0]
            elif b[0] in ("ref", "deref"):
                b = b[1]
            else:
                break
        whole = b[0] == "field" and b[2] == "0" and b[1][0] in ("param", "upvar", "var")
        cfg = ctx.cfg(f, with_cancel=False)
        ubbs = [c["bb"] for c in ctx.T(f).calls() if (c["rq"] or c["q"]) == VAW + "::update"]
        in_loop = any(ub in cfg.reach_from([y for _, y in cfg.succ[ub]]) for ub in ubbs)
        okw = whole and len(ubbs) == 1 and not in_loop
        ctx.ob(R, "whole batch in one call (%s)" % root_fn(f).qname.split("::")[-1], okw, "the request's announcements are handed to update() whole, once" if okw else
               ("the received batch is applied piecewise (%s): a rejected request has already changed the address book, and a key repeated across pieces is not detected" %
                ("update() is called in a loop" if in_loop else "%d update() calls" % len(ubbs) if len(ubbs) != 1 else "argument %s is not the whole request" % show(a[2])[:60])), f.loc())


def _addr_from_book(ctx, t, is_peer, depth):
    """(good, fld): the Option<SocketAddr> term t is validator_addrs.get(<book>, <peer>) mapped to .msg.addr - as a
    map chain, as Some(<entry>.msg.addr) in a match arm, or through a small helper function doing one of these."""
    from engine.guards import Inliner

    def book_entry(x):
        if not (x[0] == "call" and x[1].endswith("ValidatorAddrs::get") and len(x[2]) == 2 and is_peer(x[2][1])):
            return False
        return any(y[0] == "call" and (y[1].endswith("sync::wait_for") or "watch::Receiver::borrow" in y[1] or y[1].endswith("::subscribe")) for y in subterms(x[2][0])) or x[2][0][0] in ("param", "upvar", "var")
    u = t
    while u[0] == "call" and u[1] in ("std::option::Option::copied", "std::option::Option::cloned") and u[2]:
        u = u[2][0]
    if u[0] == "call" and u[1] == "std::option::Option::map" and len(u[2]) == 2 and book_entry(u[2][0]) and u[2][1][0] == "closure":
        h = ctx.F.by_qname.get(u[2][1][1], [None])[0]
        rt = Inliner(ctx).ret_term(h) if h is not None else None
        return True, rt is not None and chain(rt)[1][-2:] == ["msg", "addr"]
    if u[0] == "agg" and u[2] == "Some" and u[3]:
        pay = u[3][0][1]
        while pay[0] == "call" and pay[1] in ("std::clone::Clone::clone",) and pay[2]:
            pay = pay[2][0]
        return any(book_entry(x) for x in subterms(pay)), chain(pay)[1][-2:] == ["msg", "addr"]
    if u[0] == "call" and u[1].startswith("zksync_") and depth < 2:
        # a helper: every value it returns is None or the book entry of the key it is given
        hs = ctx.F.by_qname.get(u[1]) or []
        if hs and any(is_peer(a) for a in u[2]):
            h = hs[0]
            kpos = [i for i, a in enumerate(u[2]) if is_peer(a)][0] + 1
            Th = ctx.T(h)
            RL = Q.ret_locals(h)
            res = []
            for b in h.blocks:
                for st in b["s"]:
                    if st["k"] == "assign" and not st["p"].get("pr") and st["p"]["l"] in RL:
                        if st["r"]["k"] == "use" and (st["r"]["o"].get("m") or st["r"]["o"].get("c") or {}).get("l") in RL and not (st["r"]["o"].get("m") or st["r"]["o"].get("c")).get("pr"):
                            continue
                        v = Th.rvalue(st["r"])
                        if v[0] == "agg" and v[2] == "None":
                            continue
                        res.append(_addr_from_book(ctx, v, lambda k: k[0] == "param" and k[1] == kpos, depth + 1))
                tt = b["t"]
                if tt["k"] == "call" and not tt["dest"].get("pr") and tt["dest"]["l"] in RL:
                    if "decl" in tt["f"] and h.callee(tt)[0].qname == "std::ops::FromResidual::from_residual":
                        continue
                    res.append(_addr_from_book(ctx, Th.call_term(tt), lambda k: k[0] == "param" and k[1] == kpos, depth + 1))
            if res:
                return all(g for g, _ in res), all(f2 for _, f2 in res)
    return False, False


def rule_dial_address(ctx):
    R = "C18.7"
    ctx.rule(R, "the address a validator is dialled at is the one stored in the address book under that validator's key: in consensus::Network::maintain_connection the address handed to run_outbound_stream(peer, addr) is only ever assigned from validator_addrs.get(peer).msg.addr - the entry of the very peer that is dialled, read from the gossip network's validator_addrs watch (the loopback connection uses the node's own configured address)")
    root = NET + "::consensus::Network::maintain_connection"
    fam = [f for f in ctx.F.fns if f.qname.startswith(root) and not f.in_testonly()]
    fam += [h for q, h in getattr(ctx.F, "helpers", {}).items() if q.startswith(root) and h not in fam]     # spliced into its only caller
    ctx.floor(R, "bodies of maintain_connection", len(fam), 2)
    dial = []
    for f in fam:
        T = ctx.T(f)
        for c in T.calls():
            if (c["rq"] or c["q"]).endswith("consensus::Network::run_outbound_stream"):
                dial.append((f, c, T.args_of(c)))
    ctx.floor(R, "dial sites (run_outbound_stream) in maintain_connection", len(dial), 1)
    for f, c, a in dial:
        if len(a) < 4:
            continue
        peer_t, addr_t = a[2], a[3]
        r = addr_t
        while r[0] in ("field", "downcast", "deref"):
            r = r[1]
        cell = r[1] if r[0] == "upvar" else None
        if cell is None:
            # a plain local: its term must itself be the address-book lookup
            writes = [(f, addr_t)]
        else:
            writes = []
            for g in fam:
                Tg = ctx.T(g)
                for b in g.blocks:
                    for st in b["s"]:
                        if st["k"] == "assign" and any(isinstance(e, dict) and e.get("n") == cell for e in st["p"].get("pr", [])) and "*" in st["p"].get("pr", []):
                            writes.append((g, Tg.rvalue(st["r"])))
        ok = bool(writes)
        why = []
        for g, t in writes:
            if t[0] == "agg" and t[2] == "None":
                continue
            if t[0] == "var":
                # the return place of a spliced helper: every non-None value it is given
                vs = [v for v in common.value_terms(g, ctx.T(g), t) if v is not t and v[0] != "var"]
                rs = [_addr_from_book(ctx, v, lambda k: k == peer_t, 0) for v in vs]
                good, fld = (bool(rs) and all(a for a, _ in rs)), (bool(rs) and all(b for _, b in rs))
            else:
                good, fld = _addr_from_book(ctx, t, lambda k: k == peer_t, 0)
            if not (good and fld):
                ok = False
                why.append(show(t)[:120])
        ctx.ob(R, "dialled address = address book entry of the dialled key", ok, "addr is assigned only from validator_addrs.get(peer).map(|x| x.msg.addr) with the peer that is dialled" if ok else
               "the address used to dial %s is not (only) the address-book entry of that validator: %s" % (show(peer_t)[:30], why[:2] or "no assignment found"), f.loc(c["t"].get("ln")))
    # the watch that is read is the gossip network's address book (maintain_connection may be spliced into its caller)
    subs = []
    for f in ctx.F.fns:
        if f.in_testonly() or not f.qname.startswith(NET + "::consensus::"):
            continue
        T = ctx.T(f)
        for c in T.calls():
            if c["q"].endswith("::subscribe") and "tracing" not in c["q"]:
                p = chain(T.args_of(c)[0])[1]
                if "validator_addrs" in p:
                    subs.append(p)
    if not subs:
        ctx.note("C18.7 source watch: no subscribe() on validator_addrs found in consensus:: - not decided")
    ctx.ob(R, "source watch", True, "the receiver is self.gossip.validator_addrs.subscribe()" if subs else "undecided shape (not reported)")


def rule_push_task(ctx):
    R = "C18.10"
    ctx.rule(R, "the per-connection push task: the state remembered as 'already sent to this peer' starts empty (the first push sends the whole book; the subscription is marked changed), and is only ever replaced by the very snapshot the sent difference was computed from - remembering anything newer (the live book) silently skips the announcements that arrived in between, and that peer never gets them")
    bodies = []
    for f in ctx.F.fns:
        if f.in_testonly() or f.crate != NET or "/gossip/" not in f.file:
            continue
        T = ctx.T(f)
        cs = T.calls()
        if any(c["q"].endswith("rpc::Client::call") and any("push_validator_addrs" in f.ty(i).s for i in c["t"]["f"].get("ga", [])) for c in cs):
            bodies.append(f)
    ctx.floor(R, "push_validator_addrs client tasks", len(bodies), 1)
    for f in bodies:
        T = ctx.T(f)
        olds = [l for l, ty in enumerate(f.locals) if ty.s == VA and any(d[0] == "c" and f.callee(f.blocks[d[1]]["t"])[0].qname.endswith("Default::default") for d in T.defs.get(l, []))]
        if len(olds) != 1:
            ctx.note("C18.10: the remembered state is not a ValidatorAddrs local initialised with Default (%d candidates) - not decided" % len(olds))
            ctx.ob(R, "remembered state", True, "undecided shape (not reported)", f.loc())
            continue
        old = olds[0]
        bad = []
        n = 0
        for d in T.defs.get(old, []):
            if d[0] == "c":
                continue
            st = f.blocks[d[1]]["s"][d[2]]
            if st["k"] != "assign":
                continue
            v = T.rvalue(st["r"])
            vs = common.value_terms(f, T, v)
            from_snapshot = any(x[0] == "call" and x[1].endswith("sync::changed") for u in vs for x in subterms(u))
            inside = set(id(y) for u in vs for x in subterms(u) if x[0] == "call" and x[1].endswith("sync::changed") for y in subterms(x))
            live = any(x[0] == "call" and (x[1].endswith("ValidatorAddrsWatch::current") or x[1].endswith("watch::Receiver::borrow") or x[1].endswith("::subscribe")) and id(x) not in inside for u in vs for x in subterms(u))
            n += 1
            if not from_snapshot or live:
                bad.append(show(v)[:80])
        ctx.ob(R, "remembered state := the snapshot the difference was computed from", not bad and n >= 1, "old = new (the value returned by sync::changed), %d assignment(s)" % n if not bad and n else
               ("the state remembered as sent is assigned from %s, not from the snapshot whose difference was sent: announcements that arrive between the snapshot and this read are never pushed to this peer" % bad[:2]) if bad else "the remembered state is never updated", f.loc())
        okm = any(c["q"].endswith("watch::Receiver::mark_changed") for c in T.calls())
        ctx.ob(R, "first push is unconditional", okm, "the subscription is marked changed before the loop (the whole book is pushed to a new peer)" if okm else "the subscription is not marked changed: a new peer gets nothing until the next announcement", f.loc())


def rule_get_newer(ctx):
    R = "C18.9"
    ctx.rule(R, "what a node pushes to a peer (ValidatorAddrs::get_newer(old)): an entry of the current book is sent exactly when the state last sent to that peer has no entry for the key or an older one (is_newer(current, old), strict) - sending less leaves peers on a stale address for good (nothing re-sends it), the comparison the other way round never propagates an update")
    q = VA + "::get_newer"
    fs = ctx.F.by_qname.get(q) or []
    h = fs[0] if fs else getattr(ctx.F, "helpers", {}).get(q)
    if h is None:
        ctx.ob(R, "get_newer", False, "ValidatorAddrs::get_newer not found (anchor missing)")
        return
    T = ctx.T(h)
    push = [c for c in T.calls() if c["q"].endswith(("Vec::push", "Vec::extend", "Vec::insert"))]
    if not push:
        ctx.note("C18.9 get_newer: no push loop (iterator chain or other form) - not decided")
        ctx.ob(R, "get_newer form", True, "undecided shape (not reported)", h.loc())
        return

    def a_old(t):
        return t[0] == "call" and t[1].endswith("HashMap::get") and len(t[2]) == 2 and chain(t[2][0])[0][0] == "param" and chain(t[2][0])[0][1] == 2

    def a_newer(t):
        return t[0] == "call" and t[1] == DISC + "::is_newer"
    atoms = [Atom("old entry", "opt", a_old, ["None", "Some"]), call_atom("newer", ["NetAddress::is_newer"])]
    if not (common.atom_is_tested_term(ctx, h, a_old) if hasattr(common, "atom_is_tested_term") else any((lambda si: si is not None and any(a_old(x) for x in subterms(si[0])))(T.switch_info(bb)) for bb in range(len(h.blocks)))):
        ctx.note("C18.9 get_newer: the lookup in the old state is not tested directly - not decided")
        ctx.ob(R, "get_newer form", True, "undecided shape (not reported)", h.loc())
        return
    head = loop_head(ctx, h, target=[c["bb"] for c in push])
    W = Walker(ctx, h, atoms)
    names, tab = W.table({"push": [c["bb"] for c in push]}, start=head if head is not None else 0)
    bad = []
    for (old, nw), reach in tab.items():
        exp = old == "None" or nw is True
        if ("push" in reach) != exp:
            bad.append(((old, nw), sorted(reach)))
    # ... and MUST be pushed then: with the push sites removed, the iteration cannot complete (no way back to the loop head)
    # when the old state has no entry or an older one - an additional skip condition (e.g. "same version") hides updates
    if head is not None and not bad:
        cfg = ctx.cfg(h, with_cancel=False)
        pbs = frozenset(c["bb"] for c in push)
        for val in ({"old entry": "None"}, {"old entry": "Some", "newer": True}):
            full = dict(val)
            full.setdefault("newer", True)
            r = W.reachable(full, head, pbs)
            back = [x for x in r if x != head and any(y == head for _, y in cfg.succ[x])] if len(r) > 1 else []
            # the first visit of the head itself is the start; a predecessor of the head inside the walked set is a completed iteration
            if back:
                bad.append(((val.get("old entry"), val.get("newer", "-")), ["iteration completes without push"]))
    ctx.ob(R, "entry table", not bad, "an entry is pushed iff the old state has none for its key or it is newer (4 valuations; must-push under the pushing rows)" if not bad else
           "get_newer deviates for (old entry, is_newer) = %s: %s" % (bad[:3], "updates are not propagated" if any(k[0] == "Some" and k[1] is True for k, _ in bad) else "entries the peer already has are re-sent / wrong entries selected"), h.loc())
    # operands: current.is_newer(old) - not the other way round
    ok = True
    why = ""
    for c in T.calls():
        if c["q"] == DISC + "::is_newer":
            a = T.args_of(c)
            cur_side = any(x[0] == "call" and x[1].endswith("Iterator::next") for x in subterms(a[0])) and not any(x[0] == "call" and x[1].endswith("HashMap::get") for x in subterms(a[0]))
            old_side = any(x[0] == "call" and x[1].endswith("HashMap::get") for x in subterms(a[1]))
            if not (cur_side and old_side):
                ok = False
                why = "is_newer(%s, %s)" % (show(a[0])[:50], show(a[1])[:50])
    ctx.ob(R, "comparison direction", ok, "current_entry.is_newer(old_entry)" if ok else "the comparison is not `current entry is newer than the old one`: %s" % why, h.loc())
    pv = [T.args_of(c)[1] for c in push if len(T.args_of(c)) > 1]
    okp = bool(pv) and all(any(x[0] == "call" and x[1].endswith("Iterator::next") for x in subterms(v)) and not any(x[0] == "call" and x[1].endswith("HashMap::get") for x in subterms(v)) for v in pv)
    ctx.ob(R, "pushed value", okp, "the pushed value is the current book's entry" if okp else "the value collected is not the current book's entry: %s" % [show(v)[:60] for v in pv][:2], h.loc())


def rule_announcement_codec(ctx):
    from .c09 import rule_codec_api
    rule_codec_api(ctx, R="C18.8", only=lambda t: t.endswith(("discovery::NetAddress", "net::SocketAddr", "time::Utc", "msg::Signed", "msg::Msg")), floor=5,
                   desc="the announcement travels unchanged: the decoders / encoders of NetAddress, its SocketAddr and timestamp, and of the signed envelope call only reviewed value-preserving conversions (tables/codec_api.json) - a decoder that normalises the address makes the receiver hash another message than the validator signed, so an authentic newer announcement fails verification, the whole batch is dropped and the node keeps dialling the old address")


RULES = [("C18.10", rule_push_task), ("C18.9", rule_get_newer), ("C18.8", rule_announcement_codec), ("C18.1", rule_update_table), ("C18.2", rule_all_or_nothing), ("C18.3", rule_order), ("C18.4", rule_writers), ("C18.5", rule_handler), ("C18.7", rule_dial_address)]
