"""Recognisers for hand-written fold loops (the explicit-loop counterparts of iterator chains). Each returns
("ok" | "wrong" | "unknown", text): `wrong` only when a recognised loop definitely computes something else;
`unknown` when the shape is not one of the recognised ones (callers do not raise an alarm on `unknown`)."""
from engine import query as Q
from engine.terms import show, subterms
from engine.guards import Atom, Walker
from .c07 import loop_head


def _opt_cells(f, T):
    """Option-typed locals assigned None somewhere and Some(..) somewhere else: {local: (none_blocks, some_blocks)}"""
    out = {}
    for bi, b in enumerate(f.blocks):
        for s in b["s"]:
            if s["k"] != "assign" or s["p"].get("pr"):
                continue
            l = s["p"]["l"]
            if l == 0 or not f.locals[l].s.startswith("std::option::Option<"):
                continue
            v = T.rvalue(s["r"])
            if v[0] == "agg" and v[1] == "std::option::Option":
                out.setdefault(l, ([], []))[0 if v[2] == "None" else 1].append(bi)
    return {l: v for l, v in out.items() if v[0] and v[1]}


def _returns_cell(f, l):
    if l in Q.ret_locals(f):
        return True
    return any(s["k"] == "assign" and s["p"]["l"] in Q.ret_locals(f) and not s["p"].get("pr") and s["r"]["k"] == "use" and
               (s["r"]["o"].get("c") or s["r"]["o"].get("m") or {}).get("l") == l for b in f.blocks for s in b["s"])


def unique_above_threshold_loop(ctx, f, is_weight, is_threshold):
    """`let mut cand = None; for (k, w) in tally { if w < t {continue}; if cand.is_some() {return None}; cand = Some(k) }; cand`
    i.e. Some(k) iff exactly one entry has w >= t."""
    T = ctx.T(f)
    cells = {l: v for l, v in _opt_cells(f, T).items() if _returns_cell(f, l)}
    if len(cells) != 1:
        return "unknown", "no single candidate cell (%d)" % len(cells)
    (cl, (nones, somes)), = cells.items()
    head = loop_head(ctx, f, target=somes)
    if head is None:
        return "unknown", "candidate is not assigned inside a loop"
    ret_none = [bi for bi, b in enumerate(f.blocks) for s in b["s"] if s["k"] == "assign" and s["p"]["l"] in Q.ret_locals(f) and s["p"]["l"] != cl and not s["p"].get("pr") and
                s["r"]["k"] == "agg" and s["r"].get("variant") == "None"]

    def m(a, b):
        if is_weight(a) and is_threshold(b):
            return 1
        if is_weight(b) and is_threshold(a):
            return -1
        return 0
    W = Walker(ctx, f, [Atom("candidate", "opt", lambda t: t[0] == "var" and t[1] == cl, ["None", "Some"]), Atom("cmp(weight,threshold)", "cmp", m, ["<", "=", ">"])])
    names, tab = W.table({"set": somes, "ret_none": ret_none}, start=head)
    exp = {("None", "<"): set(), ("Some", "<"): set(), ("None", "="): {"set"}, ("None", ">"): {"set"}, ("Some", "="): {"ret_none"}, ("Some", ">"): {"ret_none"}}
    bad = {k: sorted(v) for k, v in tab.items() if v != exp[k]}
    if not bad:
        return "ok", "loop keeps the unique entry with weight >= threshold: below the threshold nothing happens, the first qualifying entry is remembered, a second one returns None"
    # if no comparison was recognised every row reaches everything: that is an unknown shape, not a wrong one
    if all(v == {"set", "ret_none"} or v == {"set"} for v in tab.values()) and len(set(map(frozenset, tab.values()))) == 1:
        return "unknown", "threshold comparison not recognised in the loop"
    return "wrong", "per-entry behaviour by (candidate, weight vs threshold) is %s; specified %s" % (bad, {k: sorted(v) for k, v in exp.items() if k in bad})


def max_by_loop(ctx, f, is_cur_key, is_new_key):
    """`let mut best = None; for x in it { match best { Some(b) if key(b) > key(x) => {}, _ => best = Some(x) } }; best`"""
    T = ctx.T(f)
    cells = {l: v for l, v in _opt_cells(f, T).items() if _returns_cell(f, l)}
    if len(cells) != 1:
        return "unknown", "no single accumulator cell (%d)" % len(cells)
    (cl, (nones, somes)), = cells.items()
    head = loop_head(ctx, f, target=somes)
    if head is None:
        return "unknown", "accumulator is not assigned inside a loop"

    def has_cell(t):
        return any(x[0] == "var" and x[1] == cl for x in subterms(t))

    def m(a, b):
        if has_cell(a) and is_cur_key(a) and not has_cell(b) and is_new_key(b):
            return 1
        if has_cell(b) and is_cur_key(b) and not has_cell(a) and is_new_key(a):
            return -1
        return 0
    W = Walker(ctx, f, [Atom("best", "opt", lambda t: t[0] == "var" and t[1] == cl, ["None", "Some"]), Atom("cmp(best.key,x.key)", "cmp", m, ["<", "=", ">"])])
    names, tab = W.table({"take": somes}, start=head)
    if len(set(map(frozenset, tab.values()))) == 1:
        return "unknown", "key comparison not recognised in the loop"
    ok = all("take" in tab[("None", c)] for c in "<=>") and "take" in tab[("Some", "<")] and "take" not in tab[("Some", ">")]
    if ok:
        return "ok", "loop keeps an element with the maximal key (replaced when the held key is smaller%s)" % (" or equal" if "take" in tab[("Some", "=")] else "")
    return "wrong", "the accumulator is replaced under %s" % {k: sorted(v) for k, v in tab.items()}
