"""Recognisers for hand-written fold loops (the explicit-loop counterparts of iterator chains). Each returns
("ok" | "wrong" | "unknown", text): `wrong` only when a recognised loop definitely computes something else;
`unknown` when the shape is not one of the recognised ones (callers do not raise an alarm on `unknown`)."""
from engine import query as Q
from engine.terms import show, subterms
from engine.guards import Atom, Walker
from .c07 import loop_head


def _opt_cells(f, T):
    """Option-typed locals assigned None somewhere and Some(..) somewhere else: {local: (none_blocks, some_blocks)}"""
    out = {}
    for bi, b in enumerate(f.blocks):
        for s in b["s"]:
            if s["k"] != "assign" or s["p"].get("pr"):
                continue
            l = s["p"]["l"]
            if l == 0 or not f.locals[l].s.startswith("std::option::Option<"):
                continue
            v = T.rvalue(s["r"])
            if v[0] == "agg" and v[1] == "std::option::Option":
                out.setdefault(l, ([], []))[0 if v[2] == "None" else 1].append(bi)
    return {l: v for l, v in out.items() if v[0] and v[1]}


def _returns_cell(f, l):
    if l in Q.ret_locals(f):
        return True
    return any(s["k"] == "assign" and s["p"]["l"] in Q.ret_locals(f) and not s["p"].get("pr") and s["r"]["k"] == "use" and
               (s["r"]["o"].get("c") or s["r"]["o"].get("m") or {}).get("l") == l for b in f.blocks for s in b["s"])


def _loop_exit(ctx, f, head):
    """target block of the `None` arm of the switch that follows the Iterator::next call at `head`"""
    T = ctx.T(f)
    t = f.blocks[head]["t"]
    nb = t.get("t")
    if nb is None:
        return None
    si = T.switch_info(nb)
    if si is None:
        return None
    for tgt, labs in si[1].items():
        if "None" in labs:
            return tgt
    return None


def unique_above_threshold_loop(ctx, f, is_weight, is_threshold):
    """Some(k) iff exactly one entry has w >= t, written as a loop. Two templates are decided:
    A) `if w < t {continue}; if cand.is_some() {return None}; cand = Some(k)` ... `cand`
    B) `if w >= t {n += 1; cand = Some(k)}` ... `if n != 1 {return None}; cand`
    anything else is `unknown`."""
    T = ctx.T(f)
    cfg = ctx.cfg(f)
    cells = {l: v for l, v in _opt_cells(f, T).items() if _returns_cell(f, l)}
    if len(cells) != 1:
        return "unknown", "no single candidate cell (%d)" % len(cells)
    (cl, (nones, somes)), = cells.items()
    head = loop_head(ctx, f, target=somes)
    if head is None:
        return "unknown", "candidate is not assigned inside a loop"
    exit_bb = _loop_exit(ctx, f, head)
    ret_none = [bi for bi, b in enumerate(f.blocks) for s in b["s"] if s["k"] == "assign" and s["p"]["l"] in Q.ret_locals(f) and s["p"]["l"] != cl and not s["p"].get("pr") and
                s["r"]["k"] == "agg" and s["r"].get("variant") == "None"]
    in_loop = [b for b in ret_none if exit_bb is None or not cfg.dominates(exit_bb, b)]
    after = [b for b in ret_none if b not in in_loop]

    def m(a, b):
        if is_weight(a) and is_threshold(b):
            return 1
        if is_weight(b) and is_threshold(a):
            return -1
        return 0
    if in_loop:
        W = Walker(ctx, f, [Atom("candidate", "opt", lambda t: t[0] == "var" and t[1] == cl, ["None", "Some"]), Atom("cmp(weight,threshold)", "cmp", m, ["<", "=", ">"])])
        names, tab = W.table({"set": somes, "ret_none": in_loop}, start=head)
        exp = {("None", "<"): set(), ("Some", "<"): set(), ("None", "="): {"set"}, ("None", ">"): {"set"}, ("Some", "="): {"ret_none"}, ("Some", ">"): {"ret_none"}}
        bad = {k: sorted(v) for k, v in tab.items() if v != exp[k]}
        if not bad:
            return "ok", "loop keeps the unique entry with weight >= threshold: below the threshold nothing happens, the first qualifying entry is remembered, a second one returns None"
        if len(set(map(frozenset, tab.values()))) == 1:
            return "unknown", "threshold comparison not recognised in the loop"
        return "wrong", "per-entry behaviour by (candidate, weight vs threshold) is %s; specified %s" % (bad, {k: sorted(v) for k, v in exp.items() if k in bad})
    # template B: a counter of qualifying entries
    counters = {}
    for bi, b in enumerate(f.blocks):
        for s in b["s"]:
            if s["k"] == "assign" and not s["p"].get("pr") and f.locals[s["p"]["l"]].hk in ("uint", "int") or (s["k"] == "assign" and not s["p"].get("pr") and f.locals[s["p"]["l"]].s in ("usize", "u64", "u32", "i32", "u8", "u16")):
                v = T.rvalue(s["r"])
                from .c07 import norm_arith
                v = norm_arith(v)
                l = s["p"]["l"]
                if v == ("const", 0):
                    counters.setdefault(l, {"init": [], "inc": []})["init"].append(bi)
                elif v[0] == "bin" and v[1] == "Add" and ("const", 1) in (v[2], v[3]) and any(x[0] == "var" and x[1] == l for x in (v[2], v[3])):
                    counters.setdefault(l, {"init": [], "inc": []})["inc"].append(bi)
    counters = {l: c for l, c in counters.items() if c["init"] and c["inc"]}
    if not counters:
        # one candidate cell, assigned in the loop, no early return and no counter: if a qualifying entry overwrites an
        # already remembered one, two qualifying entries yield Some(last) instead of None
        W0 = Walker(ctx, f, [Atom("candidate", "opt", lambda t: t[0] == "var" and t[1] == cl, ["None", "Some"]), Atom("cmp(weight,threshold)", "cmp", m, ["<", "=", ">"])])
        names, tab0 = W0.table({"set": somes}, start=head)
        if len(set(map(frozenset, tab0.values()))) > 1 and "set" in tab0.get(("Some", ">"), set()) and not tab0.get(("Some", "<")) and not tab0.get(("None", "<")):
            return "wrong", "a second entry reaching the threshold overwrites the remembered one (no early `return None`, no count): with two qualifying entries the result is Some instead of None"
    if len(counters) != 1 or not after:
        return "unknown", "neither an early `return None` in the loop nor a counter of qualifying entries"
    (cn, cc), = counters.items()
    W = Walker(ctx, f, [Atom("cmp(weight,threshold)", "cmp", m, ["<", "=", ">"])])
    names, tab = W.table({"set": somes, "inc": cc["inc"]}, start=head)
    if len(set(map(frozenset, tab.values()))) == 1:
        return "unknown", "threshold comparison not recognised in the loop"
    exp = {("<",): set(), ("=",): {"set", "inc"}, (">",): {"set", "inc"}}
    bad = {k: sorted(v) for k, v in tab.items() if v != exp[k]}
    if bad:
        return "wrong", "per-entry behaviour by (weight vs threshold) is %s; specified: count and remember exactly the entries with weight >= threshold" % bad

    def mk(k):
        def mc(a, b):
            if a[0] == "var" and a[1] == cn and b == ("const", k):
                return 1
            if b[0] == "var" and b[1] == cn and a == ("const", k):
                return -1
            return 0
        return mc
    W2 = Walker(ctx, f, [Atom("count vs %d" % k, "cmp", mk(k), ["<", "=", ">"]) for k in (0, 1, 2)])
    ret_cell = [bi for bi, b in enumerate(f.blocks) for s in b["s"] if s["k"] == "assign" and s["p"]["l"] == 0 and s["r"]["k"] == "use" and (s["r"]["o"].get("c") or s["r"]["o"].get("m") or {}).get("l") == cl]
    if exit_bb is None:
        return "unknown", "loop exit not found"
    scen = {"0": {"count vs 0": "=", "count vs 1": "<", "count vs 2": "<"}, "1": {"count vs 0": ">", "count vs 1": "=", "count vs 2": "<"},
            "2": {"count vs 0": ">", "count vs 1": ">", "count vs 2": "="}, "3+": {"count vs 0": ">", "count vs 1": ">", "count vs 2": ">"}}
    res = {}
    for name, val in scen.items():
        r = W2.reachable(val, exit_bb)
        res[name] = set(n for n, bbs in (("none", after), ("cand", ret_cell)) if r & set(bbs))
    if len(set(map(frozenset, res.values()))) == 1:
        return "unknown", "comparison of the counter with a constant not recognised"
    if res["1"] == {"cand"} and all(res[k] == {"none"} for k in ("0", "2", "3+")):
        return "ok", "loop counts and remembers the entries with weight >= threshold; the remembered entry is returned iff the count is exactly 1"
    return "wrong", "result by number of qualifying entries: %s; specified: the entry iff exactly one" % {k: sorted(v) for k, v in res.items()}


def max_by_loop(ctx, f, is_cur_key, is_new_key):
    """`let mut best = None; for x in it { match best { Some(b) if key(b) > key(x) => {}, _ => best = Some(x) } }; best`"""
    T = ctx.T(f)
    cells = {l: v for l, v in _opt_cells(f, T).items() if _returns_cell(f, l)}
    if len(cells) != 1:
        return "unknown", "no single accumulator cell (%d)" % len(cells)
    (cl, (nones, somes)), = cells.items()
    head = loop_head(ctx, f, target=somes)
    if head is None:
        return "unknown", "accumulator is not assigned inside a loop"

    def has_cell(t):
        return any(x[0] == "var" and x[1] == cl for x in subterms(t))

    def m(a, b):
        if has_cell(a) and is_cur_key(a) and not has_cell(b) and is_new_key(b):
            return 1
        if has_cell(b) and is_cur_key(b) and not has_cell(a) and is_new_key(a):
            return -1
        return 0
    W = Walker(ctx, f, [Atom("best", "opt", lambda t: t[0] == "var" and t[1] == cl, ["None", "Some"]), Atom("cmp(best.key,x.key)", "cmp", m, ["<", "=", ">"])])
    names, tab = W.table({"take": somes}, start=head)
    if len(set(map(frozenset, tab.values()))) == 1:
        return "unknown", "key comparison not recognised in the loop"
    ok = all("take" in tab[("None", c)] for c in "<=>") and "take" in tab[("Some", "<")] and "take" not in tab[("Some", ">")]
    if ok:
        return "ok", "loop keeps an element with the maximal key (replaced when the held key is smaller%s)" % (" or equal" if "take" in tab[("Some", "=")] else "")
    return "wrong", "the accumulator is replaced under %s" % {k: sorted(v) for k, v in tab.items()}
