"""C17 — task scopes join every task, report a first failure and cancel the rest (structural mechanisms)."""
from . import common
from engine import query as Q
from engine.terms import show, subterms
from engine.guards import Atom, Walker, field_path, chain, Inliner

SC = "zksync_concurrency::scope"
SCOPE = SC + "::Scope"
STATE = SC + "::state::State"
TG = SC + "::state::TerminateGuard"
CG = SC + "::state::CancelGuard"
TASK = SC + "::task::Task"
PR = SC + "::task::PanicReporter"
ORP = SC + "::state::OrPanic"


def root_fn(f):
    while f.parent is not None:
        f = f.parent
    return f


def rule_join(ctx):
    R = "C17.1"
    ctx.rule(R, "Scope::run / run_blocking return (and defuse the must-complete guard) only after the root task was joined and the scope's `terminated` signal was awaited; the cancel guard is dropped before waiting")
    for q, blocking in ((SCOPE + "::run", False), (SCOPE + "::run_blocking", True)):
        f = ctx.body(q) if not blocking else ctx.fn(q)
        T = ctx.T(f)
        cfg = ctx.cfg(f, with_cancel=False)
        name = q.split("::")[-1]
        if blocking:
            waits = [c["bb"] for c in T.calls() if c["q"].endswith("ctx::block_on") and any(x[0] == "call" and x[1] == STATE + "::terminated" for x in subterms(T.args_of(c)[0]))]
            joins = [c["bb"] for c in T.calls() if c["q"].endswith("ctx::block_on") and any(x[0] == "call" and x[1].endswith("JoinHandle::join_raw") for x in subterms(T.args_of(c)[0]))]
            wait_done = [f.blocks[b]["t"]["t"] for b in waits if "t" in f.blocks[b]["t"]]
            join_done = [f.blocks[b]["t"]["t"] for b in joins if "t" in f.blocks[b]["t"]]
        else:
            e1 = [(bb, t) for bb in range(len(f.blocks)) for si in [T.switch_info(bb)] if si and si[0][0] == "discr" and si[0][1][0] == "call" and si[0][1][1] == "std::future::Future::poll"
                  and any(x[0] == "call" and x[1] == STATE + "::terminated" for x in subterms(si[0][1])) for t, labs in si[1].items() if labs == ["Ready"]]
            e2 = [(bb, t) for bb in range(len(f.blocks)) for si in [T.switch_info(bb)] if si and si[0][0] == "discr" and si[0][1][0] == "call" and si[0][1][1] == "std::future::Future::poll"
                  and any(x[0] == "call" and x[1].endswith("JoinHandle::join_raw") for x in subterms(si[0][1])) for t, labs in si[1].items() if labs == ["Ready"]]
            wait_done, join_done = e1, e2
        ctx.ob(R, "%s waits for termination" % name, bool(wait_done), "%d completed-wait point(s) on State::terminated" % len(wait_done), f.loc())
        take = [c["bb"] for c in T.calls() if c["q"] == STATE + "::take_err"]
        rets = cfg.returns()
        defuse = [c["bb"] for c in T.calls() if c["q"].endswith("must_complete::Guard::defuse")]
        sites = {"take_err": take, "return": rets}
        if not blocking:
            sites["must_complete.defuse"] = defuse
            ctx.ob(R, "%s must-complete guard" % name, bool(defuse), "run() holds a must_complete::Guard and defuses it explicitly", f.loc())
        for what, bbs in sites.items():
            if blocking:
                ok = bool(bbs) and all(cfg.must_pass_blocks(b, set(wait_done)) and cfg.must_pass_blocks(b, set(join_done)) for b in bbs)
            else:
                ok = bool(bbs) and all(cfg.must_pass(b, wait_done) and cfg.must_pass(b, join_done) for b in bbs)
            ctx.ob(R, "%s: %s after join and termination" % (name, what), ok, "%s is dominated by the completed join of the root task and the completed wait for `terminated`" % what if ok else
                   "%s can happen in %s before all tasks have terminated" % (what, name), f.loc())
        drops = [c["bb"] for c in T.calls() if c["q"] == "std::mem::drop" and any("CancelGuard" in f.ty(i).s for i in c["t"]["f"].get("ga", []))]
        first_wait = [b for b, _ in wait_done] if not blocking else waits
        okd = bool(drops) and all(cfg.must_pass_blocks(b, set(drops)) for b in first_wait)
        ctx.ob(R, "%s drops its cancel guard before waiting" % name, okd, "drop(guard) dominates the wait (the scope can terminate)" if okd else "the wait for termination is reachable while run() still holds the cancel guard", f.loc())


def rule_spawn_wrapping(ctx):
    R = "C17.2"
    ctx.rule(R, "every spawn method wraps the user future/closure in Task::run / Task::run_blocking of a task holding a guard; Task::run arms the PanicReporter before awaiting the user future and reports an Err result through set_err")
    for m, taskfn, runner in (("spawn", "main_task", "run"), ("spawn_bg", "bg_task", "run"), ("spawn_blocking", "main_task", "run_blocking"), ("spawn_bg_blocking", "bg_task", "run_blocking")):
        f = ctx.fn(SCOPE + "::" + m)
        T = ctx.T(f)
        low = [c for c in T.calls() if c["q"] in (SC + "::spawn", SC + "::spawn_blocking")]
        ok = len(low) == 1
        detail = ""
        if ok:
            a = T.args_of(low[0])[0]
            if runner == "run":
                ok = any(x[0] == "call" and x[1] == TASK + "::run" and x[2][0][0] == "call" and x[2][0][1] == SCOPE + "::" + taskfn and x[2][1][0] == "param" for x in subterms(a))
            else:
                cl = [x for x in subterms(a) if x[0] == "closure"]
                ok = False
                for c in cl:
                    g = ctx.F.by_qname.get(c[1], [None])[0]
                    if g is not None and any(cc["q"] == TASK + "::run_blocking" for cc in ctx.T(g).calls()):
                        ok = any(x[0] == "call" and x[1] == SCOPE + "::" + taskfn for x in c[2]) or any(x[0] == "call" and x[1] == SCOPE + "::" + taskfn for y in c[2] for x in subterms(y))
            detail = show(a)[:120]
        ctx.ob(R, "Scope::%s" % m, ok, "the spawned unit is Task::%s(self.%s(), f)" % (runner, taskfn) if ok else "Scope::%s does not wrap the user code in Task::%s of %s(): %s" % (m, runner, taskfn, detail), f.loc())
    # Task::run / run_blocking
    for q, is_async in ((TASK + "::run", True), (TASK + "::run_blocking", False)):
        f = ctx.body(q) if is_async else ctx.fn(q)
        T = ctx.T(f)
        cfg = ctx.cfg(f)
        new = [c["bb"] for c in T.calls() if c["q"] == PR + "::new"]
        defuse = [c["bb"] for c in T.calls() if c["q"] == PR + "::defuse"]
        if is_async:
            user = [bb for bb in range(len(f.blocks)) for t in [f.blocks[bb]["t"]] if t["k"] == "call" and "decl" in t["f"] and f.callee(t)[0].qname == "std::future::Future::poll"]
            done = [(bb, t) for bb in range(len(f.blocks)) for si in [T.switch_info(bb)] if si and si[0][0] == "discr" and si[0][1][0] == "call" and si[0][1][1] == "std::future::Future::poll" for t, labs in si[1].items() if labs == ["Ready"]]
        else:
            user = [c["bb"] for c in T.calls() if c["q"] == "std::ops::FnOnce::call_once"]
            done = [(b, f.blocks[b]["t"]["t"]) for b in user if "t" in f.blocks[b]["t"]]
        name = q.split("::")[-1]
        ok = bool(new) and bool(user) and all(cfg.must_pass_blocks(u, set(new)) for u in user)
        ctx.ob(R, "Task::%s arms the panic reporter first" % name, ok, "PanicReporter::new(self) dominates running the user code" if ok else "user code can run without an armed PanicReporter (a panic would not be recorded)", f.loc())
        ok = bool(defuse) and bool(done) and all(cfg.must_pass(d, done) for d in defuse)
        ctx.ob(R, "Task::%s defuses only after completion" % name, ok, "defuse() is dominated by the completion of the user code" if ok else "the PanicReporter can be defused before the user code finished", f.loc())
        # result table

        def is_res(t):
            return (t[0] == "await") or (t[0] == "call" and t[1] == "std::ops::FnOnce::call_once")
        W = Walker(ctx, f, [Atom("user result", "enum", is_res, ["Ok", "Err"])])
        se = [c["bb"] for c in T.calls() if c["q"] == TG + "::set_err"]
        names, tab = W.table({"set_err": se})
        ok = tab.get(("Ok",)) == set() and tab.get(("Err",)) == {"set_err"}
        ctx.ob(R, "Task::%s reports Err" % name, ok, "set_err is called exactly when the user code returned Err" if ok else "set_err reachability by user result: %s" % {k: sorted(v) for k, v in tab.items()}, f.loc())
        a = [T.args_of(c)[1] for c in T.calls() if c["q"] == TG + "::set_err"]
        ok = bool(a) and all(x[0] == "agg" and x[1] == ORP and x[2] == "Err" for x in a)
        ctx.ob(R, "Task::%s error kind" % name, ok, "set_err(OrPanic::Err(err))" if ok else "set_err argument: %s" % [show(x) for x in a], f.loc())
    d = ctx.fn("<%s as std::ops::Drop>::drop" % PR)
    T = ctx.T(d)
    a = [T.args_of(c)[1] for c in T.calls() if c["q"] == TG + "::set_err"]
    ok = bool(a) and all(x[0] == "agg" and x[2] == "Panic" for x in a)

    def is_t(t):
        return t[0] == "call" and t[1] == "std::option::Option::take"
    W = Walker(ctx, d, [Atom("task still held", "opt", is_t, ["None", "Some"])])
    names, tab = W.table({"set_err": [c["bb"] for c in T.calls() if c["q"] == TG + "::set_err"]})
    ok = ok and tab.get(("Some",)) == {"set_err"} and tab.get(("None",)) == set()
    ctx.ob(R, "PanicReporter::drop", ok, "dropping an armed PanicReporter records OrPanic::Panic; a defused one does nothing" if ok else "PanicReporter::drop does not record a panic exactly when still armed", d.loc())


def rule_who_spawns(ctx):
    R = "C17.3"
    ctx.rule(R, "who may spawn: the two unsafe lifetime-erasing spawn functions are called only by the four Scope spawn methods and wait_blocking; raw tokio spawns in the concurrency crate are confined to them, the ctx deadline watcher and Host::resolve")
    callers = {}
    for f in ctx.F.fns:
        if f.in_testonly() or f.crate != "zksync_concurrency":
            continue
        for c in ctx.T(f).calls():
            if c["q"] in (SC + "::spawn", SC + "::spawn_blocking"):
                callers.setdefault(c["q"].split("::")[-1], set()).add(root_fn(f).qname)
    exp = {"spawn": {SCOPE + "::spawn", SCOPE + "::spawn_bg"}, "spawn_blocking": {SCOPE + "::spawn_blocking", SCOPE + "::spawn_bg_blocking", SC + "::wait_blocking"}}
    for k, e in exp.items():
        got = callers.get(k, set())
        ctx.ob(R, "callers of unsafe %s" % k, got == e, "called only by %s" % sorted(x.split("::")[-1] for x in got) if got == e else "unsafe scope::%s is called by %s (allowed %s)" % (k, sorted(got), sorted(e)))
    raw = set()
    for f in ctx.F.fns:
        if f.in_testonly() or f.crate != "zksync_concurrency":
            continue
        for c in ctx.T(f).calls():
            if c["q"] in ("tokio::task::spawn::spawn", "tokio::task::blocking::spawn_blocking", "tokio::runtime::handle::Handle::spawn", "tokio::runtime::handle::Handle::spawn_blocking"):
                raw.add(root_fn(f).qname)
    allowed = {SC + "::spawn", SC + "::spawn_blocking", "zksync_concurrency::ctx::Ctx::child_with_clock", "zksync_concurrency::net::Host::resolve"}
    ctx.ob(R, "raw tokio spawns", raw <= allowed and len(raw) >= 3, "raw tokio spawns only in %s" % sorted(x.split("::")[-1] for x in raw) if raw <= allowed else "raw tokio spawn in %s" % sorted(raw - allowed))
    for n in ("spawn", "spawn_blocking"):
        f = ctx.fn(SC + "::" + n)
        ctx.ob(R, "scope::%s is private" % n, not f.reach, "not reachable from outside the crate (vis %s)" % f.vis if not f.reach else "unsafe scope::%s is exported" % n, f.loc())


def rule_set_err(ctx):
    R = "C17.4"
    ctx.rule(R, "set_err table (existing None/Err/Panic x new Err/Panic): the failure is stored iff none is recorded or a panic overrides a recorded error; the scope context is cancelled exactly when a failure is stored")
    f = ctx.fn(TG + "::set_err")
    T = ctx.T(f)

    def is_cur(t):
        return t[0] == "call" and t[1] == "std::result::Result::unwrap" and any(x[0] == "call" and x[1] == "std::sync::Mutex::lock" for x in subterms(t))

    def is_cur_kind(t):
        return t[0] == "field" and t[2] == "0" and t[1][0] == "downcast" and t[1][2] == "Some" and is_cur(t[1][1])

    def is_new(t):
        return common.is_p(t, common.pnames(f, "OrPanic"))
    atoms = [Atom("recorded", "opt", is_cur, ["None", "Some"]), Atom("recorded kind", "enum", is_cur_kind, ["Err", "Panic"]), Atom("new", "enum", is_new, ["Err", "Panic"])]
    W = Walker(ctx, f, atoms)
    store = []
    for bi, b in enumerate(f.blocks):
        if b.get("cleanup"):
            continue
        for s in b["s"]:
            if s["k"] == "assign" and s["p"].get("pr") and s["p"]["pr"][0] == "*":
                t = T.rvalue(s["r"])
                if t[0] == "agg" and t[2] == "Some" and any(is_new(x) for x in subterms(t)):
                    store.append(bi)
    cancel = [c["bb"] for c in T.calls() if c["q"].endswith("ctx::Ctx::cancel")]
    ctx.floor(R, "store sites", len(store), 1)
    ctx.floor(R, "cancel sites", len(cancel), 1)
    names, tab = W.table({"store": store, "cancel": cancel})
    seen = set()
    for (rec, kind, new), reach in sorted(tab.items()):
        if rec == "None":
            exp, key = True, "recorded=None new=%s" % new
        else:
            exp, key = (kind == "Err" and new == "Panic"), "recorded=%s new=%s" % (kind, new)
        if key in seen:
            continue
        seen.add(key)
        ok = (("store" in reach) == exp) and (("cancel" in reach) == exp)
        ctx.ob(R, "row %s" % key, ok, "%s" % ("stored and cancelled" if exp else "ignored") if ok else
               "with %s set_err reaches %s; specified: %s (a panic is never overwritten, an error is overwritten only by a panic)" % (key, sorted(reach), "store+cancel" if exp else "ignore"), f.loc())


def rule_set_err_atomic(ctx):
    R = "C17.8"
    ctx.rule(R, "set_err decides and records under ONE acquisition of the error mutex: the lock that is held while the recorded failure is inspected is still held when the new failure is stored (otherwise a task that fails because of the cancellation can overwrite the first failure)")
    f = ctx.fn(TG + "::set_err")
    T = ctx.T(f)
    cfg = ctx.cfg(f)
    locks = [c for c in T.calls() if c["q"] == "std::sync::Mutex::lock" and chain(T.args_of(c)[0])[1][-1:] == ["err"]]
    ctx.ob(R, "one lock acquisition", len(locks) == 1, "the err mutex is locked once in set_err" if len(locks) == 1 else
           "set_err locks the err mutex %d times: the check of the recorded failure and the store are not atomic - a later failure can replace the first one" % len(locks), f.loc())
    if len(locks) != 1:
        return
    guards = [l for l in range(len(f.locals)) if f.locals[l].s.startswith("std::sync::MutexGuard<")]
    stores = []
    for bi, b in enumerate(f.blocks):
        if b.get("cleanup"):
            continue
        for st in b["s"]:
            if st["k"] == "assign" and st["p"].get("pr") and st["p"]["pr"][0] == "*":
                t = T.rvalue(st["r"])
                if t[0] == "agg" and t[2] == "Some":
                    stores.append(bi)
    dropped_early = False
    for sb in stores:
        region = Q.region_between(cfg, [locks[0]["bb"]], sb)
        for bi in region:
            t = f.blocks[bi]["t"]
            if t["k"] == "drop" and not t["p"].get("pr") and t["p"]["l"] in guards and bi != sb:
                dropped_early = True
    ctx.ob(R, "guard held until the store", bool(stores) and not dropped_early, "the MutexGuard is not dropped between the inspection and the store" if stores and not dropped_early else
           "the err MutexGuard is released before the new failure is stored", f.loc())


def rule_error_before_cancel_guard(ctx):
    R = "C17.10"
    ctx.rule(R, "a failing main task records its error BEFORE it lets go of the scope's cancel guard: in Task::run / Task::run_blocking no value that holds the Arc<CancelGuard> (the Task itself, or the guard taken out of it) is dropped on a path that still leads to set_err. If the last main task dropped the guard first, CancelGuard::drop would cancel the scope outside the err mutex and a task failing only because of that cancellation could record its error first - the scope would report a consequence instead of the first failure")
    n = 0
    for q, is_async in ((TASK + "::run", True), (TASK + "::run_blocking", False)):
        f = ctx.body(q) if is_async else ctx.fn(q)
        T = ctx.T(f)
        cfg = ctx.cfg(f, with_cancel=False)
        se = [c["bb"] for c in T.calls() if c["q"] == TG + "::set_err"]
        if not se:
            continue
        n += 1
        holders = set(i for i, ty in enumerate(f.locals) if not ty.s.startswith("&") and "Weak<" not in ty.s and "PanicReporter" not in ty.s
                      and ("CancelGuard<" in ty.s or "scope::task::Task<" in ty.s))
        early = []
        for bi, b in enumerate(f.blocks):
            t = b["t"]
            if t["k"] == "drop" and not t["p"].get("pr") and t["p"]["l"] in holders and cfg.reachable[bi]:
                after = cfg.reach_from([y for _, y in cfg.succ[bi]])
                if any(x in after for x in se):
                    early.append((bi, f.locals[t["p"]["l"]].s.split("::")[-1][:40]))
        ctx.ob(R, "%s: cancel guard alive until the error is recorded" % q.split("::")[-1], not early, "no holder of the cancel guard is dropped before set_err" if not early else
               "a value holding the scope's cancel guard (%s) is dropped on a path that still reaches set_err: the scope can be cancelled - and another task's consequential error recorded - before this task's own error" % early[0][1], f.loc(f.blocks[early[0][0]]["t"].get("ln")) if early else f.loc())
    ctx.floor(R, "task runners recording errors", n, 2)


def rule_guards(ctx):
    R = "C17.5"
    ctx.rule(R, "guards: dropping the TerminateGuard sends `terminated` and dropping the CancelGuard cancels the scope context, on every path; dropping an undefused must-complete guard (a scope future abandoned before completion) aborts the process on every path")
    def always(d, suffix):
        """the call is made on every path through d that returns"""
        bbs = [c["bb"] for c in ctx.T(d).calls() if c["q"].endswith(suffix)]
        cfg = ctx.cfg(d, with_cancel=False)
        return bool(bbs) and all(cfg.must_pass_blocks(r, set(bbs)) for r in cfg.returns())
    d = ctx.fn("<%s as std::ops::Drop>::drop" % TG)
    ok = always(d, "signal::Once::send")
    ctx.ob(R, "TerminateGuard::drop", ok, "sends the terminated signal on every path" if ok else "TerminateGuard::drop does not (always) send `terminated`: Scope::run waits for that signal forever or returns without it", d.loc())
    d = ctx.fn("<%s as std::ops::Drop>::drop" % CG)
    ok = always(d, "ctx::Ctx::cancel")
    ctx.ob(R, "CancelGuard::drop", ok, "cancels the scope context on every path" if ok else "CancelGuard::drop does not (always) cancel the context: the scope is not cancelled when all main tasks have completed", d.loc())
    # the must-complete guard is what makes `scope::run!` non-droppable: a scope future dropped before completion - by
    # select!, by an aborted task, or by a panic unwinding through its owner - would leave the spawned tasks running
    # with nobody joining them. Its Drop therefore never returns: every path ends in process::abort.
    MC = "zksync_concurrency::scope::must_complete::Guard"
    d = ctx.fn("<%s as std::ops::Drop>::drop" % MC)
    cfg = ctx.cfg(d, with_cancel=False)
    aborts = [c["bb"] for c in ctx.T(d).calls() if c["q"] in ("std::process::abort", "std::intrinsics::abort")]
    rets = cfg.returns()
    ok = bool(aborts) and any(cfg.reachable[b] for b in aborts) and not rets
    ctx.ob(R, "must_complete::Guard::drop", ok, "dropping an undefused guard aborts the process unconditionally (the function has no returning path)" if ok else
           ("must_complete::Guard::drop can return without aborting (%d returning path(s)): a scope::run! future dropped on that path is left with its tasks still running and unjoined" % len(rets) if aborts else
            "must_complete::Guard::drop does not abort the process"), d.loc())
    run_guard = [f for f in ctx.F.fns if not f.in_testonly() and f.crate == "zksync_concurrency" and any(c["q"].endswith("must_complete::Guard::defuse") for c in ctx.T(f).calls())]
    ctx.floor(R, "functions holding a must-complete guard", len(run_guard), 1)
    # task kinds hold the right guard
    a = ctx.F.adts.get(TASK)
    if a:
        tys = {v["name"]: [a["_types"][x["t"]].s for x in v["fields"]] for v in a["variants"]}
        ok = "CancelGuard" in str(tys.get("Main")) and "TerminateGuard" in str(tys.get("Background"))
        ctx.ob(R, "Task variants", ok, "Main holds Arc<CancelGuard>, Background holds Arc<TerminateGuard>" if ok else "Task variants: %s" % tys)


def rule_signal_once(ctx):
    R = "C17.9"
    ctx.rule(R, "the one-shot signal every wait in the scope runtime rests on (`terminated`, context cancellation): created with no permit, fired only by closing the semaphore, awaited by an acquire that can only fail once closed, polled by is_closed - a signal that can be consumed, pre-fired or re-armed lets a scope return before its tasks did or hides a cancellation")
    ONCE = "zksync_concurrency::signal::Once"
    def body(q):
        fs = ctx.F.by_qname.get(q) or []
        return fs[0] if fs else getattr(ctx.F, "helpers", {}).get(q)
    n = 0
    mods = [g for g in list(ctx.F.fns) + list(getattr(ctx.F, "helpers", {}).values()) if (g.qname.startswith("zksync_concurrency::signal::") or g.qname.startswith("<zksync_concurrency::signal::")) and not g.in_testonly()]
    a = [(g, ctx.T(g).args_of(c)) for g in mods for c in ctx.T(g).calls() if c["q"].endswith("Semaphore::new") or c["q"].endswith("Semaphore::const_new")]
    ok = bool(a) and all(x[1] and x[1][0] == ("const", 0) for x in a)
    n += 1
    ctx.ob(R, "Once::new", ok, "the semaphore is created with zero permits (%d construction site(s))" % len(a) if ok else "the signal is not created with zero permits: %s" % [show(y) for x in a for y in x[1]], a[0][0].loc() if a else None)
    f = body(ONCE + "::send")
    if f is not None:
        qs = [c["q"] for c in ctx.T(f).calls()]
        ok = any(q.endswith("Semaphore::close") for q in qs) and not any(q.endswith(("Semaphore::add_permits", "Semaphore::forget_permits")) for q in qs)
        n += 1
        ctx.ob(R, "Once::send", ok, "closes the semaphore" if ok else "Once::send does not close the semaphore (calls: %s)" % qs, f.loc())
    f = body(ONCE + "::try_recv")
    if f is not None:
        t = Inliner(ctx).ret_term(f)
        ok = t is not None and t[0] == "call" and t[1].endswith("Semaphore::is_closed")
        n += 1
        ctx.ob(R, "Once::try_recv", ok, "is_closed()" if ok else "Once::try_recv = %s" % (show(t)[:80] if t is not None else None), f.loc())
    fs = [g for g in ctx.F.fns if g.qname.startswith(ONCE + "::cancel_safe_recv") and g.kind == "coroutine"]
    for g in fs:
        qs = [c["q"] for c in ctx.T(g).calls()]
        ok = any(q.endswith("Semaphore::acquire") for q in qs) and not any(q.endswith(("Semaphore::try_acquire", "Semaphore::is_closed")) for q in qs)
        n += 1
        ctx.ob(R, "Once::cancel_safe_recv", ok, "awaits acquire() (returns only once the semaphore is closed)" if ok else "the receive side does not await acquire(): %s" % qs, g.loc())
    # nobody else touches the semaphore: the field is private to the signal module, whose only items are these methods
    ad = ctx.F.adts.get(ONCE)
    vis = [fl.get("vis") for v in (ad or {}).get("variants", []) for fl in v["fields"]]
    okv = bool(vis) and all(v == "in:zksync_concurrency::signal" for v in vis)
    extra = sorted(set(c["q"].rsplit("::", 1)[-1] for g in ctx.F.fns if g.qname.startswith(("zksync_concurrency::signal::", "<zksync_concurrency::signal::")) and not g.in_testonly()
                       for c in ctx.T(g).calls() if "Semaphore::" in c["q"] and c["q"].rsplit("::", 1)[-1] not in ("new", "close", "acquire", "is_closed")))
    ctx.ob(R, "semaphore private to the signal", okv and not extra, "the semaphore is a private field of signal::Once; the module uses only new / close / acquire / is_closed on it" if okv and not extra else
           ("the signal's semaphore is visible outside the signal module (%s)" % vis if not okv else "the signal module also calls Semaphore::%s: permits can be added or consumed" % extra))
    ctx.floor(R, "signal::Once methods decided", n, 4)


def rule_result_mapping(ctx):
    R = "C17.7"
    ctx.rule(R, "result mapping (table): no recorded failure -> the root task's result; recorded error -> Err(that error); recorded panic -> panic re-raised")
    for q, is_async in ((SCOPE + "::run", True), (SCOPE + "::run_blocking", False)):
        f = ctx.body(q) if is_async else ctx.fn(q)
        T = ctx.T(f)

        def is_te(t):
            return t[0] == "call" and t[1] == STATE + "::take_err"

        def is_kind(t):
            return t[0] == "field" and t[2] == "0" and t[1][0] == "downcast" and t[1][2] == "Some" and is_te(t[1][1])
        W = Walker(ctx, f, [Atom("failure", "opt", is_te, ["None", "Some"]), Atom("kind", "enum", is_kind, ["Err", "Panic"])])
        oks = [bi for bi, b in enumerate(f.blocks) for s in b["s"] if s["k"] == "assign" and s["p"]["l"] in Q.ret_locals(f) and s["r"]["k"] == "agg" and s["r"].get("variant") == "Ok"]
        errs = [bi for bi, b in enumerate(f.blocks) for s in b["s"] if s["k"] == "assign" and s["p"]["l"] in Q.ret_locals(f) and s["r"]["k"] == "agg" and s["r"].get("variant") == "Err"]
        pan = [c["bb"] for c in T.calls() if c["q"] in ("std::panicking::panic_fmt", "std::panicking::panic", "std::rt::begin_panic")]
        names, tab = W.table({"ok": oks, "err": errs, "panic": pan})
        name = q.split("::")[-1]
        exp = {("None", "Err"): {"ok"}, ("None", "Panic"): {"ok"}, ("Some", "Err"): {"err"}, ("Some", "Panic"): {"panic"}}
        bad = {k: sorted(v) for k, v in tab.items() if v != exp[k]}
        ctx.ob(R, "%s result table" % name, not bad, "None -> Ok(root result); Some(Err) -> Err; Some(Panic) -> panic" if not bad else "%s result mapping deviates: %s" % (name, bad), f.loc())
        # Ok carries the root task's result, Err carries the recorded error
        okt = False
        for bi in oks:
            for s in f.blocks[bi]["s"]:
                if s["k"] == "assign" and s["p"]["l"] in Q.ret_locals(f) and s["r"]["k"] == "agg":
                    t = T.rvalue(s["r"])
                    okt = any(x[0] == "call" and x[1].endswith("JoinHandle::join_raw") for x in subterms(t))
        ctx.ob(R, "%s Ok payload" % name, okt, "Ok carries the joined root task's value" if okt else "Ok does not carry the root task's result", f.loc())


RULES = [("C17.1", rule_join), ("C17.2", rule_spawn_wrapping), ("C17.3", rule_who_spawns), ("C17.4", rule_set_err), ("C17.8", rule_set_err_atomic), ("C17.5", rule_guards), ("C17.10", rule_error_before_cancel_guard), ("C17.7", rule_result_mapping), ("C17.9", rule_signal_once)]
