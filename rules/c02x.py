"""C02 ingredient obligations that live in other properties' modules: the re-proposal rule is only as good as the
high votes the replicas report. The rule that pins what a replica records as its high vote belongs to C03 (the vote
recorded before the backup is the vote that is signed); it is run with C02 as well, so that a replica that keeps a
stale high vote (and therefore under-reports the payload it voted for last) is a C02 violation."""
from .c03 import rule_recorded_vote
# the sub-quorum the rule compares against is n-3f of the schedule's TOTAL weight (seed S6C02: Schedule::subquorum_threshold
# computed from the leaders' weight only)
from .c07 import rule_formulas
# ... and the high votes must actually be REPORTED: the ReplicaTimeout a replica signs carries its recorded high vote and
# highest commit certificate verbatim (seed S7C02: the vote withheld once a timeout certificate of its view exists)
from .c05 import rule_timeout_content

# ... and the recorded high vote must SURVIVE a restart: the durable write really happens for every backup (C03.2) and the restart
# restores what was stored (C03.12) - seed S10C02: EngineManager::set_state drops the write for a view it has already written
from .c03 import rule_backup_reaches_engine, rule_restore_passthrough

RULES = [("C03.6", rule_recorded_vote), ("C07.1", rule_formulas), ("C05.11", rule_timeout_content), ("C03.2", rule_backup_reaches_engine), ("C03.12", rule_restore_passthrough)]
