"""C14 — multiplexed streams are isolated, ordered and flow-controlled (structural mechanisms)."""
from engine import query as Q
from engine.terms import show, subterms
from engine.guards import Atom, Walker, field_path, chain, Inliner
from .c07 import loop_head
from . import common

NET = "zksync_consensus_network"
MUX = NET + "::mux::Mux"
RS = NET + "::mux::reusable_stream"
HDR = NET + "::mux::header"


def root_fn(f):
    while f.parent is not None:
        f = f.parent
    return f


def rule_permit_before_buffer(ctx):
    R = "C14.1"
    ctx.rule(R, "permit before buffer: in process_inbound_frames the allocation of `size` bytes, the read into it and the hand-over of a DATA frame are dominated by the acquisition of one count permit and `size` byte permits; OPEN/CLOSE frames are dominated by a count permit; every forwarded frame carries Some(permit)")
    f = ctx.body(MUX + "::process_inbound_frames")
    T = ctx.T(f)
    cfg = ctx.cfg(f)
    acq = [(c, T.args_of(c)) for c in T.calls() if c["q"].endswith("sync::acquire_many_owned")]
    ctx.floor(R, "semaphore acquisitions", len(acq), 3)

    def sem_of(a):
        s = show(a[1])
        return "size" if "read_buffer_size" in s else ("count" if "read_frame_count" in s else "?")
    e_count = Q.success_edges(ctx, f, lambda b: b[0] == "await" and b[1][0] == "call" and b[1][1].endswith("sync::acquire_many_owned") and "read_frame_count" in show(b[1][2][1]))
    e_size = Q.success_edges(ctx, f, lambda b: b[0] == "await" and b[1][0] == "call" and b[1][1].endswith("sync::acquire_many_owned") and "read_buffer_size" in show(b[1][2][1]))
    allocs = [c for c in T.calls() if c["q"].endswith("bytes::Buffer::new")]
    sends = [(c, T.args_of(c)) for c in T.calls() if c["q"].endswith("UnboundedSender::send") and any(f.ty(i).s.endswith("reusable_stream::Frame") for i in c["t"]["f"].get("ga", []))]
    ctx.floor(R, "buffer allocations", len(allocs), 1)
    ctx.floor(R, "frame hand-overs", len(sends), 2)
    # within one loop iteration: start from the header read
    for a in allocs:
        size = T.args_of(a)[0]
        ok = bool(e_size) and bool(e_count) and cfg.must_pass(a["bb"], e_size) and cfg.must_pass(a["bb"], e_count)
        ctx.ob(R, "allocation after permits", ok, "Buffer::new(size) is dominated by both permit acquisitions" if ok else "a receive buffer can be allocated before the byte/count permits for it were acquired", f.loc(a["t"].get("ln")))
        # the byte permits requested equal the allocated size
        sz_acq = [x for c, x in acq if sem_of(x) == "size"]
        oks = bool(sz_acq) and all(q[2][0] == "cast" and q[2][1] == size or q[2] == size for q in sz_acq)
        ctx.ob(R, "permit amount = buffer size", oks, "the byte permits acquired equal the size that is allocated and read" if oks else "byte permits %s vs allocated %s" % ([show(q[2]) for q in sz_acq], show(size)), f.loc())
        okm = size[0] == "call" and size[1] in ("std::cmp::min", "std::cmp::Ord::min") and any("read_frame_size" in show(x) for x in size[2])
        ctx.ob(R, "size bounded by read_frame_size", okm, "size = min(remaining, cfg.read_frame_size)" if okm else "allocated size term: %s" % show(size)[:100], f.loc())
    for c, a in sends:
        fr = a[1]
        d = dict(fr[3]) if fr[0] == "agg" else {}
        has_data = d.get("data", ("x",))[0] == "agg" and d["data"][2] == "Some"
        okp = d.get("_permit", ("x",))[0] == "agg" and d["_permit"][2] == "Some"
        ok = bool(e_count) and cfg.must_pass(c["bb"], e_count) and (not has_data or cfg.must_pass(c["bb"], e_size))
        ctx.ob(R, "hand-over of %s frame" % ("DATA" if has_data else "OPEN/CLOSE"), ok and okp,
               "dominated by the permit acquisition(s) and carries Some(permit) (released when the frame is consumed)" if ok and okp else
               "a frame is forwarded to a stream without holding its flow-control permit(s)", f.loc(c["t"].get("ln")))


def rule_config(ctx):
    R = "C14.2"
    ctx.rule(R, "semaphores are created from cfg.read_frame_count / cfg.read_buffer_size; Mux::run starts only after Config::verify succeeded; verify bounds the stream count and frame size")
    f = ctx.body(MUX + "::process_inbound_frames")
    T = ctx.T(f)
    sems = [show(T.args_of(c)[0]) for c in T.calls() if c["q"].endswith("Semaphore::new")]
    ok = len(sems) == 2 and any("read_frame_count" in s for s in sems) and any("read_buffer_size" in s for s in sems)
    ctx.ob(R, "semaphore capacities", ok, "Semaphore::new(cfg.read_frame_count), Semaphore::new(cfg.read_buffer_size)" if ok else "semaphores created with %s" % sems, f.loc())
    r = ctx.body(MUX + "::run")
    Tr = ctx.T(r)
    cfg = ctx.cfg(r)
    e = Q.success_edges(ctx, r, lambda b: b[0] == "call" and b[1] == MUX + "::verify")
    work = [c["bb"] for c in Tr.calls() if c["q"].endswith(("io::split", "scope::Scope::run", "frame::recv_proto", "frame::send_proto"))]
    ok = bool(e) and bool(work) and all(cfg.must_pass(b, e) for b in work)
    ctx.ob(R, "verify before run", ok, "all transport activity of Mux::run is dominated by verify() success" if ok else "Mux::run touches the transport without a verified configuration", r.loc())
    v = ctx.fn(MUX + "::verify")
    Tv = ctx.T(v)
    s = " ".join(c["q"] for c in Tv.calls())
    okv = "Config::verify" in s
    consts = set(x[1] for b in v.blocks for st in b["s"] if st["k"] == "assign" for x in subterms(Tv.rvalue(st["r"])) if x[0] == "cdef") | \
        set(x[1] for c in Tv.calls() for a in Tv.args_of(c) for x in subterms(a) if x[0] == "cdef")
    msc = ctx.F.const(NET + "::mux::config::MAX_STREAM_COUNT")
    nums = [x[1] for b in v.blocks for st in b["s"] if st["k"] == "assign" for x in subterms(Tv.rvalue(st["r"])) if x[0] == "const"]
    okc = any(k.endswith("MAX_STREAM_COUNT") for k in consts) or (msc is not None and nums.count(msc) >= 2)
    ctx.ob(R, "Mux::verify", okv and okc, "verify() checks Config::verify and the stream sums against MAX_STREAM_COUNT" if okv and okc else "Mux::verify does not check cfg.verify()/MAX_STREAM_COUNT (calls: %s)" % s[:120], v.loc())
    cv = ctx.fn(NET + "::mux::config::Config::verify")
    Tc = ctx.T(cv)

    def mk(field, const):
        def m(a, b):
            if chain(a)[1][-1:] == [field] and b[0] in ("cdef", "const"):
                return 1
            if chain(b)[1][-1:] == [field] and a[0] in ("cdef", "const"):
                return -1
            return 0
        return m
    atoms = [Atom("write_frame_size vs MAX_FRAME_SIZE", "cmp", mk("write_frame_size", 0), ["<", "=", ">"]), Atom("read_buffer_size vs MAX", "cmp", mk("read_buffer_size", 0), ["<", "=", ">"]),
             Atom("read_frame_count vs MAX", "cmp", mk("read_frame_count", 0), ["<", "=", ">"])]
    oks = [bi for bi, b in enumerate(cv.blocks) for st in b["s"] if st["k"] == "assign" and st["p"]["l"] == 0 and st["r"]["k"] == "agg" and st["r"].get("variant") == "Ok"]
    W = Walker(ctx, cv, atoms)
    names, tab = W.table({"ok": oks})
    bad = [k for k, v_ in tab.items() if "ok" in v_ and ">" in k]
    untested = [a.name for a in atoms if not common.atom_is_tested(ctx, cv, a.match)]
    if bad and untested:
        # the three comparisons are not written out in Config::verify (e.g. a loop over a table of (value, maximum) pairs):
        # the table cannot be evaluated for that form. The ingredients must still be there: every limit field and
        # every maximum is mentioned, and some comparison guards an error return.
        Tc2 = [ctx.T(g) for g in [cv] + common.family(ctx, cv, ("closure",))]
        flds = set(x[2] for T2 in Tc2 for b_ in T2.fn.blocks for st in b_["s"] if st["k"] == "assign" for x in subterms(T2.rvalue(st["r"])) if x[0] == "field")
        flds |= set(x[2] for T2 in Tc2 for c_ in T2.calls() for a_ in T2.args_of(c_) for x in subterms(a_) if x[0] == "field")
        have = {"write_frame_size", "read_buffer_size", "read_frame_count"} <= flds
        if have:
            ctx.note("C14.2 Config::verify: the limit checks are not written as three comparisons (%s not tested directly) - not decided" % untested)
            ctx.ob(R, "Config::verify bounds", True, "undecided shape (not reported)", cv.loc())
        else:
            ctx.ob(R, "Config::verify bounds", False, "Config::verify does not look at %s" % sorted({"write_frame_size", "read_buffer_size", "read_frame_count"} - flds), cv.loc())
    else:
        ctx.ob(R, "Config::verify bounds", not bad and bool(oks), "Ok is unreachable when any of the three sizes exceeds its maximum (27 valuations)" if not bad else "Config::verify accepts %s" % bad[:2], cv.loc())
    c = ctx.F.const(NET + "::mux::config::MAX_FRAME_SIZE")
    ctx.ob(R, "MAX_FRAME_SIZE", c == 65535, "MAX_FRAME_SIZE = %s (fits the u16 length prefix)" % c)


def stream_count_is_min(ctx, f):
    """The number of reusable streams created per capability (end of the `0..n` range of the creation loop) is
    min(local max_streams, peer limit or 0). Accepted shapes: a min() call of the two; or an n assigned on
    different paths, decided by a table over cmp(peer limit, local limit), with the peer limit being 0 when the
    peer announced nothing (table over the Option returned by the peer map lookup)."""
    T = ctx.T(f)
    LF = Q.LocalFlow(f)

    def is_get(t):
        return "decl" in t["f"] and f.callee(t)[0].qname.endswith(("HashMap::get", "BTreeMap::get"))

    def peer_local(l):
        return LF.derives_from_call_where(l, is_get)

    def term_peer(t):
        return any(x[0] == "call" and x[1].endswith(("HashMap::get", "BTreeMap::get")) for x in subterms(t)) or \
            any(x[0] == "var" and peer_local(x[1]) for x in subterms(t))

    def term_local(t):
        return not term_peer(t) and any(x[0] == "field" and x[2] == "max_streams" for x in subterms(t))
    ends = []
    for b in f.blocks:
        for st in b["s"]:
            if st["k"] == "assign" and st["r"]["k"] == "agg" and st["r"].get("def") == "std::ops::Range" and len(st["r"]["ops"]) == 2:
                ends.append(st["r"]["ops"][1])
    ends = [e for e in ends if any(term_peer(x) or term_local(x) for x in [T.operand(e)])]
    if len(ends) != 1:
        return False, "creation loop `0..n` with n derived from the limits not found (%d candidates)" % len(ends)
    n = T.operand(ends[0])
    # shape 1: min(local, peer.unwrap_or(0))
    if n[0] == "call" and n[1] in ("std::cmp::min", "std::cmp::Ord::min") and len(n[2]) == 2:
        a, b = n[2]
        for x, y in ((a, b), (b, a)):
            if term_local(x) and term_peer(y):
                dflt = [z for z in subterms(y) if z[0] == "call" and z[1] in ("std::option::Option::unwrap_or", "std::option::Option::map_or", "std::option::Option::unwrap_or_default")]
                zero = any((z[1].endswith("unwrap_or_default")) or any(w == ("const", 0) for w in subterms(z[2][1])) for z in dflt)
                return (bool(dflt) and zero), ("min(queue.max_streams, peer.get(cap).unwrap_or(0))" if dflt and zero else "min() of the limits, but an absent peer entry does not default to 0: %s" % show(y)[:80])
        return False, "min(%s, %s)" % (show(a)[:40], show(b)[:40])
    if n[0] == "call" and n[1] in ("std::cmp::max", "std::cmp::Ord::max"):
        return False, "max() of the limits"
    if n[0] != "var":
        return False, "n = %s" % show(n)[:80]
    # shape 2: n assigned on different paths
    nl = n[1]

    def defs_of(l, classify):
        out = {}
        for bi, b in enumerate(f.blocks):
            for st in b["s"]:
                if st["k"] == "assign" and not st["p"].get("pr") and st["p"]["l"] == l:
                    out.setdefault(classify(T.rvalue(st["r"])), []).append(bi)
        return out

    def cls_n(t):
        return "peer" if term_peer(t) else "local" if term_local(t) else "other:" + show(t)[:30]
    dn = defs_of(nl, cls_n)
    if set(dn) != {"peer", "local"}:
        return False, "n is assigned from %s" % sorted(dn)

    def m(a, b):
        if term_peer(a) and term_local(b):
            return 1
        if term_local(a) and term_peer(b):
            return -1
        return 0
    W = Walker(ctx, f, [Atom("cmp(peer,local)", "cmp", m, ["<", "=", ">"])])
    names, tab = W.table(dn)
    ok1 = tab.get(("<",)) == {"peer"} and tab.get((">",)) == {"local"} and tab.get(("=",)) and tab.get(("=",)) <= {"peer", "local"}
    if not ok1:
        return False, "n by order of (peer limit, local limit): %s" % {k[0]: sorted(v) for k, v in tab.items()}
    # the peer limit is 0 when the peer announced nothing
    pls = set(x[1] for bi in dn["peer"] for st in f.blocks[bi]["s"] if st["k"] == "assign" and st["p"]["l"] == nl for x in subterms(T.rvalue(st["r"])) if x[0] == "var" and peer_local(x[1]))
    for pl in pls:
        def cls_p(t):
            return "zero" if t == ("const", 0) else "announced" if term_peer(t) else "other:" + show(t)[:30]
        dp = defs_of(pl, cls_p)
        if set(dp) != {"zero", "announced"}:
            return False, "peer limit is assigned from %s" % sorted(dp)

        def a_get(t):
            return t[0] == "call" and t[1].endswith(("HashMap::get", "BTreeMap::get"))
        W2 = Walker(ctx, f, [Atom("announced", "opt", a_get, ["None", "Some"])])
        names, tab2 = W2.table(dp)
        if not (tab2.get(("None",)) == {"zero"} and tab2.get(("Some",)) == {"announced"}):
            return False, "peer limit by announcement: %s" % {k[0]: sorted(v) for k, v in tab2.items()}
    return True, "n = peer limit (0 if not announced) when it is smaller than queue.max_streams, else queue.max_streams (guard tables)"


def rule_stream_ids(ctx):
    R = "C14.3"
    ctx.rule(R, "stream-id partition: per capability min(local max_streams, peer's announced limit or 0) reusable streams, ids assigned consecutively from the running count")
    f = ctx.body(MUX + "::spawn_streams")
    T = ctx.T(f)
    ok, how = stream_count_is_min(ctx, f)
    if not ok and "not found" in how:
        # the creation loop may live in a closure of spawn_streams (iterator pipeline)
        for g in common.family(ctx, f, ("closure",)):
            ok2, how2 = stream_count_is_min(ctx, g)
            if ok2 or "not found" not in how2:
                ok, how = ok2, how2
                break
    ctx.ob(R, "stream count per capability", ok, how if ok else "per-capability stream count is not the minimum of both sides' limits: %s" % how, f.loc())
    ids = [T.args_of(c)[0] for c in T.calls() if c["q"] == HDR + "::StreamId::new"]
    def running_count(i):
        # streams.len() before the push, or the index handed out by enumerate() over the creation sequence
        if any(x[0] == "call" and x[1].endswith("Vec::len") for x in subterms(i)):
            return True
        return any(x[0] == "field" and x[2] == "0" and x[1][0] == "field" and x[1][2] == "0" and x[1][1][0] == "downcast" and x[1][1][2] == "Some"
                   and any(y[0] == "call" and y[1] == "std::iter::Iterator::enumerate" for y in subterms(x[1][1][1])) for x in subterms(i))
    ok = bool(ids) and all(running_count(i) for i in ids)
    ctx.ob(R, "consecutive ids", ok, "StreamId::new(<running count> as u16): ids are consecutive in creation order" if ok else "stream ids: %s" % [show(i) for i in ids], f.loc())
    # unknown stream id -> error, never an index
    p = ctx.body(MUX + "::process_inbound_frames")
    Tp = ctx.T(p)
    idx = [c for c in Tp.calls() if c["q"] in ("std::ops::Index::index", "std::ops::IndexMut::index_mut") and any("UnboundedSender" in p.ty(i).s for i in c["t"]["f"].get("ga", []))]
    gets = [c for c in Tp.calls() if c["q"] in ("[T]::get", "std::vec::Vec::get") or c["q"].endswith("::get") and "slice" in c["q"]]
    ctx.ob(R, "stream lookup is checked", not idx and bool(gets), "the stream table is accessed with get() and a protocol error on miss" if not idx and gets else "the stream table is indexed directly by the peer-supplied stream id", p.loc())


def _kind_switches(ctx, f):
    """[(bb, {label: target})] switches over the numeric frame kind: scrutinee = Header::frame_kind(..).0"""
    T = ctx.T(f)
    out = []
    for bb in range(len(f.blocks)):
        si = T.switch_info(bb)
        if si is None:
            continue
        scrut, edges = si
        mask = ctx.F.consts.get(HDR + "::FrameKind::MASK", {}).get("v")
        is_kind = any(x[0] == "call" and x[1] == HDR + "::Header::frame_kind" for x in subterms(scrut)) or \
            (scrut[0] == "bin" and scrut[1] == "BitAnd" and mask is not None and ("const", mask) in (scrut[2], scrut[3]))
        if not is_kind:
            continue
        labs = [l for ls in edges.values() for l in ls]
        if set(labs) <= {True, False}:
            # `kind == FrameKind::X` in an if / else-if chain: the true edge decides kind X, the false edge is "anything else"
            k = None
            sc = scrut
            neg = False
            while sc[0] == "un" and sc[1] == "Not":
                neg = not neg
                sc = sc[2]
            ops = sc[2] if sc[0] == "call" and sc[1] in ("std::cmp::PartialEq::eq", "std::cmp::PartialEq::ne") else ((sc[2], sc[3]) if sc[0] == "bin" and sc[1] in ("Eq", "Ne") else ())
            if sc[0] == "call" and sc[1].endswith("::ne") or sc[0] == "bin" and sc[1] == "Ne":
                neg = not neg
            for o in ops:
                if o[0] == "cdef" and "::FrameKind::" in o[1]:
                    k = o[1].rsplit("::", 1)[1]
                elif o[0] == "const":
                    k = o[1]
            if k is None:
                continue
            lab = {}
            for tgt, ls in edges.items():
                for l in ls:
                    lab[k if (l is True) != neg else "else"] = tgt
            out.append((bb, lab))
            continue
        lab = {}
        for tgt, ls in edges.items():
            for l in ls:
                lab[l] = tgt
        out.append((bb, lab))
    return out


def rule_frame_kind_dispatch(ctx):
    R = "C14.4"
    ctx.rule(R, "frame-kind dispatch (sibling agreement): the frame kinds for which process_inbound_frames forwards a frame to a stream are explicit match values - never the catch-all - and are a subset of the kinds the stream reader (ReadStream::read_exact) handles without reaching its `unreachable!`; this is the guard the reviewed panic site in read_exact relies on")
    f = ctx.body(MUX + "::process_inbound_frames")
    T = ctx.T(f)
    cfg = ctx.cfg(f)
    sends = [c["bb"] for c in T.calls() if c["q"].endswith("UnboundedSender::send") and any(f.ty(i).s.endswith("reusable_stream::Frame") for i in c["t"]["f"].get("ga", []))]
    ctx.floor(R, "frame hand-over sites in process_inbound_frames", len(sends), 2)
    sw = _kind_switches(ctx, f)
    if not sw:
        ctx.note("C14.4: the dispatcher does not switch on the numeric frame kind (e.g. an if/else chain of == tests) - not decided")
        ctx.ob(R, "dispatch switch", True, "undecided shape (not reported): no switch over Header::frame_kind(..).0", f.loc())
        return
    # a test of the kind that only runs inside an explicit arm of another kind switch (e.g. to pick a metric label for
    # OPEN vs CLOSE) refines an already assigned kind: its catch-all is not "an unassigned kind" - such switches are not
    # dispatch points
    def nested(bb0):
        for bb1, lab1 in sw:
            if bb1 == bb0:
                continue
            for l1, tgt1 in lab1.items():
                if l1 != "else" and set(p for _, p in cfg.pred[tgt1]) == {bb1} and tgt1 != bb0 and cfg.dominates(tgt1, bb0) and not any(l2 == "else" and t2 == tgt1 for l2, t2 in lab1.items()):
                    return True
        return False
    sw = [(bb, lab) for bb, lab in sw if not nested(bb)]
    forwarded = set()
    sw_blocks = frozenset(bb for bb, _ in sw)     # an if / else-if chain is several switches: a label counts where it is decided
    for bb, lab in sw:
        for l, tgt in lab.items():
            if tgt in sw_blocks:
                continue
            if set(sends) & cfg.reach_from([tgt], avoid_blocks=sw_blocks):
                forwarded.add(l)
    ok1 = "else" not in forwarded
    ctx.ob(R, "unassigned kinds are not forwarded", ok1, "only explicit kind values %s lead to a frame hand-over; every other value is rejected" % sorted(x for x in forwarded if x != "else") if ok1 else
           "a frame header with an unassigned frame kind (catch-all arm) is forwarded to a stream; the reader treats such a kind as unreachable and panics", f.loc())
    # the reader side
    rs = [g for g in ctx.F.fns if g.qname.endswith("transient_stream::ReadStream::read_exact") or (g.parent is not None and root_fn(g).qname.endswith("transient_stream::ReadStream::read_exact"))]
    accepted = None
    for g in rs:
        Tg = ctx.T(g)
        cg = ctx.cfg(g)
        pan = [c["bb"] for c in Tg.calls() if c["q"] in ("std::panicking::panic", "std::panicking::panic_fmt")]
        for bb, lab in _kind_switches(ctx, g):
            accepted = set(l for l, tgt in lab.items() if not (set(pan) & cg.reach_from([tgt], avoid_blocks=frozenset([bb]))))
    if accepted is None:
        ctx.note("C14.4: the reader does not switch on the numeric frame kind - sibling comparison not decided")
        ctx.ob(R, "forwarded kinds are handled by the reader", True, "undecided shape (not reported)", f.loc())
        return
    # payload presence: where the reader unwraps frame.data, the dispatcher built the frame with data: Some(..)
    def data_variant(bb):
        for x in subterms(T.call_term(f.blocks[bb]["t"])):
            if x[0] == "agg" and x[1].endswith("reusable_stream::Frame"):
                d = dict(x[3]).get("data")
                if d is not None and d[0] == "agg" and d[1] == "std::option::Option":
                    return d[2]
        return None
    sent_data = {}
    for bb, lab in sw:
        for l, tgt in lab.items():
            if tgt in sw_blocks:
                continue
            r = cfg.reach_from([tgt], avoid_blocks=sw_blocks)
            sent_data.setdefault(l, set()).update(data_variant(b) for b in sends if b in r)
    needs_data = set()
    for g in rs:
        Tg = ctx.T(g)
        cg = ctx.cfg(g)
        unw = [c["bb"] for c in Tg.calls() if c["q"] in ("std::option::Option::unwrap", "std::option::Option::expect") and any(x[0] == "field" and x[2] == "data" for x in subterms(Tg.args_of(c)[0]))]
        for bb, lab in _kind_switches(ctx, g):
            for l, tgt in lab.items():
                if set(unw) & cg.reach_from([tgt], avoid_blocks=frozenset([bb])):
                    needs_data.add(l)
    badd = sorted(str(l) for l in needs_data if sent_data.get(l, set()) - {"Some"})
    ctx.ob(R, "frames the reader unwraps carry data", not badd, "for kind(s) %s the reader unwraps frame.data and the dispatcher always builds Frame{data: Some(..)}" % sorted(map(str, needs_data)) if not badd else
           "for frame kind(s) %s ReadStream::read_exact unwraps frame.data but process_inbound_frames can forward a frame without data" % badd, f.loc())
    if forwarded and accepted and set(map(type, forwarded - {"else"})) != set(map(type, accepted - {"else"})):
        ctx.note("C14.4: the dispatcher names the kinds (%s) and the reader switches on their numeric values (%s) - subset not compared" % (sorted(map(str, forwarded)), sorted(map(str, accepted))))
        ctx.ob(R, "forwarded kinds are handled by the reader", True, "undecided shape (not reported): kinds are tested by name on one side and by value on the other", f.loc())
        return
    extra = sorted(str(x) for x in forwarded - accepted)
    ctx.ob(R, "forwarded kinds are handled by the reader", not extra, "forwarded kinds %s are all handled by ReadStream::read_exact (%s)" % (sorted(map(str, forwarded)), sorted(map(str, accepted))) if not extra else
           "process_inbound_frames forwards frame kind(s) %s that ReadStream::read_exact treats as unreachable" % extra, f.loc())


def rule_cancel_safe_flush(ctx):
    R = "C14.9"
    ctx.rule(R, "cancel-safe flush: in WriteReusableStream::send_data the pending bytes leave the per-stream buffer (mem::replace / take) only when the frame can be handed over without waiting: between taking the buffer and the hand-over there is no await (cancellation point) and no other exit - otherwise a timed-out flush silently loses bytes the writer already accepted")
    f = ctx.body(RS + "::WriteReusableStream::send_data")
    T = ctx.T(f)
    cfg = ctx.cfg(f)
    takes = [c["bb"] for c in T.calls() if c["q"] in ("std::mem::replace", "std::mem::take", "std::mem::swap") and any(chain(a)[1][-1:] == ["buffer"] for a in T.args_of(c))]
    hands = [c["bb"] for c in T.calls() if c["q"].rsplit("::", 1)[-1] in ("send", "try_send") and any(x[0] == "agg" and x[1].endswith("WriteCommand") for a in T.args_of(c) for x in subterms(a))]
    ctx.floor(R, "buffer take sites in send_data", len(takes), 1)
    ctx.floor(R, "frame hand-over sites in send_data", len(hands), 1)
    for tb in takes:
        nxt = [y for _, y in cfg.succ[tb]]
        r = cfg.reach_from(nxt, avoid_blocks=frozenset(hands))
        susp = sorted(b for b in r if f.blocks[b]["t"]["k"] == "yield")
        rets = sorted(set(cfg.returns()) & r)
        ok = not susp and not rets
        ctx.ob(R, "no suspension or exit between take and hand-over", ok, "after the buffer is taken the frame is handed to the writer without an await or early return" if ok else
               "after the pending bytes were taken out of the buffer send_data can %s before the frame is handed over: a cancelled/timed-out flush drops bytes that write_all already accepted" % ("suspend (await)" if susp else "return"), f.loc())


def rule_write_order(ctx):
    R = "C14.10"
    ctx.rule(R, "no accepted byte is left behind or overtaken: send_close hands the buffered bytes over (send_data succeeded) before the CLOSE frame; WriteStream::flush does so before notifying the flusher; write_all pushes into a full buffer only after send_data succeeded; send_data returns early only when the buffer is empty and the frame it sends carries the buffer that was taken")
    is_sd = lambda b: b[0] == "await" and b[1][0] == "call" and b[1][1].endswith("WriteReusableStream::send_data")
    # send_close / flush: the later step is dominated by send_data's success
    for q, what, later in ((RS + "::WriteReusableStream::send_close", "the CLOSE frame", lambda c, g, T: c["q"].rsplit("::", 1)[-1] in ("send", "try_send") and any(x[0] == "agg" and x[1].endswith("WriteCommand") for a in T.args_of(c) for x in subterms(a))),
                           (NET + "::mux::transient_stream::WriteStream::flush", "the flush notification", lambda c, g, T: c["q"].endswith("Notify::notify_one"))):
        l = ctx.F.by_qname.get(q, [])
        if not l:
            if what == "the flush notification":
                ctx.note("C14.10: WriteStream::flush not present (it is dead code today) - skipped")
                continue
            ctx.ob(R, "anchor %s" % q.rsplit("::", 1)[-1], False, "anchor missing: %s" % q)
            continue
        g = ctx.body(q)
        T = ctx.T(g)
        cfg = ctx.cfg(g)
        e = Q.success_edges(ctx, g, is_sd)
        sites = [c for c in T.calls() if later(c, g, T)]
        ok = bool(e) and bool(sites) and all(cfg.must_pass(c["bb"], e) for c in sites)
        ctx.ob(R, "%s: buffered bytes first" % q.rsplit("::", 1)[-1], ok, "%s is dominated by the success of send_data" % what if ok else
               "%s can be sent although the buffered bytes were not handed over (send_data missing / not awaited / result ignored): bytes the writer accepted are lost or arrive after the end of the stream" % what, g.loc())
    # write_all: per iteration, a full buffer is flushed before more is pushed
    g = ctx.body(NET + "::mux::transient_stream::WriteStream::write_all")
    T = ctx.T(g)
    cfg = ctx.cfg(g)

    m_cap = common.buffer_full_matcher(NET + "::noise::bytes::Buffer")
    W = Walker(ctx, g, [Atom("cmp(capacity,0)", "cmp", m_cap, ["=", ">"])])
    pushes = [c["bb"] for c in T.calls() if c["q"].endswith("bytes::Buffer::push")]
    e = Q.success_edges(ctx, g, is_sd)
    ctx.floor(R, "push sites in write_all", len(pushes), 1)
    caps = [c["bb"] for c in T.calls() if c["q"].endswith("bytes::Buffer::capacity")] or [min(pushes)] if pushes else []
    if pushes and caps:
        head = min(caps)
        r_full = W.reachable({"cmp(capacity,0)": "="}, head, frozenset(), frozenset(e))
        ok = bool(e) and not (set(pushes) & r_full)
        r_free = W.reachable({"cmp(capacity,0)": ">"}, head)
        ok2 = bool(set(pushes) & r_free)
        if not ok and e and not common.atom_is_tested(ctx, g, m_cap):
            ctx.note("C14.10 full-buffer test of write_all not recognised - not decided")
            ok = True
        ctx.ob(R, "write_all: full buffer flushed before push", ok and ok2, "with capacity() == 0 push is reached only through the success of send_data; with room left it is reached directly" if ok and ok2 else
               "write_all can push into a full buffer without send_data having succeeded (the loop makes no progress / bytes are dropped)" if not ok else "write_all never pushes when the buffer has room", g.loc())
    else:
        ctx.ob(R, "write_all: full buffer flushed before push", False, "capacity test or push not found in write_all", g.loc())
    # send_data: early return only on an empty buffer; the frame carries the taken buffer
    g = ctx.body(RS + "::WriteReusableStream::send_data")
    T = ctx.T(g)
    cfg = ctx.cfg(g)

    def m_len(a, b):
        def ln(t):
            return any(x[0] == "call" and x[1].endswith("bytes::Buffer::len") for x in subterms(t))
        if ln(a) and b == ("const", 0):
            return 1
        if ln(b) and a == ("const", 0):
            return -1
        return 0
    W = Walker(ctx, g, [Atom("cmp(len,0)", "cmp", m_len, ["=", ">"])])
    hands = [c["bb"] for c in T.calls() if c["q"].rsplit("::", 1)[-1] in ("send", "try_send") and any(x[0] == "agg" and x[1].endswith("WriteCommand") for a in T.args_of(c) for x in subterms(a))]
    oks = [bi for bi, b in enumerate(g.blocks) for st in b["s"] if st["k"] == "assign" and st["p"]["l"] in Q.ret_locals(g) and not st["p"].get("pr") and st["r"]["k"] == "agg" and st["r"].get("variant") == "Ok"]
    r_nonempty = W.reachable({"cmp(len,0)": ">"}, 0, frozenset(hands))
    ok = bool(hands) and bool(oks) and not (set(oks) & r_nonempty)
    ctx.ob(R, "send_data: success means handed over", ok, "with a non-empty buffer Ok is returned only after the frame was handed to the writer task" if ok else
           "send_data can return Ok with a non-empty buffer without handing the frame over", g.loc())
    datas = []
    for c in T.calls():
        if c["bb"] in hands:
            for a in T.args_of(c):
                for x in subterms(a):
                    if x[0] == "agg" and x[1].endswith("reusable_stream::Frame"):
                        datas.append(dict(x[3]).get("data"))
    okd = bool(datas) and all(d is not None and any(y[0] == "call" and y[1] in ("std::mem::replace", "std::mem::take") and any(chain(z)[1][-1:] == ["buffer"] for z in y[2]) for y in subterms(d)) for d in datas)
    ctx.ob(R, "send_data: the frame carries the taken buffer", okd, "Frame.data = Some(mem::replace(&mut self.buffer, fresh))" if okd else "the DATA frame does not carry the bytes taken out of the stream buffer: %s" % [show(d)[:80] if d else None for d in datas], g.loc())


def rule_drop_order(ctx):
    R = "C14.5"
    ctx.rule(R, "drop order: in Frame, `data` is declared before `_permit` (the buffer is freed before its permits are returned)")
    flds = [n for n, _ in ctx.F.adt_fields(RS + "::Frame")]
    ok = "data" in flds and "_permit" in flds and flds.index("data") < flds.index("_permit")
    ctx.ob(R, "Frame field order", ok, "Frame fields: %s" % flds if ok else "Frame declares _permit before data: permits would be released while the buffer is still allocated (%s)" % flds)


def rule_one_transient(ctx):
    R = "C14.6"
    ctx.rule(R, "one transient stream at a time (per loop iteration of ReusableStream::run): handing out a new Stream is dominated by re-acquiring the write half, send_close for the previous stream, the limiter permit, the reservation and the OPEN exchange (send_open and the joined recv_open task)")
    top = ctx.fn(RS + "::ReusableStream::run")
    fam = [g for g in ctx.F.fns if g.kind == "coroutine" and root_fn(g) is top]
    body = [g for g in fam if any(c["q"].endswith("oneshot::Sender::send") for c in ctx.T(g).calls()) and any(c["q"].endswith("limiter::Limiter::acquire") for c in ctx.T(g).calls())]
    ctx.floor(R, "stream loop body", len(body), 1)
    if not body:
        return
    f = body[0]
    T = ctx.T(f)
    cfg = ctx.cfg(f)
    hand = [c for c in T.calls() if c["q"].endswith("oneshot::Sender::send") and any(f.ty(i).s.endswith("transient_stream::Stream") for i in c["t"]["f"].get("ga", []))]
    ctx.floor(R, "hand-over sites", len(hand), 1)
    steps = {"write half re-acquired": lambda b: b[0] == "await" and b[1][0] == "call" and b[1][1].endswith("ExclusiveLockReceiver::wait"),
             "send_close": lambda b: b[0] == "await" and b[1][0] == "call" and b[1][1].endswith("WriteReusableStream::send_close"),
             "limiter permit": lambda b: b[0] == "await" and b[1][0] == "call" and b[1][1].endswith("limiter::Limiter::acquire"),
             "reservation": lambda b: b[0] == "await" and b[1][0] == "call" and b[1][1].endswith("StreamQueue::push"),
             "send_open": lambda b: b[0] == "await" and b[1][0] == "call" and b[1][1].endswith("WriteReusableStream::send_open"),
             "recv_open joined": lambda b: b[0] == "await" and b[1][0] == "call" and b[1][1].endswith("JoinHandle::join")}
    head = None
    for c in T.calls():
        if c["q"].endswith("scope::Scope::spawn"):
            head = c["bb"] if head is None else min(head, c["bb"])
    for h in hand:
        for name, pred in steps.items():
            e = Q.success_edges(ctx, f, pred)
            # per iteration: every path from the iteration start (spawn of the recv_open task) to the hand-over passes a success edge
            if head is not None:
                r = cfg.reach_from([head], avoid_edges=frozenset(e))
                if h["bb"] in r:
                    r = cfg.reach_from_sensitive([head], avoid_edges=frozenset(e))
                ok = bool(e) and h["bb"] not in r
            else:
                ok = bool(e) and cfg.must_pass(h["bb"], e)
            ctx.ob(R, "hand-over after %s" % name, ok, "dominated within the iteration by the success of %s" % name if ok else "a new transient stream can be handed out without %s having completed in this iteration" % name, f.loc(h["t"].get("ln")))
    # order of OPEN exchange differs by stream kind; both arms contain push before send_open
    # the recv_open task re-acquires the read half and waits for OPEN
    tasks = [g for g in fam if any(c["q"].endswith("ReadReusableStream::recv_open") for c in ctx.T(g).calls())]
    ok = bool(tasks) and all(any(c["q"].endswith("ExclusiveLockReceiver::wait") for c in ctx.T(g).calls()) for g in tasks)
    ctx.ob(R, "recv_open task", ok, "the spawned task waits for the read half (previous stream dropped) and then for the peer's OPEN" if ok else "recv_open task shape not recognised", top.loc())


def rule_reader(ctx):
    R = "C14.7"
    ctx.rule(R, "reader: recv_open discards the cached partial frame and clears close_received before waiting for OPEN; read_exact stops at CLOSE and caches only a partially consumed DATA frame")
    f = ctx.body(RS + "::ReadReusableStream::recv_open")
    T = ctx.T(f)
    cfg = ctx.cfg(f, with_cancel=False)
    clear = [c["bb"] for c in T.calls() if c["q"] == "std::option::Option::take" and chain(T.args_of(c)[0])[1][-1:] == ["cache"]]
    for bi, b in enumerate(f.blocks):
        for s in b["s"]:
            if s["k"] == "assign" and [e.get("n") for e in s["p"].get("pr", []) if isinstance(e, dict)] == ["cache"]:
                t = T.rvalue(s["r"])
                if t[0] == "agg" and t[2] == "None":
                    clear.append(bi)
    waits = [c["bb"] for c in T.calls() if c["q"].endswith("UnboundedReceiver::recv")]
    rets = cfg.returns()
    ok = bool(clear) and all(cfg.must_pass_blocks(w, set(clear)) for w in waits + rets)
    ctx.ob(R, "cache dropped on reuse", ok, "self.cache is emptied before recv_open waits for the next OPEN" if ok else
           "recv_open does not discard the cached tail of the previous sub-stream: its bytes would be delivered on the next sub-stream reusing this id", f.loc())
    cr = [bi for bi, b in enumerate(f.blocks) for s in b["s"] if s["k"] == "assign" and [e.get("n") for e in s["p"].get("pr", []) if isinstance(e, dict)] == ["close_received"] and T.rvalue(s["r"]) == ("const", 0)]
    ok = bool(cr) and all(cfg.must_pass_blocks(w, set(cr)) for w in rets)
    ctx.ob(R, "close_received reset", ok, "close_received := false before the next sub-stream" if ok else "close_received is not reset on reuse", f.loc())
    # recv_open returns Ok only for an OPEN frame: frames of other kinds (left-overs of the previous sub-stream) are skipped
    def m_open(a, b):
        def kind(t):
            return any(x[0] == "call" and x[1].endswith("Header::frame_kind") for x in subterms(t))
        def is_open(t):
            return (t[0] == "cdef" and t[1].endswith("FrameKind::OPEN")) or any(x[0] == "cdef" and x[1].endswith("FrameKind::OPEN") for x in subterms(t))
        if kind(a) and is_open(b):
            return 1
        if kind(b) and is_open(a):
            return -1
        return 0
    Wo = Walker(ctx, f, [Atom("cmp(kind,OPEN)", "cmp", m_open, ["=", "!="])])
    oks = [bi for bi, b in enumerate(f.blocks) for st in b["s"] if st["k"] == "assign" and st["p"]["l"] in Q.ret_locals(f) and not st["p"].get("pr") and st["r"]["k"] == "agg" and st["r"].get("variant") == "Ok"]
    if waits and oks:
        e_recv = Q.success_edges(ctx, f, lambda b: b[0] == "await" and b[1][0] == "call" and b[1][1].endswith("UnboundedReceiver::recv"))
        starts = [t for _, t in e_recv] or [y for w in waits for _, y in cfg.succ[w]]
        reach_ne = set()
        reach_eq = set()
        for s0 in starts:
            reach_ne |= Wo.reachable({"cmp(kind,OPEN)": "!="}, s0)
            reach_eq |= Wo.reachable({"cmp(kind,OPEN)": "="}, s0)
        decided = not Wo.unrecognised or any(m_open(*p2) for _, sc in Wo.unrecognised for p2 in [(sc, sc)] if False)
        oko = bool(set(oks) & reach_eq) and not (set(oks) & reach_ne)
        ctx.ob(R, "recv_open returns on OPEN only", oko, "after a received frame Ok is reachable exactly when its kind is OPEN" if oko else
               "recv_open can return for a frame that is not OPEN (or never returns for OPEN): the next sub-stream starts in the middle of the previous one's frames", f.loc())
    else:
        ctx.ob(R, "recv_open returns on OPEN only", False, "receive or Ok return not found in recv_open", f.loc())
    # OPEN detection
    r = ctx.body(NET + "::mux::transient_stream::ReadStream::read_exact")
    Tr = ctx.T(r)

    def is_cr(t):
        return chain(t)[1][-1:] == ["close_received"]
    W = Walker(ctx, r, [Atom("close_received", "bool", is_cr, [True, False], kills=["close_received"])])
    recvs = [c["bb"] for c in Tr.calls() if c["q"].endswith("recv_or_disconnected")]
    takes = [c["bb"] for c in Tr.calls() if c["q"] == "std::option::Option::take"]
    head = min(recvs + takes) if recvs + takes else 0
    names, tab = W.table({"read more": recvs + takes})
    ok = "read more" in tab.get((False,), set()) and "read more" not in tab.get((True,), {"x"})
    ctx.ob(R, "stop at CLOSE", ok, "read_exact reads no further frame once close_received is set" if ok else "read_exact keeps reading after CLOSE: %s" % {k: sorted(v) for k, v in tab.items()}, r.loc())
    sets = [bi for bi, b in enumerate(r.blocks) for s in b["s"] if s["k"] == "assign" and [e.get("n") for e in s["p"].get("pr", []) if isinstance(e, dict)][-1:] == ["close_received"] and Tr.rvalue(s["r"]) == ("const", 1)]
    ctx.ob(R, "CLOSE recorded", bool(sets), "a CLOSE frame sets close_received" if sets else "CLOSE frames do not set close_received", r.loc())
    # DATA arm: what is consumed from the frame is what was copied out; the unread rest of the frame is kept for the next
    # read; read_exact returns before end-of-stream only with a full buffer
    BUFQ = NET + "::noise::bytes::Buffer"
    pushes = [c for c in Tr.calls() if c["q"] == BUFQ + "::push"]
    tk = [c for c in Tr.calls() if c["q"] == BUFQ + "::take"]
    ctx.floor(R, "push sites in read_exact", len(pushes), 1)
    okc = bool(tk) and all(any(x[0] == "call" and x[1] == BUFQ + "::push" for x in subterms(Tr.args_of(c)[1])) for c in tk)
    ctx.ob(R, "consumed = copied", okc, "data.take(buf.push(data.as_slice())): the frame loses exactly the bytes that were delivered" if okc else "the number of bytes removed from the frame is not the number copied into the caller's buffer", r.loc())

    def m_len(a, b):
        def ln(t):
            return any(x[0] == "call" and x[1] == BUFQ + "::len" for x in subterms(t))
        if ln(a) and b == ("const", 0):
            return 1
        if ln(b) and a == ("const", 0):
            return -1
        return 0

    def m_cap(a, b):
        def cp(t):
            return any(x[0] == "call" and x[1] == BUFQ + "::capacity" for x in subterms(t))
        if cp(a) and b == ("const", 0):
            return 1
        if cp(b) and a == ("const", 0):
            return -1
        return 0
    W2 = Walker(ctx, r, [Atom("cmp(rest,0)", "cmp", m_len, ["=", ">"]), Atom("cmp(capacity,0)", "cmp", m_cap, ["=", ">"]), Atom("close_received", "bool", is_cr, [True, False], kills=["close_received"])])
    keeps = [bi for bi, b in enumerate(r.blocks) for st in b["s"] if st["k"] == "assign" and [e.get("n") for e in st["p"].get("pr", []) if isinstance(e, dict)][-1:] == ["cache"] and Tr.rvalue(st["r"])[0] == "agg" and Tr.rvalue(st["r"])[2] == "Some"]
    oksr = [bi for bi, b in enumerate(r.blocks) for st in b["s"] if st["k"] == "assign" and st["p"]["l"] in Q.ret_locals(r) and not st["p"].get("pr") and st["r"]["k"] == "agg" and st["r"].get("variant") == "Ok"]
    if pushes:
        pb = pushes[0]["bb"]
        again = frozenset(recvs + takes)
        res = {}
        for rest in ("=", ">"):
            for cap in ("=", ">"):
                res[(rest, cap)] = W2.reachable({"cmp(rest,0)": rest, "cmp(capacity,0)": cap, "close_received": False}, pb, again)
        okk = bool(keeps) and all(bool(set(keeps) & res[(">", c)]) for c in ("=", ">")) and not any(set(keeps) & res[("=", c)] for c in ("=", ">"))
        ctx.ob(R, "unread rest of a DATA frame is kept", okk, "self.cache = Some(frame) exactly when bytes of the frame are left after filling the buffer" if okk else
               "the rest of a partially consumed DATA frame is %s: bytes of the stream are lost or an empty frame is replayed" % ("not cached" if not keeps or not all(set(keeps) & res[(">", c)] for c in ("=", ">")) else "cached although nothing is left"), r.loc())
        okr = bool(oksr) and all(bool(set(oksr) & res[(x, "=")]) for x in ("=", ">")) and not any(set(oksr) & res[(x, ">")] for x in ("=", ">"))
        ctx.ob(R, "short read only at end of stream", okr, "after a DATA frame read_exact returns only when the buffer is full; otherwise it goes on to the next frame" if okr else
               "read_exact can return Ok after a DATA frame although the buffer is not full and the stream has not ended (short read), or does not return when the buffer is full", r.loc())


def rule_header_layout(ctx):
    R = "C14.11"
    ctx.rule(R, "frame header layout: the frame-kind, stream-kind and stream-id masks are pairwise disjoint; the id mask can represent every id the config admits (MAX_STREAM_COUNT <= mask + 1); each accessor extracts its field with its own mask, Header::new is the OR of the three fields, and the wire form is written and read with the same byte order - a frame is attributed to exactly the (kind, direction, id) its sender wrote")
    from engine.guards import Inliner
    H = "zksync_consensus_network::mux::header"
    cv = lambda p: ctx.F.const(p) if hasattr(ctx.F, "const") else (ctx.F.consts.get(p) or {}).get("v")
    fm, sm, im = cv(H + "::FrameKind::MASK"), cv(H + "::StreamKind::MASK"), cv(H + "::StreamId::MASK")
    mx = cv("zksync_consensus_network::mux::config::MAX_STREAM_COUNT")
    have = all(isinstance(x, int) for x in (fm, sm, im, mx))
    ctx.floor(R, "header constants evaluated", sum(isinstance(x, int) for x in (fm, sm, im, mx)), 4)
    if have:
        disj = (fm & sm) == 0 and (fm & im) == 0 and (sm & im) == 0
        ctx.ob(R, "masks disjoint", disj, "FrameKind 0x%04x, StreamKind 0x%04x, StreamId 0x%04x share no bit" % (fm, sm, im) if disj else
               "header masks overlap (FrameKind 0x%04x, StreamKind 0x%04x, StreamId 0x%04x): a stream id can be read as a frame/stream kind or vice versa" % (fm, sm, im))
        okid = all((i & im) == i for i in range(mx))
        ctx.ob(R, "id range", okid, "every admitted stream id (< MAX_STREAM_COUNT = %d) is carried unchanged by the id mask 0x%04x" % (mx, im) if okid else
               "MAX_STREAM_COUNT = %d admits ids the id mask 0x%04x cannot carry: ids alias each other" % (mx, im))
    # accessor terms
    def body(q):
        fs = ctx.F.by_qname.get(q) or []
        if fs:
            return fs[0]
        return getattr(ctx.F, "helpers", {}).get(q)
    acc = {"frame_kind": fm, "stream_kind": sm, "stream_id": im}
    n = 0
    for name, mask in acc.items():
        g = body(H + "::Header::" + name)
        if g is None:
            continue
        t = Inliner(ctx).ret_term(g)

        def expand(u, depth=0):
            # a masking helper (`fn field(self, mask) -> u16 { self.0 & mask }`) is read through
            if depth > 2 or u is None:
                return u
            if u[0] == "call" and u[1].startswith(H + "::"):
                b = Inliner(ctx).inline_fn(u[1], [expand(a, depth + 1) for a in u[2]])
                return expand(b, depth + 1) if b is not None else u
            if u[0] == "agg":
                return (u[0], u[1], u[2], tuple((k, expand(v, depth + 1)) for k, v in u[3]))
            return u
        t = expand(t)
        vals = [x[3] for x in subterms(t) if x[0] == "bin" and x[1] == "BitAnd"] if t is not None else []
        vals += [x[2] for x in subterms(t) if x[0] == "bin" and x[1] == "BitAnd" and x[2][0] == "const"] if t is not None else []
        vals = [v for v in vals if v[0] == "const"]
        ok = bool(vals) and all(v == ("const", mask) for v in vals)
        if not vals and t is not None:
            # the masking itself sits in a helper that could not be read through: the accessor hands it its own mask and
            # no other field's mask
            ms = set(x[1] for x in subterms(t) if x[0] == "const" and x[1] in (fm, sm, im))
            ok = ms == {mask} and any(x[0] == "call" and x[1].startswith(H + "::") for x in subterms(t))
        n += 1
        ctx.ob(R, "Header::%s" % name, ok, "self.0 & 0x%04x" % mask if ok else "Header::%s does not mask with its own field mask: %s" % (name, show(t)[:80] if t is not None else None), g.loc())
    g = body(H + "::Header::new")
    if g is not None:
        t = Inliner(ctx).ret_term(g)
        ors = [x for x in subterms(t) if x[0] == "field" and x[2] == "0" and x[1][0] == "param"] if t is not None else []
        ok = t is not None and len(set(ors)) == 3 and not any(x[0] == "bin" and x[1] not in ("BitOr",) for x in subterms(t))
        n += 1
        ctx.ob(R, "Header::new", ok, "f.0 | s.0 | id.0" if ok else "Header::new = %s" % (show(t)[:100] if t is not None else None), g.loc())
    enc = body(H + "::Header::raw")
    dec = body("<" + H + "::Header as std::convert::From>::from")
    if enc is not None and dec is not None:
        te, td = Inliner(ctx).ret_term(enc), Inliner(ctx).ret_term(dec)
        e = [x[1].rsplit("::", 1)[1] for x in subterms(te) if x[0] == "call" and "_bytes" in x[1]] if te is not None else []
        d = [x[1].rsplit("::", 1)[1] for x in subterms(td) if x[0] == "call" and "_bytes" in x[1]] if td is not None else []
        ok = len(e) == 1 and len(d) == 1 and e[0].replace("to_", "") == d[0].replace("from_", "")
        n += 1
        ctx.ob(R, "wire byte order", ok, "%s / %s" % (e[0], d[0]) if ok else "header written with %s but read with %s" % (e, d), enc.loc())
    ctx.floor(R, "header accessors decided", n, 4)


def rule_id_space(ctx):
    R = "C14.12"
    ctx.rule(R, "stream id space: Mux::verify rejects a configuration whose streams on one side (all capabilities TOGETHER) exceed MAX_STREAM_COUNT - ids are handed out consecutively over all capabilities of a side (C14.3), so only the bound on the sum keeps every wire id distinct; and StreamId::new refuses an id the 13-bit field cannot carry instead of wrapping it")
    from engine.query import LocalFlow
    v = ctx.F.body_of(ctx.fn(MUX + "::verify"))
    T = ctx.T(v)
    msc = ctx.F.const(NET + "::mux::config::MAX_STREAM_COUNT")
    ACC = ("Iterator::fold", "Iterator::sum", "Iterator::try_fold", "Iterator::reduce", "saturating_add", "checked_add", "wrapping_add", "overflowing_add")

    def is_bound(t):
        return (t[0] == "const" and t[1] == msc) or (t[0] == "cdef" and t[1].endswith("MAX_STREAM_COUNT"))
    multi = set(l for l, d in T.defs.items() if len(d) > 1)
    for side in ("accept", "connect"):
        summed, element, other = [], [], []
        for bb in range(len(v.blocks)):
            si = T.switch_info(bb)
            if si is None:
                continue
            sc = si[0]
            while sc[0] == "un" and sc[1] == "Not":
                sc = sc[2]
            parts = common._cmp_parts(sc)
            if parts is None:
                continue
            a, b = parts[1], parts[2]
            if is_bound(a):
                a, b = b, a
            if not is_bound(b):
                continue
            mentions = any(x[0] == "field" and x[2] == side and x[1][0] == "param" for x in subterms(a))
            acc = any(x[0] == "call" and x[1].endswith(ACC) for x in subterms(a)) or any(x[0] == "bin" and x[1] in ("Add", "AddWithOverflow") for x in subterms(a))
            accvar = any(x[0] == "var" and x[1] in multi for x in subterms(a))
            if mentions and acc:
                summed.append(bb)
            elif accvar:
                other.append(bb)        # a running total kept in a local: which side it sums is not read - undecided
            elif mentions or any(x[0] == "field" and x[2] == "max_streams" for x in subterms(a)):
                element.insert(0, (bb, show(a)[:60])) if mentions else element.append((bb, show(a)[:60]))
        if summed:
            ctx.ob(R, "sum bound (%s)" % side, True, "the total of max_streams over self.%s is compared with MAX_STREAM_COUNT" % side, v.loc())
        elif other:
            ctx.note("C14.12 %s: the value compared with MAX_STREAM_COUNT is a running total in a local - not decided" % side)
            ctx.ob(R, "sum bound (%s)" % side, True, "undecided shape (not reported)", v.loc())
        else:
            ctx.ob(R, "sum bound (%s)" % side, False, ("Mux::verify compares %s with MAX_STREAM_COUNT per capability, not the total over self.%s: a side whose capabilities together exceed the id space is accepted and stream ids alias each other" % (element[0][1], side))
                   if element else "Mux::verify does not bound the number of streams of self.%s by MAX_STREAM_COUNT" % side, v.loc())
    HQ = NET + "::mux::header"
    fs = ctx.F.by_qname.get(HQ + "::StreamId::new") or []
    g = fs[0] if fs else getattr(ctx.F, "helpers", {}).get(HQ + "::StreamId::new")
    if g is None:
        ctx.ob(R, "StreamId::new", False, "StreamId::new not found (anchor missing)")
        return
    Tg = ctx.T(g)
    vals = [t for _, t in common.ret_values(ctx, g)]
    wraps = [t for t in vals if any(x[0] == "bin" and x[1] in ("BitAnd", "Rem", "Shl", "Shr") for x in subterms(t)) or any(x[0] == "cast" for x in subterms(t))]
    ctx.ob(R, "StreamId::new carries the id unchanged", not wraps and bool(vals), "StreamId(id) for an id within the mask (a larger id is a programming error, not wrapped)" if not wraps and vals else
           "StreamId::new folds an out-of-range id into the 13-bit field (%s): two streams share a wire id" % (show(wraps[0])[:60] if wraps else "no value"), g.loc())


def rule_casts(ctx):
    R = "C14.8"
    ctx.rule(R, "narrowing-cast census in mux / noise / frame: every integer cast to a narrower type is one of the reviewed, bounded ones")
    table = ctx.table("narrowing_casts.json")["casts"]
    allowed = {}
    for e in table:
        allowed[(e["fn"], e["from"], e["to"])] = [e["count"], e["reason"]]
    widths = {"u8": 8, "u16": 16, "u32": 32, "u64": 64, "usize": 64, "u128": 128, "i8": 8, "i16": 16, "i32": 32, "i64": 64, "isize": 64, "i128": 128}
    found = {}
    for f in ctx.F.fns:
        if f.in_testonly() or f.crate != NET:
            continue
        if not any(p in f.file for p in ("/mux/", "/noise/", "src/frame.rs")):
            continue
        for b in f.blocks:
            for s in b["s"]:
                if s["k"] == "assign" and s["r"]["k"] == "cast" and s["r"]["ck"] == "IntToInt":
                    a, bt = f.ty(s["r"]["from"]).s, f.ty(s["r"]["to"]).s
                    if a in widths and bt in widths and widths[bt] < widths[a]:
                        k = (root_fn(f).qname, a, bt)
                        found.setdefault(k, []).append(f.loc(s.get("ln")))
    # reviewed casts that are no longer where they were (function split / merged / renamed): their budget can be taken
    # over by a cast of the same types elsewhere in these files - the number of narrowing casts of a kind never grows
    spare = {}
    for (fnq, a, bt), (cnt, reason) in allowed.items():
        left = cnt - len(found.get((fnq, a, bt), []))
        if left > 0:
            spare[(a, bt)] = spare.get((a, bt), 0) + left
    for k, locs in sorted(found.items()):
        e = allowed.get(k)
        ok = e is not None and len(locs) <= e[0]
        if not ok:
            extra = len(locs) - (e[0] if e is not None else 0)
            if spare.get((k[1], k[2]), 0) >= extra:
                spare[(k[1], k[2])] -= extra
                ctx.ob(R, "cast %s %s->%s (moved)" % (k[0].split("::", 2)[-1], k[1], k[2]), True, "re-matched as moved: a reviewed %s as %s cast left its former function and the total did not grow" % (k[1], k[2]), locs[0])
                continue
        ctx.ob(R, "cast %s %s->%s" % (k[0].split("::", 2)[-1], k[1], k[2]), ok, "reviewed: %s" % e[1] if ok else
               "narrowing cast %s as %s in %s (%d site(s)) has no reviewed bound" % (k[1], k[2], k[0], len(locs)), locs[0])
    ctx.floor(R, "narrowing casts inventoried", sum(len(v) for v in found.values()), 4)


RULES = [("C14.11", rule_header_layout), ("C14.1", rule_permit_before_buffer), ("C14.2", rule_config), ("C14.3", rule_stream_ids), ("C14.4", rule_frame_kind_dispatch), ("C14.5", rule_drop_order), ("C14.9", rule_cancel_safe_flush), ("C14.10", rule_write_order), ("C14.6", rule_one_transient),
         ("C14.7", rule_reader), ("C14.8", rule_casts), ("C14.12", rule_id_space)]
