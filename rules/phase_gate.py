"""Shared decision tables of the replica: phase gate (C03.5), views never go backwards (C03.8),
stale-message gates (C05.5/C05.6), wrong leader (C05.8)."""
from engine import query as Q
from engine.terms import show, subterms
from engine.guards import Atom, Walker, field_path

SM = "zksync_consensus_bft::v2_chonky_bft::StateMachine"
CHONKY_MSG = "zksync_consensus_roles::validator::messages::v2::consensus::ChonkyMsg"


def is_self(base):
    return (base[0] == "upvar" and base[1] == "self") or (base[0] in ("param", "var") and base[2] == "self")


def self_field(t, name):
    base, path = field_path(t)
    return path == [name] and is_self(base)


def msg_view_number(t):
    """<message>.view().number / <message>.view.number of the handler's message parameter"""
    base, path = field_path(t)
    if path[-1:] != ["number"]:
        return False
    if is_self(base):
        return False
    s = show(t)
    return ("view" in path[:-1]) or any(x[0] == "call" and x[1].endswith("::view") for x in subterms(t))


def view_cmp_atom():
    def m(a, b):
        if msg_view_number(a) and self_field(b, "view_number"):
            return 1
        if msg_view_number(b) and self_field(a, "view_number"):
            return -1
        return 0
    return Atom("cmp(msg.view,self.view)", "cmp", m, ["<", "=", ">"], kills=["view_number"])


def phase_atom():
    return Atom("self.phase", "enum", lambda t: self_field(t, "phase"), ["Prepare", "Commit", "Timeout"], kills=["phase"])


def sign_blocks(ctx, f, variant):
    T = ctx.T(f)
    out = []
    for c in T.calls():
        if c["q"].endswith("::SecretKey::sign_msg"):
            for t in subterms(T.args_of(c)[1]):
                if t[0] == "agg" and t[1] == CHONKY_MSG and t[2] == variant:
                    out.append(c["bb"])
    return out


def rule_phase_gate(ctx):
    R = "C03.5"
    ctx.rule(R, "phase gate (guard table, 9 valuations): the commit-vote signing site is reachable exactly when msg.view > self.view, or msg.view == self.view and phase == Prepare")
    f = ctx.body(SM + "::on_proposal")
    W = Walker(ctx, f, [view_cmp_atom(), phase_atom()])
    tg = sign_blocks(ctx, f, "ReplicaCommit")
    ctx.floor(R, "commit-vote signing sites", len(tg), 1)
    names, tab = W.table({"vote": tg})
    for (c, ph), reach in sorted(tab.items()):
        exp = (c == ">") or (c == "=" and ph == "Prepare")
        got = "vote" in reach
        ctx.ob(R, "row view%s phase=%s" % (c, ph), exp == got,
               "vote %s as specified (spec/informal-spec/replica.rs on_proposal)" % ("reachable" if got else "unreachable") if exp == got else
               ("a commit vote can be signed for a proposal with msg.view %s self.view in phase %s" % (c, ph) if got else
                "the vote is unreachable for msg.view %s self.view in phase %s (over-strict guard: liveness)" % (c, ph)), f.loc())


def view_starter_calls(ctx):
    out = []
    for f in ctx.F.fns:
        if f.crate != "zksync_consensus_bft" or f.in_testonly():
            continue
        T = ctx.T(f)
        for c in T.calls():
            if (c["rq"] or c["q"]) == SM + "::start_new_view":
                out.append((f, c, T.args_of(c)))
    return out


def rule_views_monotone(ctx):
    R = "C03.8"
    ctx.rule(R, "views never go backwards: every call of the view starter passes X.next() on a path where X < self.view_number is excluded, or X on a path where X > self.view_number holds (guard table per call site)")
    calls = view_starter_calls(ctx)
    ctx.floor(R, "view starter call sites", len(calls), 3)
    for f, c, args in calls:
        v = args[2] if len(args) > 2 else None
        rq = f.qname.split("::")[-2] if f.kind == "coroutine" else f.name
        if v is None:
            ctx.ob(R, "call in %s" % rq, False, "view argument not found", f.loc(c["t"].get("ln")))
            continue
        is_next = v[0] == "call" and v[1].endswith("ViewNumber::next")
        x = v[2][0] if is_next else v
        if not msg_view_number(x):
            ctx.ob(R, "call in %s" % rq, False, "the new view %s is not derived from the handled message's view" % show(v), f.loc(c["t"].get("ln")))
            continue
        W = Walker(ctx, f, [view_cmp_atom()])
        names, tab = W.table({"start": [c["bb"]]})
        reach = {k[0] for k, r in tab.items() if "start" in r}
        if is_next:
            ok = "<" not in reach and ">" in reach
            exp = "unreachable when msg.view < self.view (new view = msg.view+1 > self.view)"
        else:
            ok = reach == {">"}
            exp = "reachable only when msg.view > self.view"
        ctx.ob(R, "call in %s (%s)" % (rq, "X.next()" if is_next else "X"), ok,
               "start_new_view(%s) %s" % (show(v), exp) if ok else
               "start_new_view(%s) is reachable under cmp(msg.view,self.view) in %s; expected: %s" % (show(v), sorted(reach), exp), f.loc(c["t"].get("ln")))


RULES = [("C03.5", rule_phase_gate), ("C03.8", rule_views_monotone)]
