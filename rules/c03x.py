"""C03 user obligations that live in C09's module: "the state that records a vote is durable before the vote leaves the node,
and is what the replica restores" also rests on the codec of the persisted state - the execution layer stores the ENCODED
ReplicaState. A field that build() writes but read() ignores, or a decoder / encoder of the state (ChonkyV2State, ReplicaState,
the votes, certificates and proposals inside it) that normalises or drops a value, loses the record of a vote across a restart
just like a missing backup. The sibling rule C09.1 and the codec census restricted to the state's types run with C03."""
from .c09 import rule_read_build_agree, rule_codec_api


def rule_state_codec(ctx):
    rule_codec_api(ctx, R="C03.13", only=lambda t: t.endswith(("state::ChonkyV2State", "state::ReplicaState", "block::Proposal", "replica_commit::ReplicaCommit", "replica_commit::CommitQC",
                                                               "replica_timeout::TimeoutQC", "replica_timeout::ReplicaTimeout", "consensus::View", "consensus::Phase", "v2::block::BlockHeader")), floor=6,
                   desc="the persisted replica state travels unchanged through its codec: the decoders / encoders of ChonkyV2State / ReplicaState and of the votes, certificates and proposals inside it call only reviewed value-preserving conversions (tables/codec_api.json)")


RULES = [("C09.1", rule_read_build_agree), ("C03.13", rule_state_codec)]
