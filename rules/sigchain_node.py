"""node-key half of the signature-check chain (see sigchain.py); run with C12 (handshakes are signed with node keys)."""
from .sigchain import rule_node_chain

RULES = [("C12.9", rule_node_chain)]
