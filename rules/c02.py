"""C02 — certificate uniqueness: the re-proposal rule as decision tables and ingredient terms."""
from . import common
from engine import query as Q
from engine.terms import show, subterms
from engine.guards import Atom, Walker, field_path, chain, Inliner, some_payload
from .c07 import loop_head
from . import folds
from .phase_gate import SM, sign_blocks

V2 = "zksync_consensus_roles::validator::messages::v2"
PJ = V2 + "::leader_proposal::ProposalJustification"
TQC = V2 + "::replica_timeout::TimeoutQC"
SCHED = "zksync_consensus_roles::validator::messages::schedule::Schedule"
EM = "zksync_consensus_engine::manager::EngineManager"


def has_call(t, suffix):
    return any(x[0] == "call" and x[1].endswith(suffix) for x in subterms(t))


def rule_implied_block(ctx):
    R = "C02.1"
    ctx.rule(R, "get_implied_block decision table: Commit(qc) -> (qc.number+1, None); Timeout: high vote Some and (no high QC or vote.number > qc.number) -> re-propose (vote.number, Some(vote.payload)); else high QC Some -> (qc.number+1, None); else (fork_first_block, None)")
    f = ctx.fn(PJ + "::get_implied_block")
    T = ctx.T(f)

    def is_hv(t):
        return t[0] == "call" and t[1] == TQC + "::high_vote"

    def is_hq(t):
        return t[0] == "call" and t[1] == TQC + "::high_qc"

    inl = Inliner(ctx)

    def qc_number(t):
        """t is the block number of the timeout certificate's high commit QC: high_qc()...header().number, or the payload
        of high_qc().map(|qc| qc.header().number)"""
        if not has_call(t, "TimeoutQC::high_qc"):
            return False
        if chain(t)[1][-2:] == ["header()", "number"]:
            return True
        if t[0] == "field" and t[2] == "0" and t[1][0] == "downcast" and t[1][2] == "Some":
            o = t[1][1]
            if o[0] == "call" and o[1] == "std::option::Option::map" and o[2][1][0] == "closure":
                body = inl.inline_closure(o[2][1], [some_payload(o[2][0])])
                return body is not None and chain(body)[1][-2:] == ["header()", "number"] and has_call(body, "TimeoutQC::high_qc")
        return False

    def vote_number(t):
        return chain(t)[1][-1:] == ["number"] and has_call(t, "TimeoutQC::high_vote")

    def m(a, b):
        if vote_number(a) and qc_number(b):
            return 1
        if vote_number(b) and qc_number(a):
            return -1
        return 0
    atoms = [Atom("justification", "enum", lambda t: t[0] == "param" and t[1] == 1, ["Commit", "Timeout"]),
             Atom("high_vote", "opt", is_hv, ["None", "Some"]), Atom("high_qc", "opt", is_hq, ["None", "Some"]),
             Atom("cmp(vote.number,qc.number)", "cmp", m, ["<", "=", ">"])]
    tg = {"repropose": [], "next_after_high_qc": [], "first_block": [], "next_after_commit": []}
    first_names = common.pnames(f, "BlockNumber")

    def classify_number(d):
        if d[0] == "call" and d[1].endswith("BlockNumber::next"):
            if has_call(d, "TimeoutQC::high_qc"):
                return "next_after_high_qc" if qc_number(d[2][0]) else "unrecognised_number"
            if chain(d[2][0])[1][-2:] == ["header()", "number"]:
                return "next_after_commit"
            return "unrecognised_number"
        if common.is_p(d, first_names):
            return "first_block"
        return None
    rl = Q.ret_locals(f)
    for bi, b in enumerate(f.blocks):
        defs = []
        for s in b["s"]:
            if s["k"] == "assign" and not s["p"].get("pr"):
                defs.append((s["p"]["l"], T.rvalue(s["r"]), s["r"]["k"]))
        t = b["t"]
        if t["k"] == "call" and not t["dest"].get("pr") and "t" in t:
            defs.append((t["dest"]["l"], T.call_term(t), "call"))
        for l, d, rk in defs:
            if l in rl and d[0] == "tuple" and len(d[1]) == 2 and rk == "agg":
                x, y = d[1]
                if y[0] == "agg" and y[2] == "Some":
                    ok = vote_number(x) and chain(y[3][0][1])[1][-1:] == ["payload"] and has_call(y, "TimeoutQC::high_vote")
                    tg.setdefault("repropose" if ok else "unrecognised_some", []).append(bi)
                elif y[0] == "agg" and y[2] == "None":
                    k = classify_number(x)
                    if k is not None:
                        tg.setdefault(k, []).append(bi)
            if f.locals[l].s.endswith("block::BlockNumber") and l not in rl and rk in ("call", "use", "agg") and len(T.defs.get(l, ())) >= 2:
                k = classify_number(d)
                if k is not None:
                    tg.setdefault(k, []).append(bi)
    for k in ("repropose", "next_after_high_qc", "first_block", "next_after_commit"):
        ctx.ob(R, "outcome site %s" % k, len(tg.get(k, [])) >= 1, "%d site(s)" % len(tg.get(k, [])), f.loc())
    ctx.ob(R, "no unrecognised new-block number", not tg.get("unrecognised_number"), "every (number, None) outcome is commit.number+1, high_qc.number+1 or the first block" if not tg.get("unrecognised_number") else "a new-block outcome uses a number that is none of commit.number+1 / high_qc.number+1 / first block", f.loc())
    tg.pop("unrecognised_number", None)
    ctx.ob(R, "no unrecognised re-proposal", not tg.get("unrecognised_some"), "every Some(..) outcome re-proposes the high vote's own number and payload" if not tg.get("unrecognised_some") else "a re-proposal outcome does not return (high_vote.number, Some(high_vote.payload))", f.loc())
    W = Walker(ctx, f, atoms)
    names, tab = W.table(tg)
    seen = set()
    for (j, hv, hq, c), reach in sorted(tab.items()):
        if j == "Commit":
            exp = {"next_after_commit"}
            key = "Commit"
        elif hv == "Some" and (hq == "None" or c == ">"):
            exp = {"repropose"}
            key = "Timeout hv=Some hq=%s%s" % (hq, "" if hq == "None" else " vote>qc")
        elif hq == "Some":
            exp = {"next_after_high_qc"}
            key = "Timeout hv=%s hq=Some cmp%s" % (hv, c if hv == "Some" else "-")
        else:
            exp = {"first_block"}
            key = "Timeout hv=None hq=None"
        if key in seen and reach == exp:
            continue
        seen.add(key)
        ctx.ob(R, "row %s" % key, reach == exp, "-> %s" % sorted(reach) if reach == exp else
               "for %s the implied block is decided as %s, specified %s (spec/informal-spec/types.rs)" % (dict(zip(names, (j, hv, hq, c))), sorted(reach), sorted(exp)), f.loc())


def rule_high_vote(ctx):
    R = "C02.2"
    ctx.rule(R, "high_vote ingredients: weights are accumulated per block header (number and payload - not per vote, not per number), only from entries with a high vote, using Signers::weight; a header qualifies at weight >= subquorum_threshold; the result is Some only when exactly one header qualifies")
    f = ctx.fn(TQC + "::high_vote")
    T = ctx.T(f)
    entries = [(c, T.args_of(c)) for c in T.calls() if c["q"].endswith("HashMap::entry")]
    ctx.floor(R, "tally entry sites", len(entries), 1)
    for c, a in entries:
        root, names = chain(a[1])
        ok = names[-4:] == ["high_vote", "as Some", "0", "proposal"]
        ctx.ob(R, "tally key", ok, "votes are tallied per BlockHeader (high_vote.proposal)" if ok else
               "the tally is keyed by %s instead of the voted block header (number and payload): votes for one block cast in different views, or for different payloads of one number, are mis-counted" % (".".join(names[-3:]) or show(a[1])), f.loc(c["t"].get("ln")))
        kt = f.ty(c["t"]["f"]["ga"][0]).s if c["t"]["f"].get("ga") else ""
        okt = kt.endswith("::BlockHeader")
        ctx.ob(R, "tally key type", okt, "tally key type is BlockHeader" if okt else "tally key type is %s" % kt, f.loc())
    # weight added
    okw = False
    for b in f.blocks:
        for s in b["s"]:
            if s["k"] == "assign" and s["r"]["k"] == "bin" and s["r"]["op"].startswith("Add"):
                t = T.rvalue(s["r"])
                okw = okw or (any(x[0] == "call" and x[1].endswith("Signers::weight") for x in (t[2], t[3])) and any(has_call(x, "Entry::or_default") for x in (t[2], t[3])))
    ctx.ob(R, "tallied quantity", okw, "*count.entry(header).or_default() += signers.weight(schedule)" if okw else "the tally does not add Signers::weight of the entry's signer set", f.loc())
    head = loop_head(ctx, f, target=[c["bb"] for c, _ in entries]) if entries else None

    def is_hvf(t):
        return chain(t)[1][-1:] == ["high_vote"]
    if head is not None and entries:
        W = Walker(ctx, f, [Atom("msg.high_vote", "opt", is_hvf, ["None", "Some"])])
        names, tab = W.table({"tally": [c["bb"] for c, _ in entries]}, start=head)
        ok = "tally" in tab.get(("Some",), set()) and "tally" not in tab.get(("None",), {"tally"})
        ctx.ob(R, "only entries with a high vote", ok, "an entry contributes only when its high_vote is Some" if ok else "tally reachability: %s" % {k: sorted(v) for k, v in tab.items()}, f.loc())
    # threshold
    th = [T.args_of(c) for c in T.calls() if c["q"].startswith(SCHED + "::") and c["q"].endswith("threshold")]
    okq = [c["q"] for c in T.calls() if c["q"].startswith(SCHED + "::") and c["q"].endswith("threshold")] == [SCHED + "::subquorum_threshold"]
    ctx.ob(R, "threshold function", okq, "the qualifying bound is Schedule::subquorum_threshold()" if okq else "threshold calls: %s" % [c["q"].split("::")[-1] for c in T.calls() if c["q"].endswith("threshold")], f.loc())
    flt = [a for c in T.calls() if c["q"] == "std::iter::Iterator::filter" for a in T.args_of(c) if a[0] == "closure"]
    if not flt:
        # explicit-loop shape
        def is_w(t):
            return chain(t)[1][-1:] == ["1"] and any(x[0] == "call" and x[1] == "std::iter::Iterator::next" for x in subterms(t))

        def is_t(t):
            return any(x[0] == "call" and x[1] == SCHED + "::subquorum_threshold" for x in subterms(t))
        st, txt = folds.unique_above_threshold_loop(ctx, f, is_w, is_t)
        if st == "unknown":
            ctx.note("C02.2 selection of the unique qualifying header: shape not recognised (%s) - not decided" % txt)
        ctx.ob(R, "qualifying comparison", st != "wrong", txt if st == "ok" else ("undecided shape (not reported): " + txt if st == "unknown" else txt), f.loc())
        ctx.ob(R, "exactly one qualifying header", st != "wrong", txt if st == "ok" else ("undecided shape (not reported): " + txt if st == "unknown" else "high_vote does not return the unique header reaching the subquorum: " + txt), f.loc())
        return
    okc = False
    for cl in flt:
        g = ctx.F.by_qname.get(cl[1], [None])[0]
        if g is None:
            continue
        rt = Inliner(ctx).ret_term(g)
        op = None
        if rt and rt[0] == "call" and rt[1] in ("std::cmp::PartialOrd::ge", "std::cmp::PartialOrd::le"):
            op, (a, b) = rt[1].rsplit("::", 1)[1], rt[2]
        elif rt and rt[0] == "bin" and rt[1] in ("Ge", "Le"):
            op, a, b = rt[1].lower(), rt[2], rt[3]
        if op is not None:
            if op == "le":
                a, b = b, a
            okc = chain(a)[1][-1:] == ["1"] and b == ("upvar", "min") or (chain(a)[1][-1:] == ["1"] and b[0] == "upvar")
            cap = dict(zip([c["name"] for c in g.captures], cl[2]))
            okc = okc and any(x[0] == "call" and x[1] == SCHED + "::subquorum_threshold" for v in cap.values() for x in subterms(v))
    ctx.ob(R, "qualifying comparison", okc, "a header qualifies iff tally >= subquorum_threshold" if okc else "the qualifying comparison is not `weight >= subquorum_threshold` (strict '>' or another bound changes the 2f < n-3f argument)", f.loc())

    def m_len(a, b):
        if a[0] == "call" and a[1].endswith("Vec::len") and b == ("const", 1):
            return 1
        if b[0] == "call" and b[1].endswith("Vec::len") and a == ("const", 1):
            return -1
        return 0
    W = Walker(ctx, f, [Atom("qualifying==1", "cmp", m_len, ["=", "!="])])
    some = [bi for bi, b in enumerate(f.blocks) for s in [b["t"]] if s["k"] == "call" and s["dest"]["l"] == 0 and "decl" in s["f"] and f.callee(s)[0].qname == "std::option::Option::map"]
    some_t = [b["t"]["t"] for bi, b in enumerate(f.blocks) if bi in some and "t" in b["t"]]
    none = [bi for bi, b in enumerate(f.blocks) for s in b["s"] if s["k"] == "assign" and s["p"]["l"] in Q.ret_locals(f) and s["r"]["k"] == "agg" and s["r"].get("variant") == "None"]
    names, tab = W.table({"some": some, "none": none})
    ok = tab.get(("=",)) == {"some"} and tab.get(("!=",)) == {"none"}
    ctx.ob(R, "exactly one qualifying header", ok, "Some(header) iff exactly one header reaches the subquorum" if ok else "high_vote result by number of qualifying headers: %s" % {k: sorted(v) for k, v in tab.items()}, f.loc())


def rule_high_qc(ctx):
    R = "C02.3"
    ctx.rule(R, "high_qc ingredient: the maximum by view().number over the high_qc fields of the map keys")
    f = ctx.fn(TQC + "::high_qc")
    t = Inliner(ctx).ret_term(f)
    ok = t is not None and t[0] == "call" and t[1] == "std::iter::Iterator::max_by_key"
    ok1 = ok2 = False
    if ok:
        src, key = t[2]
        if key[0] == "closure":
            g = ctx.F.by_qname.get(key[1], [None])[0]
            rt = Inliner(ctx).ret_term(g) if g else None
            ok2 = rt is not None and chain(rt)[1][-2:] == ["view()", "number"]
        fm = [x for x in subterms(src) if x[0] == "call" and x[1] == "std::iter::Iterator::filter_map"]
        if fm and fm[0][2][1][0] == "closure":
            g = ctx.F.by_qname.get(fm[0][2][1][1], [None])[0]
            rt = Inliner(ctx).ret_term(g) if g else None
            ok1 = rt is not None and chain(rt)[1][-1:] == ["high_qc"] and has_call(src, "BTreeMap::keys")
    if not ok:
        def cur_key(t):
            return chain(t)[1][-2:] == ["view()", "number"]

        def new_key(t):
            return chain(t)[1][-2:] == ["view()", "number"] and any(x[0] == "field" and x[2] == "high_qc" for x in subterms(t))
        st, txt = folds.max_by_loop(ctx, f, cur_key, new_key)
        from_keys = any(c["q"].endswith(("BTreeMap::keys", "BTreeMap::iter")) for c in ctx.T(f).calls())
        if st == "unknown":
            # whatever the shape: a maximum by view needs SOME order comparison (or max / max_by*) in the function or its
            # closures; a selection by position alone (first / last entry of the sorted map, find_map, rev().next()) is not one -
            # the map is ordered by the whole ReplicaTimeout (view, high_vote, high_qc), not by the certificate's view
            CMP = ("PartialOrd::lt", "PartialOrd::le", "PartialOrd::gt", "PartialOrd::ge", "Ord::cmp", "Ord::max", "Ord::min", "PartialOrd::partial_cmp",
                   "Iterator::max", "Iterator::max_by", "Iterator::max_by_key", "Iterator::min_by_key", "Iterator::min_by", "Iterator::fold", "Iterator::reduce", "cmp::max", "cmp::max_by_key")
            cmps = [c for g in common.family(ctx, f, ("closure",)) + [f] for c in ctx.T(g).calls() if (c["q"] or "").endswith(CMP)]
            if not cmps:
                st, txt = "wrong", "no order comparison of certificate views anywhere in TimeoutQC::high_qc - the result is chosen by its position in the map (%s)" % txt
        if st == "unknown":
            ctx.note("C02.3 high_qc: shape not recognised (%s) - not decided" % txt)
        ctx.ob(R, "high_qc term", st != "wrong" and (st == "unknown" or from_keys), txt if st == "ok" else ("undecided shape (not reported): " + txt if st == "unknown" else "high_qc is not the certificate with the highest view: " + txt), f.loc())
        return
    ctx.ob(R, "high_qc term", ok and ok1 and ok2, "map.keys().filter_map(|m| m.high_qc).max_by_key(|qc| qc.view().number)" if ok and ok1 and ok2 else "high_qc = %s" % (show(t)[:160] if t else None), f.loc())


def rule_replica_payload(ctx):
    R = "C02.4"
    ctx.rule(R, "replica payload table (4 valuations): implied hash Some & payload Some -> reject; Some & None -> vote for the implied hash; None & None -> reject; None & Some -> vote only after verify_payload succeeded")
    f = ctx.body(SM + "::on_proposal")
    T = ctx.T(f)

    def is_ih(t):
        return t[0] == "field" and t[2] == "1" and t[1][0] == "call" and t[1][1] == PJ + "::get_implied_block"

    def is_pp(t):
        return chain(t)[1][-1:] == ["proposal_payload"]

    def a_vp(t):
        return t[0] == "await" and t[1][0] == "call" and t[1][1] == EM + "::verify_payload"
    atoms = [Atom("implied_hash", "opt", is_ih, ["None", "Some"]), Atom("proposal_payload", "opt", is_pp, ["None", "Some"]), Atom("verify_payload ok", "bool", a_vp, [True, False])]
    W = Walker(ctx, f, atoms)
    vote = sign_blocks(ctx, f, "ReplicaCommit")
    vp = [c["bb"] for c in T.calls() if c["q"] == EM + "::verify_payload"]
    ctx.floor(R, "vote sites", len(vote), 1)
    ctx.floor(R, "verify_payload sites", len(vp), 1)
    names, tab = W.table({"vote": vote, "verify_payload": vp})
    for (ih, pp, ok), reach in sorted(tab.items()):
        if ih == "Some":
            exp_vote = pp == "None"
            exp_vp = False
        else:
            exp_vote = pp == "Some" and ok is True
            exp_vp = pp == "Some"
        good = (("vote" in reach) == exp_vote) and (("verify_payload" in reach) == exp_vp)
        ctx.ob(R, "row implied=%s payload=%s verify=%s" % (ih, pp, ok), good, "-> %s" % sorted(reach) if good else
               "with implied hash %s, payload %s, verify_payload ok=%s the handler reaches %s (specified: vote=%s, execute=%s)" % (ih, pp, ok, sorted(reach), exp_vote, exp_vp), f.loc())
    # the implied block is computed with this replica's schedule and first block
    gi = [T.args_of(c) for c in T.calls() if c["q"] == PJ + "::get_implied_block"]
    ok = bool(gi) and all(chain(a[0])[1][-1:] == ["justification"] and "validators" in show(a[1]) and "first_block" in show(a[2]) for a in gi)
    ctx.ob(R, "implied block arguments", ok, "message.justification.get_implied_block(&config.validators, config.first_block)" if ok else "get_implied_block arguments: %s" % [[show(x)[:40] for x in a] for a in gi], f.loc())
    # verify_payload is given the implied number and the very payload of the message
    vpa = [T.args_of(c) for c in T.calls() if c["q"] == EM + "::verify_payload"]
    ok = bool(vpa) and all(is_num(a[2]) and chain(a[4])[1][-3:-2] + chain(a[4])[1][-1:] in (["proposal_payload", "0"], ["0"]) or "proposal_payload" in show(a[4]) for a in vpa)
    ctx.ob(R, "verify_payload arguments", ok, "verify_payload(ctx, implied_block_number, epoch, message.proposal_payload)" if ok else "verify_payload arguments: %s" % [[show(x)[:40] for x in a] for a in vpa], f.loc())


def is_num(t):
    return t[0] == "field" and t[2] == "0" and t[1][0] == "call" and t[1][1] == PJ + "::get_implied_block"


def rule_proposer(ctx):
    R = "C02.5"
    ctx.rule(R, "proposer table: create_proposal sends no payload when the justification implies a re-proposal and a freshly proposed payload (after waiting for the previous block, size-checked) otherwise")
    f = ctx.body("zksync_consensus_bft::v2_chonky_bft::proposer::create_proposal")
    T = ctx.T(f)

    def is_ih(t):
        return t[0] == "field" and t[2] == "1" and t[1][0] == "call" and t[1][1] == PJ + "::get_implied_block"

    def m_size(a, b):
        if chain(b)[1][-1:] == ["max_payload_size"] and has_call(a, "Vec::len"):
            return 1
        if chain(a)[1][-1:] == ["max_payload_size"] and has_call(b, "Vec::len"):
            return -1
        return 0
    W = Walker(ctx, f, [Atom("implied_hash", "opt", is_ih, ["None", "Some"]), Atom("cmp(len,max)", "cmp", m_size, ["<", "=", ">"])])
    prop = [c["bb"] for c in T.calls() if c["q"] == EM + "::propose_payload"]
    none = []
    some = []
    for bi, b in enumerate(f.blocks):
        for s in b["s"]:
            if s["k"] == "assign" and s["r"]["k"] == "agg" and s["r"].get("def") == "std::option::Option" and f.locals[s["p"]["l"]].s.endswith("Option<zksync_consensus_roles::validator::messages::block::Payload>") and not s["p"].get("pr"):
                (none if s["r"]["variant"] == "None" else some).append(bi)
    oks = [bi for bi, b in enumerate(f.blocks) for s in b["s"] if s["k"] == "assign" and s["p"]["l"] in Q.ret_locals(f) and s["r"]["k"] == "agg" and s["r"].get("variant") == "Ok"]
    ctx.floor(R, "propose_payload sites", len(prop), 1)
    names, tab = W.table({"propose": prop, "payload_none": none, "payload_some": some, "ok": oks})
    bad = []
    for (ih, c), reach in tab.items():
        if ih == "Some":
            exp = {"payload_none", "ok"}
        elif c == ">":
            exp = {"propose"}
        else:
            exp = {"propose", "payload_some", "ok"}
        if reach != exp:
            bad.append(((ih, c), sorted(reach), sorted(exp)))
    ctx.ob(R, "proposer table", not bad, "6 valuations: re-proposal carries no payload; a new proposal carries the proposed payload unless it exceeds max_payload_size" if not bad else "create_proposal deviates: %s" % bad[:2], f.loc())
    # the proposal carries the justification it was created for
    okj = False
    for b in f.blocks:
        for s in b["s"]:
            if s["k"] == "assign" and s["r"]["k"] == "agg" and s["r"].get("def", "").endswith("LeaderProposal"):
                d = dict(T.rvalue(s["r"])[3])
                okj = d.get("justification") is not None and common.is_p(d.get("justification"), common.pnames(f, "ProposalJustification"))
    ctx.ob(R, "proposal justification", okj, "LeaderProposal.justification is the justification argument" if okj else "the proposal does not carry the justification it was derived from", f.loc())
    wp = [c["bb"] for c in T.calls() if c["q"] == EM + "::wait_until_persisted"]
    cfg = ctx.cfg(f)
    ctx.ob(R, "previous block awaited", bool(wp), "create_proposal waits for the previous block before proposing", f.loc())


RULES = [("C02.1", rule_implied_block), ("C02.2", rule_high_vote), ("C02.3", rule_high_qc), ("C02.4", rule_replica_payload), ("C02.5", rule_proposer)]
