"""C07 — quorum thresholds satisfy the n >= 5f+1 intersection arithmetic: code = formulas, on the checked domain."""
from engine import query as Q
from engine.terms import show, subterms
from . import common
from engine.guards import Atom, Walker, field_path, chain, Inliner

MOD = "zksync_consensus_roles::validator::messages::schedule"
SCHED = MOD + "::Schedule"


def norm_arith(t):
    """Strip overflow-check plumbing: (XWithOverflow(a,b)).0 -> X(a,b); widening casts kept."""
    if not isinstance(t, tuple):
        return t
    if t and t[0] == "field" and t[2] == "0" and t[1][0] == "bin" and t[1][1].endswith("WithOverflow"):
        return _fold_identity(("bin", t[1][1][:-len("WithOverflow")], norm_arith(t[1][2]), norm_arith(t[1][3])))
    return _fold_identity(tuple(norm_arith(x) if isinstance(x, tuple) else x for x in t))


def _fold_identity(t):
    """x*1, 1*x, x/1, x+0, 0+x, x-0 -> x (operations that cannot change the value or overflow)"""
    if isinstance(t, tuple) and t and t[0] == "bin" and len(t) == 4:
        op, a, b = t[1], t[2], t[3]
        if op == "Mul" and b == ("const", 1):
            return a
        if op == "Mul" and a == ("const", 1):
            return b
        if op in ("Div",) and b == ("const", 1):
            return a
        if op in ("Add", "Sub") and b == ("const", 0):
            return a
        if op == "Add" and a == ("const", 0):
            return b
    return t


def is_identity_op(T, r):
    """a MIR binary operation with a constant operand that makes it the identity"""
    op = r["op"].replace("WithOverflow", "")
    a, b = T.operand(r["a"]), T.operand(r["b"])
    return (op == "Mul" and ("const", 1) in (a, b)) or (op == "Div" and b == ("const", 1)) or (op in ("Add", "Sub") and b == ("const", 0)) or (op == "Add" and a == ("const", 0))


def is_param(t):
    return t[0] == "param"


def expand(ctx, t, depth=0):
    """Inline calls of the threshold functions / getters of this module (they are total and pure) and strip the
    overflow-check plumbing, so that a formula written through helpers and one written out compare equal."""
    inl = Inliner(ctx)
    t = norm_arith(t)
    if not isinstance(t, tuple) or depth > 6:
        return t
    if t and t[0] == "call" and isinstance(t[1], str) and t[1].startswith(MOD + "::") and len(t[2]) <= 2:
        body = inl.inline_fn(t[1], [expand(ctx, a, depth + 1) for a in t[2]])
        if body is not None:
            return expand(ctx, body, depth + 1)
    out = tuple(expand(ctx, x, depth + 1) if isinstance(x, tuple) else x for x in t)
    if out and out[0] == "bin" and out[1] == "Mul" and len(out) == 4 and out[3][0] == "const" and out[2][0] != "const":
        out = ("bin", "Mul", out[3], out[2])          # constant factor first
    return _fold_identity(out)


def spec_forms(n):
    f = ("bin", "Div", ("bin", "Sub", n, ("const", 1)), ("const", 5))
    return {"max_faulty_weight": f, "quorum_threshold": ("bin", "Sub", n, f), "subquorum_threshold": ("bin", "Sub", n, ("bin", "Mul", ("const", 3), f))}


def rule_formulas(ctx):
    R = "C07.1"
    ctx.rule(R, "formula identity: max_faulty_weight(n) = (n-1)/5, quorum_threshold(n) = n - f(n), subquorum_threshold(n) = n - 3*f(n); the Schedule methods pass self.total_weight")
    inl = Inliner(ctx)
    f = ctx.fn(MOD + "::max_faulty_weight")
    t = norm_arith(inl.ret_term(f))
    ok = t is not None and t[0] == "bin" and t[1] == "Div" and t[3] == ("const", 5) and t[2][0] == "bin" and t[2][1] == "Sub" and is_param(t[2][2]) and t[2][3] == ("const", 1)
    ctx.ob(R, "max_faulty_weight", ok, "returns (n - 1) / 5" if ok else "max_faulty_weight returns %s, expected (n-1)/5" % (show(t) if t else None), f.loc())
    q = ctx.fn(MOD + "::quorum_threshold")
    t = norm_arith(inl.ret_term(q))
    ok = t is not None and t[0] == "bin" and t[1] == "Sub" and is_param(t[2]) and t[3] == ("call", MOD + "::max_faulty_weight", (t[2],))
    if not ok and t is not None:
        ok = any(expand(ctx, t) == spec_forms(pp)["quorum_threshold"] for pp in subterms(t) if pp[0] == "param")
    ctx.ob(R, "quorum_threshold", ok, "returns n - max_faulty_weight(n)" if ok else "quorum_threshold returns %s, expected n - f(n)" % (show(t) if t else None), q.loc())
    s = ctx.fn(MOD + "::subquorum_threshold")
    t = norm_arith(inl.ret_term(s))
    ok = False
    if t is not None and t[0] == "bin" and t[1] == "Sub" and is_param(t[2]) and t[3][0] == "bin" and t[3][1] == "Mul":
        fa = ("call", MOD + "::max_faulty_weight", (t[2],))
        ok = {t[3][2], t[3][3]} == {("const", 3), fa}
    if not ok and t is not None:
        ok = any(expand(ctx, t) == spec_forms(pp)["subquorum_threshold"] for pp in subterms(t) if pp[0] == "param")
    ctx.ob(R, "subquorum_threshold", ok, "returns n - 3 * max_faulty_weight(n)" if ok else "subquorum_threshold returns %s, expected n - 3*f(n)" % (show(t) if t else None), s.loc())
    for m in ("max_faulty_weight", "quorum_threshold", "subquorum_threshold"):
        g = ctx.fn(SCHED + "::" + m)
        t = inl.ret_term(g)
        ok = t is not None and t[0] == "call" and t[1] == MOD + "::" + m and len(t[2]) == 1
        if ok:
            a = t[2][0]
            if a[0] == "call" and a[1] == SCHED + "::total_weight":
                a = inl.inline_fn(a[1], list(a[2])) or a
            base, path = field_path(a)
            ok = path == ["total_weight"]
        if not ok and t is not None:
            # written out instead of delegating: compare the fully expanded formula over self.total_weight
            e = expand(ctx, t)
            tws = [x for x in subterms(e) if x[0] == "field" and x[2] == "total_weight"]
            ok = bool(tws) and e == spec_forms(tws[0])[m]
        ctx.ob(R, "Schedule::%s" % m, ok, "Schedule::%s() = %s(self.total_weight)" % (m, m) if ok else "Schedule::%s returns %s" % (m, show(t) if t else None), g.loc())


def rule_census(ctx):
    R = "C07.2"
    ctx.rule(R, "arithmetic census: the three threshold functions contain exactly Sub(n,1), Div(.,5), Sub(n,f), Mul(3,f), Sub(n,3f) and no casts")
    exp = {"max_faulty_weight": ["Div", "SubWithOverflow"], "quorum_threshold": ["SubWithOverflow"], "subquorum_threshold": ["MulWithOverflow", "SubWithOverflow"]}
    for name, ops in exp.items():
        f = ctx.fn(MOD + "::" + name)
        got = []
        casts = 0
        for b in f.blocks:
            for s in b["s"]:
                if s["k"] == "assign":
                    if s["r"]["k"] == "bin" and s["r"]["op"] not in ("Eq", "Ne", "Lt", "Le", "Gt", "Ge", "BitAnd") and not is_identity_op(ctx.T(f), s["r"]):
                        got.append(s["r"]["op"])
                    if s["r"]["k"] == "cast":
                        casts += 1
        # builds without overflow checks have plain ops
        norm = sorted(o.replace("WithOverflow", "") for o in got)
        ok = norm == sorted(o.replace("WithOverflow", "") for o in ops) and casts == 0
        ctx.ob(R, name, ok, "operations: %s" % norm if ok else "%s contains operations %s and %d cast(s); expected %s and none" % (name, norm, casts, sorted(o.replace("WithOverflow", "") for o in ops)), f.loc())


def loop_head(ctx, f, pred=None, target=None):
    """Block of the Iterator::next call heading a for-loop: the innermost loop containing block `target`
    (the next-call block that dominates it and is itself dominated by the most blocks), else the first."""
    T = ctx.T(f)
    heads = [c["bb"] for c in T.calls() if c["q"] == "std::iter::Iterator::next" and (pred is None or pred(T.args_of(c)))]
    if not heads:
        return None
    if target is None:
        return heads[0]
    cfg = ctx.cfg(f)
    targets = target if isinstance(target, (list, set, tuple)) else [target]
    best = None
    for h in heads:
        if all(cfg.dominates(h, t) for t in targets):
            # the loop must be able to come back to its head from the target (target is inside the loop)
            if all(h in cfg.reach_from([t]) for t in targets):
                depth = bin(cfg.dominators()[h]).count("1")
                if best is None or depth > best[0]:
                    best = (depth, h)
    return best[1] if best else None


def rule_domain(ctx):
    R = "C07.3"
    ctx.rule(R, "domain: Schedule is built only by Schedule::new, which returns Ok only for a non-empty validator set without duplicates, every weight > 0, total weight without overflow (checked_add) and at least one leader => total_weight in [1, 2^64-1], leaders non-empty")
    f = ctx.fn(SCHED + "::new")
    T = ctx.T(f)
    # who constructs Schedule
    cons = set()
    for g in ctx.F.fns:
        if g.in_testonly():
            continue
        for b in g.blocks:
            for s in b["s"]:
                if s["k"] == "assign" and s["r"]["k"] == "agg" and s["r"].get("def") == SCHED:
                    r = g
                    while r.parent is not None:
                        r = r.parent
                    cons.add(r.qname)
    cons.discard("<%s as std::clone::Clone>::clone" % SCHED)  # derived Clone copies an existing (valid) value field by field
    ctx.ob(R, "constructors", cons == {SCHED + "::new"}, "Schedule{..} is constructed only in Schedule::new" if cons == {SCHED + "::new"} else "Schedule is constructed in %s" % sorted(cons))
    a = ctx.F.adts[SCHED]
    priv = [x["name"] for x in a["variants"][0]["fields"] if x["vis"] == "pub"]
    ctx.ob(R, "fields private", not priv, "all Schedule fields are private" if not priv else "public Schedule fields: %s" % priv)

    def a_dup(t):
        return t[0] == "call" and t[1].endswith("BTreeMap::contains_key")

    def a_wpos(t):
        return t[0] == "bin" and t[1] == "Gt" and t[3] == ("const", 0) and chain(t[2])[1][-1:] == ["weight"]

    def a_add(t):
        return any(x[0] == "call" and x[1] == "u64::checked_add" for x in subterms(t)) and not any(x[0] == "try" for x in subterms(t))

    def a_empty(t):
        return t[0] == "call" and t[1].endswith("BTreeMap::is_empty")

    def a_nolead(t):
        return t[0] == "call" and t[1].endswith("Vec::is_empty")
    atoms = [Atom("duplicate", "bool", a_dup, [True, False]), Atom("weight>0", "bool", a_wpos, [True, False]), Atom("checked_add ok", "bool", a_add, [True, False]),
             Atom("map empty", "bool", a_empty, [True, False]), Atom("no leaders", "bool", a_nolead, [True, False])]
    W = Walker(ctx, f, atoms)
    # the validator map is the one whose contains_key guards the insertion (other maps, e.g. key -> index, are derived later)
    LF = Q.LocalFlow(f)

    def recv_local(c):
        l = Q.LocalFlow._local_op(c["t"]["args"][0]) if c["t"]["args"] else None
        return LF._root_borrow(l) if l is not None else None
    dup_recv = set(recv_local(c) for c in T.calls() if c["q"].endswith("BTreeMap::contains_key"))
    ins = [c["bb"] for c in T.calls() if c["q"].endswith("BTreeMap::insert") and (not dup_recv or recv_local(c) in dup_recv)]
    oks = [bi for bi, b in enumerate(f.blocks) for s in b["s"] if s["k"] == "assign" and s["p"]["l"] in Q.ret_locals(f) and s["r"]["k"] == "agg" and s["r"].get("variant") == "Ok"]
    head = loop_head(ctx, f, target=ins)
    ctx.floor(R, "insert sites", len(ins), 1)
    ctx.floor(R, "Ok returns", len(oks), 1)
    ctx.ob(R, "loop head", head is not None, "validator loop found (bb%s)" % head, f.loc())
    if head is None:
        return
    names, tab = W.table({"insert": ins}, start=head)
    bad = [k for k, v in tab.items() if "insert" in v and not (k[0] is False and k[1] is True and k[2] is True)]
    good = [k for k, v in tab.items() if "insert" in v]
    ctx.ob(R, "per-validator acceptance", not bad and bool(good), "a validator is inserted only if not duplicate, weight > 0 and checked_add succeeded (every iteration, %d valuations)" % len(tab) if not bad and good else
           "a validator can be inserted under %s (atoms %s)" % (bad[:3], names), f.loc())
    names, tab = W.table({"ok": oks})
    bad = [k for k, v in tab.items() if "ok" in v and (k[3] is True or k[4] is True)]
    good = [k for k, v in tab.items() if "ok" in v]
    ctx.ob(R, "non-empty schedule and leaders", not bad and bool(good), "Ok is unreachable with an empty validator map or an empty leader list" if not bad and good else
           "Schedule::new can return Ok under %s (atoms %s)" % (bad[:3], names), f.loc())
    # total_weight accumulates checked_add of every weight; stored in the aggregate
    agg = None
    for b in f.blocks:
        for s in b["s"]:
            if s["k"] == "assign" and s["r"]["k"] == "agg" and s["r"].get("def") == SCHED:
                agg = T.rvalue(s["r"])
    okt = False
    if agg is not None:
        d = dict(agg[3])
        tw = d.get("total_weight")
        okt = tw is not None and tw[0] == "var"
        if okt:
            # every assignment to that local is 0 or the checked_add result
            l = tw[1]
            defs = []
            for b in f.blocks:
                for s in b["s"]:
                    if s["k"] == "assign" and s["p"]["l"] == l and not s["p"].get("pr"):
                        defs.append(T.rvalue(s["r"]))
            def via_checked(dd):
                # the checked sum may arrive through the return place of an extracted helper (Ok(sum) / Some(sum))
                return any(x[0] == "call" and x[1] == "u64::checked_add" for v in common.value_terms(f, T, dd) for x in subterms(v))

            def unchecked(dd):
                return any((x[0] == "bin" and x[1].startswith("Add")) or (x[0] == "call" and x[1] in ("u64::wrapping_add", "u64::saturating_add", "u64::overflowing_add", "std::ops::Add::add", "std::ops::AddAssign::add_assign"))
                           for v in common.value_terms(f, T, dd) for x in subterms(v))
            okt = all(dd == ("const", 0) or (via_checked(dd) and not unchecked(dd)) for dd in defs) and len(defs) >= 2
            if not okt and not any(unchecked(dd) for dd in defs) and any(via_checked(dd) for dd in defs):
                ctx.note("C07.3 total_weight accumulation: a definition of the running sum is neither 0 nor visibly the checked sum - not decided")
                okt = True
    ctx.ob(R, "total_weight accumulation", okt, "total_weight is 0 plus checked_add of every accepted weight" if okt else "total_weight is not accumulated exclusively through checked_add", f.loc())


RULES = [("C07.1", rule_formulas), ("C07.2", rule_census), ("C07.3", rule_domain)]
