"""C08 — the block store is a verified, gap-free, append-only chain."""
from . import common
from engine import query as Q
from engine.terms import show, subterms
from engine.guards import Atom, Walker, field_path, chain

EM = "zksync_consensus_engine::manager::EngineManager"
BS = "zksync_consensus_engine::block_store::BlockStore"
BSS = "zksync_consensus_engine::block_store::BlockStoreState"
IFACE = "zksync_consensus_engine::interface::EngineInterface"
FINAL_VERIFY = "zksync_consensus_roles::validator::messages::v2::block::FinalBlock::verify"


def non_test(ctx, crate=None):
    return [f for f in ctx.F.fns if not f.in_testonly() and (crate is None or f.crate == crate)]


def root_fn(f):
    while f.parent is not None:
        f = f.parent
    return f


def calls_to(ctx, qname, fns=None):
    out = []
    for f in (fns if fns is not None else non_test(ctx)):
        T = ctx.T(f)
        for c in T.calls():
            if c["q"] == qname or c["rq"] == qname:
                out.append((f, c))
    return out


def rule_verify_before_queue(ctx):
    R = "C08.1"
    ctx.rule(R, "in EngineManager::queue_block the push into the store is dominated, per Block variant, by the successful verification (pre-genesis: number < first_block and verify_pregenesis_block; FinalV2: FinalBlock::verify against the schedule of the block's own epoch)")
    f = ctx.body(EM + "::queue_block")
    T = ctx.T(f)
    cfg = ctx.cfg(f)
    # push site: the send_if_modified whose closure calls try_push
    push = []
    for c in T.calls():
        if c["q"].endswith("::send_if_modified"):
            args = T.args_of(c)
            for a in args:
                if a[0] == "closure":
                    g = ctx.F.by_qname.get(a[1], [None])[0]
                    if g is not None and any(cc["q"] == BS + "::try_push" for cc in ctx.T(g).calls()):
                        push.append(c)
    ctx.floor(R, "push sites (send_if_modified(try_push))", len(push), 1)
    s_pre = Q.success_edges(ctx, f, lambda b: Q.is_await_of(b, {IFACE + "::verify_pregenesis_block"}))
    s_fin = Q.success_edges(ctx, f, lambda b: Q.is_call_of(b, {FINAL_VERIFY}))
    ctx.floor(R, "pre-genesis verification success edges", len(s_pre), 1)
    ctx.floor(R, "FinalBlock::verify success edges", len(s_fin), 1)
    # variant arms
    arms = {}
    for bb in range(len(f.blocks)):
        si = T.switch_info(bb)
        if si and si[0][0] == "discr" and common.is_p(si[0][1], common.pnames(f, "::Block")):
            for tgt, labs in si[1].items():
                for l in labs:
                    arms.setdefault(l, []).append((bb, tgt))
    ctx.ob(R, "variant switch", set(arms) >= {"PreGenesis", "FinalV2"}, "queue_block branches on the Block variant: %s" % sorted(arms), f.loc())
    for p in push:
        for var, succ in (("PreGenesis", s_pre), ("FinalV2", s_fin)):
            others = [e for v, es in arms.items() if v != var for e in es]
            ok = bool(succ) and cfg.must_pass(p["bb"], list(succ) + others)
            ctx.ob(R, "push dominated for %s" % var, ok,
                   "every path of a %s block to the push passes its verification's success edge" % var if ok else
                   "a %s block can reach BlockStore::try_push without its verification having succeeded" % var, f.loc(p["t"].get("ln")))
    # the pushed block is the verified block
    for p in push:
        args = T.args_of(p)
        clos = [a for a in args if a[0] == "closure"][0]
        okb = any(common.is_p(x, common.pnames(f, "::Block")) for x in subterms(clos))
        ctx.ob(R, "pushed block is the argument", okb, "the closure captures the verified `block` argument" if okb else "the pushed value is not the verified argument", f.loc())
    # FinalBlock::verify arguments: (b, genesis.hash(), epoch, schedule of that epoch)
    for c in T.calls():
        if c["q"] == FINAL_VERIFY:
            a = T.args_of(c)
            ep = a[2]
            ok_epoch = ep[0] == "call" and ep[1].endswith("FinalBlock::epoch")
            sched = a[3]
            ok_sched = any(x[0] == "call" and x[1] == EM + "::validator_schedule" and x[2][1] == ep for x in subterms(sched))
            ok_gen = any(x[0] == "call" and x[1].endswith("Genesis::hash") for x in subterms(a[1])) or "genesis" in show(a[1])
            ctx.ob(R, "verify arguments", ok_epoch and ok_sched and ok_gen,
                   "FinalBlock::verify(genesis.hash(), b.epoch(), validator_schedule(b.epoch()).schedule)" if (ok_epoch and ok_sched and ok_gen) else
                   "FinalBlock::verify is called with (%s, %s, %s)" % (show(a[1])[:60], show(ep)[:60], show(sched)[:80]), f.loc(c["t"].get("ln")))
    # pre-genesis number gate

    def m(a, b):
        ra, na = chain(a)
        rb, nb = chain(b)
        if na[-1:] == ["number"] and nb[-1:] == ["first_block"]:
            return 1
        if nb[-1:] == ["number"] and na[-1:] == ["first_block"]:
            return -1
        return 0
    W = Walker(ctx, f, [Atom("cmp(b.number,genesis.first_block)", "cmp", m, ["<", "=", ">"])])
    pre = [c["bb"] for c in T.calls() if c["q"] == IFACE + "::verify_pregenesis_block"]
    names, tab = W.table({"verify_pregenesis": pre})
    reach = {k[0] for k, v in tab.items() if "verify_pregenesis" in v}
    ctx.ob(R, "pre-genesis number gate", reach == {"<"}, "external justification accepted only for number < genesis.first_block" if reach == {"<"} else
           "verify_pregenesis_block reachable for b.number %s first_block" % sorted(reach), f.loc())


def only_reached_from(ctx, f, allowed, depth=0):
    """The root function of body f is one of `allowed`, or every workspace caller of it (transitively, <= 3
    levels) is: a private function factored out of an allowed anchor."""
    r = root_fn(f)
    if r.qname in allowed:
        return True
    if depth >= 3:
        return False
    callers = set()
    for g in ctx.F.fns:
        if g.in_testonly():
            continue
        for b in g.blocks:
            t = b["t"]
            if t["k"] == "call" and "decl" in t["f"]:
                d, res, rk = g.callee(t)
                if res is not None and res.path == r.path:
                    callers.add(g)
    return bool(callers) and all(only_reached_from(ctx, g, allowed, depth + 1) for g in callers)


def rule_single_door(ctx):
    R = "C08.2"
    ctx.rule(R, "single door: BlockStore::try_push has one caller (inside the send_if_modified closure of queue_block), update_persisted one caller (try_send_modify closure of the runner); BlockStore fields are written only by its own methods; BlockStore is constructed only in EngineManager::new")
    tp = calls_to(ctx, BS + "::try_push")
    ok = len(tp) == 1 and tp[0][0].kind == "closure" and only_reached_from(ctx, tp[0][0], {EM + "::queue_block"})
    ctx.ob(R, "callers of try_push", ok, "try_push is called only from the closure in EngineManager::queue_block" if ok else
           "try_push callers: %s" % [x[0].qname for x in tp], tp[0][0].loc() if tp else None)
    up = calls_to(ctx, BS + "::update_persisted")
    ok = len(up) == 1 and up[0][0].kind == "closure" and only_reached_from(ctx, up[0][0], {"zksync_consensus_engine::manager::EngineManagerRunner::run"})
    ctx.ob(R, "callers of update_persisted", ok, "update_persisted is called only from the runner's try_send_modify closure" if ok else
           "update_persisted callers: %s" % [x[0].qname for x in up])
    # field writers
    writers = set()
    for f in non_test(ctx):
        for bb in range(len(f.blocks)):
            for names, kind, node in Q.stmt_field_writes(f, bb, BS):
                writers.add(root_fn(f).qname)
    allowed = {BS + "::try_push", BS + "::update_persisted", BS + "::truncate_cache"}
    ctx.ob(R, "writers of BlockStore fields", writers <= allowed and bool(writers), "BlockStore fields are written only by %s" % sorted(w.split("::")[-1] for w in writers) if writers <= allowed else
           "BlockStore fields are also written by %s" % sorted(writers - allowed))
    # construction sites
    cons = set()
    for f in non_test(ctx):
        for b in f.blocks:
            for s in b["s"]:
                if s["k"] == "assign" and s["r"]["k"] == "agg" and s["r"].get("def") == BS:
                    cons.add(root_fn(f).qname)
    # EngineManager's constructors: associated functions without a self parameter that return the manager
    def is_ctor(q):
        l = ctx.F.by_qname.get(q, [])
        return bool(l) and q.startswith(EM + "::") and l[0].kind in ("fn", "method") and q.rsplit("::", 1)[1].startswith("new") and not any(n == "self" for n in l[0].var_names().values())
    okc = bool(cons) and all(is_ctor(q) for q in cons)
    ctx.ob(R, "constructors of BlockStore", okc, "BlockStore is built only in EngineManager's constructor(s) %s" % sorted(q.rsplit("::", 1)[1] for q in cons) if okc else "BlockStore is constructed in %s" % sorted(cons))
    # watch mutation API on the BlockStore watch
    mut = []
    for f in non_test(ctx):
        T = ctx.T(f)
        for c in T.calls():
            last = c["q"].rsplit("::", 1)[-1]
            if last in ("send", "send_modify", "send_if_modified", "send_replace", "try_send_modify") and ("watch" in c["q"] or "sync::try_send_modify" in c["q"]):
                tys = [f.ty(i).s for i in c["t"]["f"].get("ga", [])]
                if any(t == BS for t in tys):
                    # a private function factored out of one of the two doors counts as that door
                    door = None
                    for dq in (EM + "::queue_block", "zksync_consensus_engine::manager::EngineManagerRunner::run"):
                        if only_reached_from(ctx, f, {dq}):
                            door = dq.split("::")[-2:]
                    mut.append((door or root_fn(f).qname.split("::")[-2:], last))
    exp = sorted([(["EngineManager", "queue_block"], "send_if_modified"), (["EngineManagerRunner", "run"], "try_send_modify")])
    ctx.ob(R, "watch mutations", sorted(mut) == exp, "the BlockStore watch is mutated only through send_if_modified(try_push) and try_send_modify(update_persisted)" if sorted(mut) == exp else
           "BlockStore watch mutation sites: %s" % sorted(mut))


def rule_next_only(ctx):
    R = "C08.3"
    ctx.rule(R, "next-only append (guard table): try_push mutates the store only when queued.next() == block.number(); queued.last := Last::from(&block) and the same block is appended")
    f = ctx.fn(BS + "::try_push")
    T = ctx.T(f)

    def m(a, b):
        ra, na = chain(a)
        rb, nb = chain(b)
        if na[-2:] == ["queued", "next()"] and nb[-1:] == ["number()"] and rb[0] == "param":
            return 1
        if nb[-2:] == ["queued", "next()"] and na[-1:] == ["number()"] and ra[0] == "param":
            return -1
        return 0
    W = Walker(ctx, f, [Atom("cmp(queued.next(),block.number())", "cmp", m, ["=", "!="], kills=["queued"])])
    muts = set()
    for bb in range(len(f.blocks)):
        if Q.stmt_field_writes(f, bb, BS):
            muts.add(bb)
    for c in T.calls():
        if c["q"].endswith("VecDeque::push_back"):
            muts.add(c["bb"])
    ctx.floor(R, "mutation sites in try_push", len(muts), 2)
    names, tab = W.table({"mutate": muts})
    ok = "mutate" in tab.get(("=",), set()) and "mutate" not in tab.get(("!=",), {"mutate"})
    ctx.ob(R, "append only the next block", ok, "mutation unreachable unless queued.next() == block.number()" if ok else
           "try_push can mutate the store for a block that is not the next one: %s" % {k: sorted(v) for k, v in tab.items()}, f.loc())
    # ... and the next block IS appended: when the numbers match, no return is reachable with the three mutations (last,
    # push_back) skipped - an additional condition would refuse the block the store is waiting for (nothing else is ever
    # accepted for that number: the queue stalls for good)
    if ok:
        pb = frozenset(c["bb"] for c in T.calls() if c["q"].endswith("VecDeque::push_back"))
        cfg0 = ctx.cfg(f, with_cancel=False)
        r = W.reachable({"cmp(queued.next(),block.number())": "="}, 0, pb)
        leak = r & set(cfg0.returns())
        ctx.ob(R, "the next block is always appended", not leak, "with queued.next() == block.number() every return of try_push has appended the block" if not leak else
               "try_push can return without appending the block although it is the next one (an additional condition): the store never accepts that number", f.loc())
    # terms
    okl = False
    for bb in range(len(f.blocks)):
        for s in f.blocks[bb]["s"]:
            if s["k"] == "assign" and [e.get("n") for e in s["p"].get("pr", []) if isinstance(e, dict)] == ["queued", "last"]:
                t = T.rvalue(s["r"])
                okl = t[0] == "agg" and t[2] == "Some" and any(x[0] == "call" and x[1].endswith("::from") and x[2] and x[2][0][0] == "param" for x in subterms(t))
    ctx.ob(R, "queued.last", okl, "queued.last := Some(Last::from(&block))" if okl else "queued.last is not set from the pushed block", f.loc())
    okp = any(c["q"].endswith("VecDeque::push_back") and T.args_of(c)[1][0] == "param" for c in T.calls())
    ctx.ob(R, "appended block", okp, "cache.push_back(block) appends the argument" if okp else "the appended value is not the argument", f.loc())


def rule_persisted_grows(ctx):
    R = "C08.4"
    ctx.rule(R, "persisted range only grows (guard tables): update_persisted bails iff new.next() < old.next(); the queue is reset to the persisted state and the cache emptied exactly when queued.next() < persisted.next()")
    f = ctx.fn(BS + "::update_persisted")
    T = ctx.T(f)
    cfg = ctx.cfg(f)

    def m1(a, b):
        ra, na = chain(a)
        rb, nb = chain(b)
        if na == ["next()"] and ra[0] == "param" and ra[2] != "self" and nb[-2:] == ["persisted", "next()"]:
            return 1
        if nb == ["next()"] and rb[0] == "param" and rb[2] != "self" and na[-2:] == ["persisted", "next()"]:
            return -1
        return 0

    def m2(a, b):
        ra, na = chain(a)
        rb, nb = chain(b)
        if na[-2:] == ["queued", "next()"] and nb[-2:] == ["persisted", "next()"]:
            return 1
        if nb[-2:] == ["queued", "next()"] and na[-2:] == ["persisted", "next()"]:
            return -1
        return 0
    a1 = Atom("cmp(new.next(),persisted.next())", "cmp", m1, ["<", "=", ">"], kills=["persisted"])
    a2 = Atom("cmp(queued.next(),persisted.next())", "cmp", m2, ["<", "=", ">"], kills=[])
    wr_persisted = [bb for bb in range(len(f.blocks)) for names, k, n in Q.stmt_field_writes(f, bb, BS) if names == {"persisted"}]
    wr_queued_all = []
    for bb in range(len(f.blocks)):
        for s in f.blocks[bb]["s"]:
            if s["k"] == "assign":
                fl = [e.get("n") for e in s["p"].get("pr", []) if isinstance(e, dict)]
                if fl == ["queued"]:
                    wr_queued_all.append(bb)
        t = f.blocks[bb]["t"]
        if t["k"] == "call" and [e.get("n") for e in t["dest"].get("pr", []) if isinstance(e, dict)] == ["queued"]:
            wr_queued_all.append(bb)
    clear = []
    for c in T.calls():
        if c["q"].endswith("VecDeque::clear"):
            base, path = field_path(T.args_of(c)[0])
            if path[-1:] == ["cache"]:
                clear.append(c["bb"])
    for bb in range(len(f.blocks)):
        for s in f.blocks[bb]["s"]:
            if s["k"] == "assign" and [e.get("n") for e in s["p"].get("pr", []) if isinstance(e, dict)] == ["cache"]:
                clear.append(bb)   # cache := <fresh value>
    errs = []
    for bi, b in enumerate(f.blocks):
        t = b["t"]
        if t["k"] == "call" and "decl" in t["f"] and f.callee(t)[0].qname in ("anyhow::__private::format_err", "anyhow::Error::msg", "anyhow::__private::must_use"):
            errs.append(bi)
        for s in b["s"]:
            if s["k"] == "assign" and s["p"]["l"] in Q.ret_locals(f) and s["r"]["k"] == "agg" and s["r"].get("variant") == "Err":
                errs.append(bi)
    ctx.floor(R, "writes of persisted", len(wr_persisted), 1)
    ctx.floor(R, "queue reset writes", len(wr_queued_all), 1)
    ctx.floor(R, "cache-emptying sites", len(clear), 1)
    W = Walker(ctx, f, [a1, a2])
    names, tab = W.table({"bail": errs, "store": wr_persisted, "reset_queue": wr_queued_all, "empty_cache": clear})
    for (c1, c2), reach in sorted(tab.items()):
        if c1 == "<":
            ok = "store" not in reach and "bail" in reach
            ctx.ob(R, "row new%sold q%sp" % (c1, c2), ok, "older persisted state rejected" if ok else "an older persisted state can be stored (persisted range would shrink): reaches %s" % sorted(reach), f.loc())
        else:
            exp_reset = c2 == "<"
            ok = "store" in reach and (("reset_queue" in reach) == exp_reset) and (("empty_cache" in reach) == exp_reset)
            ctx.ob(R, "row new%sold q%sp" % (c1, c2), ok, "stored; queue reset and cache emptied: %s" % exp_reset if ok else
                   "for new.next() %s old and queued.next() %s persisted.next() the function reaches %s (expected store, reset/empty iff queued<persisted)" % (c1, c2, sorted(reach)), f.loc())
    # pruning: the first queued number follows the first persisted one upwards, and only upwards - a block number the
    # storage has pruned must not stay advertised as available, and the advertised range never grows downwards
    def m3(a, b):
        na, nb = chain(a)[1], chain(b)[1]
        if na[-2:] == ["queued", "first"] and nb[-2:] == ["persisted", "first"]:
            return 1
        if nb[-2:] == ["queued", "first"] and na[-2:] == ["persisted", "first"]:
            return -1
        return 0
    wr_first = []
    for bb in range(len(f.blocks)):
        for st in f.blocks[bb]["s"]:
            if st["k"] == "assign" and [e.get("n") for e in st["p"].get("pr", []) if isinstance(e, dict)] == ["queued", "first"]:
                wr_first.append((bb, T.rvalue(st["r"])))
    def cls_first(x):
        nx = chain(x)[1]
        return "queued" if nx[-2:] == ["queued", "first"] else "persisted" if nx[-2:] == ["persisted", "first"] else None
    maxform = bool(wr_first) and all(common.select_extreme(ctx, f, v, cls_first) == ("max", common.select_extreme(ctx, f, v, cls_first)[1]) and set(common.select_extreme(ctx, f, v, cls_first)[1]) == {"queued", "persisted"} for _, v in wr_first)
    if maxform:
        ctx.ob(R, "queued.first follows persisted.first upwards only", True, "queued.first := max(queued.first, persisted.first)", f.loc())
    elif wr_first:
        W3 = Walker(ctx, f, [Atom("cmp(queued.first,persisted.first)", "cmp", m3, ["<", "=", ">"], kills=[])])
        start = min(wr_persisted) if wr_persisted else 0
        res = {c: W3.reachable({"cmp(queued.first,persisted.first)": c}, start) for c in "<=>"}
        wb = set(b for b, _ in wr_first)
        okf = bool(wb & res["<"]) and not (wb & res[">"]) and all(chain(v)[1][-2:] == ["persisted", "first"] for _, v in wr_first)
        ctx.ob(R, "queued.first follows persisted.first upwards only", okf, "queued.first := persisted.first exactly when it is lower (pruned blocks stop being advertised; the range never grows downwards)" if okf else
               "queued.first is %s: blocks the storage has pruned stay advertised as available, or the advertised range is extended below what is held" % ("not raised when it is below persisted.first" if not (wb & res["<"]) else "assigned although it is not below persisted.first (or from another value)"), f.loc())
    else:
        ctx.ob(R, "queued.first follows persisted.first upwards only", False, "no assignment to queued.first in update_persisted: pruned blocks stay advertised", f.loc())
    # on the reset branch the cache-emptying post-dominates the queue reset (both happen, no path skips one)
    for wq in wr_queued_all:
        rets = cfg.returns()
        r = cfg.reach_from([wq], avoid_blocks=frozenset(clear))
        # either order is fine: the cache is emptied on every path after the reset, or it was emptied on every path before it
        ok = not (set(rets) & r) or wq in clear or cfg.must_pass_blocks(wq, set(clear))
        ctx.ob(R, "cache emptied with queue reset", ok, "every path from the queue reset to a return empties the cache (clear or fresh value)" if ok else
               "the queue can be fast-forwarded to the persisted state while stale cached blocks are kept (cache not emptied): gap in the cache", f.loc())


def rule_eviction(ctx):
    R = "C08.5"
    ctx.rule(R, "eviction (guard table): truncate_cache pops the front only while len > CACHE_CAPACITY and persisted.next() > front.number()")
    f = ctx.fn(BS + "::truncate_cache")
    T = ctx.T(f)

    def is_cap(t):
        # the capacity bound: the constant, or a configuration field of the store that nothing in this function changes
        if t[0] in ("cdef", "const"):
            return True
        base, path = field_path(t)
        return len(path) == 1 and "capacity" in path[0] and base[0] in ("param", "upvar")

    def m1(a, b):
        ra, na = chain(a)
        if na[-2:] == ["cache", "len()"] and is_cap(b):
            return 1
        rb, nb = chain(b)
        if nb[-2:] == ["cache", "len()"] and is_cap(a):
            return -1
        return 0

    def m2(a, b):
        ra, na = chain(a)
        rb, nb = chain(b)
        if na[-2:] == ["persisted", "next()"] and nb[-1:] == ["number()"]:
            return 1
        if nb[-2:] == ["persisted", "next()"] and na[-1:] == ["number()"]:
            return -1
        return 0
    W = Walker(ctx, f, [Atom("cmp(len,CAP)", "cmp", m1, ["<", "=", ">"], kills=["cache"]), Atom("cmp(persisted.next(),front.number())", "cmp", m2, ["<", "=", ">"], kills=["cache", "persisted"])])
    pops = [c["bb"] for c in T.calls() if c["q"].endswith("VecDeque::pop_front")]
    ctx.floor(R, "pop_front sites", len(pops), 1)
    names, tab = W.table({"pop": pops})
    for (c1, c2), reach in sorted(tab.items()):
        exp = c1 == ">" and c2 == ">"
        got = "pop" in reach
        ctx.ob(R, "row len%sCAP next%sfront" % (c1, c2), exp == got, "pop %s" % ("reachable" if got else "unreachable") if exp == got else
               ("an unpersisted or needed block can be evicted (len %s CAP, persisted.next() %s front)" % (c1, c2) if got else "eviction never happens for the specified case"), f.loc())
    # every eviction is preceded by its own test of the CURRENT front: between two pops the comparison is re-evaluated
    cfg = ctx.cfg(f)
    tests = []
    for bb in range(len(f.blocks)):
        si = T.switch_info(bb)
        if si is None:
            continue
        sc = si[0]
        while sc[0] == "un":
            sc = sc[2]
        ops = None
        if sc[0] == "bin" and len(sc) == 4:
            ops = (sc[2], sc[3])
        elif sc[0] == "call" and len(sc[2]) == 2:
            ops = (sc[2][0], sc[2][1])
        if ops and m2(ops[0], ops[1]):
            tests.append(bb)
    ok_re = bool(tests)
    for pb in pops:
        nxt = [y for _, y in cfg.succ[pb]]
        r = cfg.reach_from(nxt, avoid_blocks=frozenset(tests))
        if set(pops) & r:
            ok_re = False
    ctx.ob(R, "front re-tested before every eviction", ok_re, "between two pop_front calls the comparison persisted.next() > front.number() is evaluated again (on the new front)" if ok_re else
           "after one eviction the next pop_front can happen without re-testing that the (new) front block is persisted: blocks that are queued but not yet persisted can be evicted", f.loc())
    # the front that is compared is cache[0]
    idx = [T.args_of(c) for c in T.calls() if c["q"] == "std::ops::Index::index"]
    ok = any(a[1] == ("const", 0) and field_path(a[0])[1][-1:] == ["cache"] for a in idx)
    ok = ok or any(c["q"].endswith("VecDeque::front") and field_path(T.args_of(c)[0])[1][-1:] == ["cache"] for c in T.calls())
    ok = ok or any(c["q"].endswith("VecDeque::get") and field_path(T.args_of(c)[0])[1][-1:] == ["cache"] and T.args_of(c)[1] == ("const", 0) for c in T.calls())
    ctx.ob(R, "compared element is the front", ok, "the eviction test reads the front of the cache (cache[0] / front() / get(0))" if ok else "the eviction test does not read the front element", f.loc())
    cap = ctx.F.const(BS + "::CACHE_CAPACITY")
    ctx.ob(R, "CACHE_CAPACITY", cap is not None and cap >= 1, "CACHE_CAPACITY = %s" % cap)


def rule_single_writer(ctx):
    R = "C08.6"
    ctx.rule(R, "single storage writer: EngineInterface::queue_next_block has one production call site, reached only from EngineManagerRunner::run; the block handed over is block(max(cursor, persisted.next())) and the cursor is advanced to block.number().next()")
    cs = calls_to(ctx, IFACE + "::queue_next_block")
    ok = len(cs) == 1 and only_reached_from(ctx, cs[0][0], {"zksync_consensus_engine::manager::EngineManagerRunner::run"})
    ctx.ob(R, "call sites of queue_next_block", ok, "exactly one call site, reached only from EngineManagerRunner::run" if ok else "queue_next_block is called from %s" % [x[0].qname for x in cs])
    if not cs:
        return
    f, c = cs[0]
    T = ctx.T(f)
    a = T.args_of(c)
    blk = a[2] if len(a) > 2 else a[-1]
    waits = [x for x in subterms(blk) if x[0] == "call" and x[1].endswith("sync::wait_for_some")]
    okb = bool(waits)
    sel = None
    if waits:
        cl = [y for y in waits[0][2] if y[0] == "closure"]
        if cl:
            g = ctx.F.by_qname.get(cl[0][1], [None])[0]
            if g is not None:
                sel = ctx.T(g).local(0)
    cursor = None
    oks = False
    if sel is not None and sel[0] == "call" and sel[1] == BS + "::block" and len(sel[2]) >= 2:
        def cls(x):
            if chain(x)[1][-2:] == ["persisted", "next()"]:
                return "persisted"
            if x[0] == "upvar":
                return "cursor"
            return None
        kind, ops = common.select_extreme(ctx, g, sel[2][1], cls)
        if kind == "max" and set(ops) == {"persisted", "cursor"}:
            cursor = ops["cursor"][1]
            oks = True
    ctx.ob(R, "block handed to storage", okb and oks, "block = wait_for_some(|s| s.block(max(<cursor>, s.persisted.next())))" if (okb and oks) else
           "the block handed to queue_next_block is %s selected by %s" % (show(blk)[:80], show(sel)[:120] if sel else None), f.loc(c["t"].get("ln")))
    okn = False
    for b in f.blocks:
        for st in b["s"]:
            if st["k"] == "assign" and cursor is not None and T.place(st["p"]) == ("upvar", cursor):
                rt = T.rvalue(st["r"])
                if chain(rt)[1][-2:] == ["number()", "next()"] and any(x[0] == "call" and x[1].endswith("sync::wait_for_some") for x in subterms(rt)):
                    okn = True
    # the cursor may also be a local of the same body (not captured): accept an assignment to the local the closure captures
    if not okn and cursor is not None:
        for b in f.blocks:
            for st in b["s"]:
                if st["k"] == "assign" and not st["p"].get("pr") and f.var_names().get(st["p"]["l"]) == cursor:
                    rt = T.rvalue(st["r"])
                    if chain(rt)[1][-2:] == ["number()", "next()"]:
                        okn = True
    if not okn:
        # the selecting body is a helper that RETURNS block.number().next(); its caller stores the result in the cursor
        rts = []
        for bi, b in enumerate(f.blocks):
            for st in b["s"]:
                if st["k"] == "assign" and st["p"]["l"] in Q.ret_locals(f) and not st["p"].get("pr") and st["r"]["k"] == "agg" and st["r"].get("variant") == "Ok":
                    rts.append(T.rvalue(st["r"]))
        ret_ok = bool(rts) and all(any(chain(x)[1][-2:] == ["number()", "next()"] and any(y[0] == "call" and y[1].endswith("sync::wait_for_some") for y in subterms(x)) for x in subterms(r)) for r in rts)
        if ret_ok and cursor is not None:
            r = root_fn(f)
            for g in non_test(ctx):
                Tg = ctx.T(g)
                for cc in Tg.calls():
                    if (cc["rq"] or cc["q"]) == r.qname:
                        # the cursor passed in is the variable that receives the result
                        a_in = [x for x in Tg.args_of(cc) if x[0] in ("var", "upvar")]
                        for b2 in g.blocks:
                            for st in b2["s"]:
                                if st["k"] == "assign":
                                    rt = Tg.rvalue(st["r"])
                                    if any(x[0] == "call" and x[1] == r.qname for x in subterms(rt)) and any(x[0] in ("try", "await") for x in subterms(rt)):
                                        dst = Tg.place(st["p"]) if st["p"].get("pr") else ("var", st["p"]["l"], g.var_names().get(st["p"]["l"]))
                                        if any(dst[:2] == x[:2] or (dst[0] == "upvar" and x == dst) for x in a_in):
                                            okn = True
    ctx.ob(R, "cursor advance", okn, "the cursor is set to block.number().next() of the block just selected" if okn else "the cursor is not advanced to block.number().next()", f.loc())


def rule_peer_blocks(ctx):
    R = "C08.7"
    ctx.rule(R, "peer blocks: in the gossip runner queue_block is dominated by the check block.number() == requested number")
    sites = [(f, c) for f, c in calls_to(ctx, EM + "::queue_block") if f.crate == "zksync_consensus_network"]
    ctx.floor(R, "queue_block sites in network", len(sites), 1)
    for f, c in sites:
        def m(a, b):
            ra, na = chain(a)
            rb, nb = chain(b)
            if na[-1:] == ["number()"] and nb[-1:] == ["0"]:
                return 1
            if nb[-1:] == ["number()"] and na[-1:] == ["0"]:
                return -1
            return 0
        W = Walker(ctx, f, [Atom("cmp(block.number(),req.0)", "cmp", m, ["=", "!="])])
        names, tab = W.table({"queue": [c["bb"]]})
        ok = "queue" in tab.get(("=",), set()) and "queue" not in tab.get(("!=",), {"queue"})
        ctx.ob(R, "number check in %s" % root_fn(f).qname.split("::")[-1], ok, "a fetched block is queued only if its number equals the requested one" if ok else
               "a block with a number different from the requested one can be queued: %s" % {k: sorted(v) for k, v in tab.items()}, f.loc(c["t"].get("ln")))


def rule_get_block(ctx):
    R = "C08.8"
    ctx.rule(R, "get_block (guard table): a cached or stored block is returned only under queued.contains(number)")
    f = ctx.body(EM + "::get_block")
    T = ctx.T(f)

    def mb(t):
        return t[0] == "call" and t[1] == BSS + "::contains" and chain(t[2][0])[1][-1:] == ["queued"]
    W = Walker(ctx, f, [Atom("queued.contains(n)", "bool", mb, [True, False])])
    cached = [c["bb"] for c in T.calls() if c["q"] == BS + "::block"]
    stored = [c["bb"] for c in T.calls() if c["q"] == IFACE + "::get_block"]
    ctx.floor(R, "cache lookups", len(cached), 1)
    ctx.floor(R, "storage lookups", len(stored), 1)
    names, tab = W.table({"cache": cached, "storage": stored})
    ok = tab.get((True,)) == {"cache", "storage"} and tab.get((False,)) == set()
    ctx.ob(R, "contains gate", ok, "lookups reachable only when queued.contains(number)" if ok else "lookups reachable: %s" % {k: sorted(v) for k, v in tab.items()}, f.loc())


def rule_state_predicates(ctx):
    R = "C08.10"
    ctx.rule(R, "state predicates (truth tables): BlockStoreState::contains(n) is true exactly when a last block exists and first <= n <= last.number(); wait_until_queued / wait_until_persisted wait for n < next() of the queued / persisted state")
    from engine.guards import Inliner
    BSS = "zksync_consensus_engine::block_store::BlockStoreState"
    f = ctx.fn(BSS + "::contains")

    def is_last(t):
        return chain(t)[1][-1:] == ["last"]

    def m_first(a, b):
        if chain(a)[1][-1:] == ["first"] and b[0] == "param" and b[1] == 2:
            return 1
        if chain(b)[1][-1:] == ["first"] and a[0] == "param" and a[1] == 2:
            return -1
        return 0

    def m_last(a, b):
        la = any(x[0] == "call" and x[1].endswith("Last::number") for x in subterms(a))
        lb = any(x[0] == "call" and x[1].endswith("Last::number") for x in subterms(b))
        if a[0] == "param" and a[1] == 2 and lb:
            return 1
        if b[0] == "param" and b[1] == 2 and la:
            return -1
        return 0
    W = Walker(ctx, f, [Atom("last", "opt", is_last, ["None", "Some"]), Atom("cmp(first,n)", "cmp", m_first, ["<", "=", ">"]), Atom("cmp(n,last)", "cmp", m_last, ["<", "=", ">"])])
    bad, undec = [], 0
    for la in ("None", "Some"):
        for c1 in "<=>":
            for c2 in "<=>":
                exp = la == "Some" and c1 in "<=" and c2 in "<="
                tr = common.ret_truths(ctx, W, f, {"last": la, "cmp(first,n)": c1, "cmp(n,last)": c2})
                if not tr or None in tr:
                    undec += 1
                elif tr != {exp}:
                    bad.append((la, c1, c2, sorted(tr)))
    # independent of the table's shape: every order comparison in contains() has the queried number on one side - a bound that is
    # compared with the range's own other end (`first <= last`) is a dropped bound
    Tf = ctx.T(f)
    for c in Tf.calls():
        q = c["rq"] or c["q"]
        if q.endswith(("PartialOrd::lt", "PartialOrd::le", "PartialOrd::gt", "PartialOrd::ge")) or q.endswith(("PartialOrd>::lt", "PartialOrd>::le", "PartialOrd>::gt", "PartialOrd>::ge")):
            args = Tf.args_of(c)
            if len(args) == 2 and not any(x[0] == "param" and x[1] == 2 for a in args for x in subterms(a)):
                from engine.terms import show
                ctx.ob(R, "contains(n) bounds", False, "BlockStoreState::contains compares %s with %s: neither side is the queried block number, so one bound of first <= n <= last is not checked (a peer is asked for / claims blocks outside its range)" % (show(args[0])[:60], show(args[1])[:60]), f.loc(c["t"].get("ln")))
                bad = bad or [("bound without n",)]
    if undec and not bad:
        ctx.note("C08.10 BlockStoreState::contains: %d of 18 valuations not evaluated - not decided" % undec)
    ctx.ob(R, "contains(n)", not bad, ("contains(n) == last.is_some() && first <= n <= last.number() (18 valuations)" if not undec else "undecided shape (not reported)") if not bad else
           "BlockStoreState::contains deviates for (last, first vs n, n vs last.number()) = %s: blocks are claimed present/absent wrongly (peers are asked for blocks they do not have, or never asked)" % bad[:3], f.loc())
    # wait predicates
    for fname, what in (("wait_until_queued", "queued"), ("wait_until_persisted", "persisted")):
        top = ctx.fn(EM + "::" + fname)
        preds = []
        for g in common.family(ctx, top, ("closure",)):
            Tg = ctx.T(g)
            rt = Inliner(ctx).ret_term(g)
            if rt is not None and any(x[0] == "call" and x[1].endswith("BlockStoreState::next") for x in subterms(rt)):
                preds.append(g)
        if not preds:
            heads = [g for g in common.family(ctx, top, ("closure",)) if (lambda rt: rt is not None and any(x[0] == "call" and x[1].endswith("BlockStoreState::head") for x in subterms(rt)))(Inliner(ctx).ret_term(g))]
            if heads:
                ctx.ob(R, "%s predicate" % fname, False, "%s(n) compares n with %s.head() instead of n < %s.next(): head() of an EMPTY store is first-1, clamped to 0 at the origin, so block 0 (or `first`) counts as %s while nothing is stored - the waiter returns early" % (fname, what, what, what), heads[0].loc())
                continue
        ctx.floor(R, "%s predicate" % fname, len(preds), 1)
        for g in preds:
            def m_next(a, b):
                na = any(x[0] == "call" and x[1].endswith("BlockStoreState::next") for x in subterms(a))
                nb = any(x[0] == "call" and x[1].endswith("BlockStoreState::next") for x in subterms(b))
                if not na and nb:
                    return 1
                if na and not nb:
                    return -1
                return 0
            Wg = Walker(ctx, g, [Atom("cmp(n,next)", "cmp", m_next, ["<", "=", ">"])])
            res = {c: common.ret_truths(ctx, Wg, g, {"cmp(n,next)": c}) for c in "<=>"}
            if any((not v) or None in v for v in res.values()):
                ctx.note("C08.10 %s predicate: not evaluated - not decided" % fname)
                ctx.ob(R, "%s predicate" % fname, True, "undecided shape (not reported)", g.loc())
            else:
                ok = res["<"] == {True} and res["="] == {False} and res[">"] == {False}
                ctx.ob(R, "%s predicate" % fname, ok, "%s(n) waits for n < %s.next()" % (fname, what) if ok else
                       "%s(n) returns for (n vs %s.next()) %s: it can return before block n is %s" % (fname, what, {k: sorted(v) for k, v in res.items()}, what), g.loc())


def rule_epoch_schedule_poll(ctx):
    R = "C08.11"
    ctx.rule(R, "epoch schedule maintenance (dynamic schedules): in every iteration of the updater, once the durable head is past the activation block of the last known epoch the execution layer IS asked for the pending schedule (must-poll; no other condition can skip it - in particular not 'the head did not move', which is exactly the situation after a restart at the last block of an epoch), and a returned schedule is filed under the epoch after the current one with the current epoch's expiration set to the block before its activation. Until the next epoch's schedule is known, blocks and payloads after the boundary are judged by the old committee - two correct nodes can then accept different blocks for one number")
    bodies = []
    for f in ctx.F.fns:
        if f.in_testonly() or f.crate != "zksync_consensus_engine" or "interface" in f.file:
            continue
        if any(c["q"].endswith("EngineInterface::get_pending_validator_schedule") for c in ctx.T(f).calls()):
            bodies.append(f)
    ctx.floor(R, "bodies polling the pending validator schedule", len(bodies), 1)
    for f in bodies:
        T = ctx.T(f)
        polls = frozenset(c["bb"] for c in T.calls() if c["q"].endswith("EngineInterface::get_pending_validator_schedule"))

        def m(a, b):
            act_a = chain(a)[1][-1:] == ["activation_block"]
            act_b = chain(b)[1][-1:] == ["activation_block"]
            if act_b and not act_a:
                return 1        # cmp(head, activation)
            if act_a and not act_b:
                return -1
            return 0
        if not common.atom_is_tested(ctx, f, m):
            ctx.note("C08.11: no comparison with the last epoch's activation block found in the updater - not decided")
            ctx.ob(R, "must-poll past the activation block", True, "undecided shape (not reported)", f.loc())
            continue
        W = Walker(ctx, f, [Atom("cmp(head, last activation)", "cmp", m, ["<", "=", ">"])])
        rets = set(Q.success_return_blocks(ctx, f)) if f.locals[0].s.startswith("std::result::Result<") else set(b for b, _ in Q.return_blocks_maybe_ok(ctx, f))
        r = W.reachable({"cmp(head, last activation)": ">"}, 0, polls)
        leak = r & rets
        ctx.ob(R, "must-poll past the activation block", not leak and bool(rets), "with head > activation of the last known epoch every completed iteration has asked get_pending_validator_schedule" if not leak and rets else
               "an iteration of the schedule updater can complete without asking for the pending schedule although the head is past the last epoch's activation block (an additional skip condition): after a restart at an epoch boundary the next committee stays unknown and blocks beyond the boundary are attributed to the old epoch", f.loc())
        # never polled earlier than that (the execution layer's answer is only meaningful past the activation block)
        names, tab = W.table({"poll": list(polls)})
        early = [k for k, v in tab.items() if k[0] in ("<", "=") and "poll" in v]
        ctx.ob(R, "poll gated by the activation block", not early, "the pending schedule is requested only when head > activation" if not early else "the pending schedule is requested under %s" % early, f.loc())
    # the filing: insert(cur_epoch.next(), ..) and the expiration of the current entry
    ins = []
    for f in ctx.F.fns:
        if f.in_testonly() or f.crate != "zksync_consensus_engine":
            continue
        T = ctx.T(f)
        for c in T.calls():
            if c["q"].endswith("BTreeMap::insert") and any("ScheduleWithLifetime" in f.ty(i).s for i in c["t"]["f"].get("ga", [])):
                ins.append((f, T.args_of(c)))
    def key_terms(f, t):
        """the key argument, looked through a local of the body and through a capture of the enclosing body"""
        out = list(common.value_terms(f, ctx.T(f), t))
        for u in list(out):
            if u[0] == "upvar" and f.parent is not None:
                common.owner_roots(ctx, f)
                for g in ctx.F._creators.get(f.path, ()):
                    Tg = ctx.T(g)
                    for blk in g.blocks:
                        for st in blk["s"]:
                            if st["k"] == "assign" and st["r"]["k"] == "agg" and st["r"].get("def") == f.path:
                                ct = Tg.rvalue(st["r"])
                                if ct[0] == "closure":
                                    for cap, op in zip(f.captures, ct[2]):
                                        if cap["name"] == u[1]:
                                            out += list(common.value_terms(g, Tg, op))
        return out
    nxt = [a for f, a in ins if len(a) > 1 and any(x[0] == "call" and x[1].endswith("EpochNumber::next") for u in key_terms(f, a[1]) for x in subterms(u))]
    ctx.ob(R, "pending schedule filed under the next epoch", len(nxt) >= 1, "epoch_schedule.insert(cur_epoch.next(), pending)" if nxt else "no insertion of a schedule under cur_epoch.next() found (insert keys: %s)" % [show(a[1])[:40] for f, a in ins if len(a) > 1])


def rule_epoch_gate(ctx):
    R = "C08.12"
    ctx.rule(R, "the epoch of a block number: epoch_for_block(n) is the epoch whose [activation_block, expiration_block] contains n (both ends inclusive; an open epoch has no expiration) - decided as a truth table of its predicate; and verify_payload hands a payload to the execution layer only when epoch_for_block(number) == Some(epoch) of the caller. An off-by-one at the boundary lets the validators of epoch N vote for the first block of epoch N+1, which the next committee decides as well: two valid certificates for one number")
    cl = [g for g in ctx.F.fns if not g.in_testonly() and g.qname.endswith("EngineManager::epoch_for_block::{closure#0}")]
    if not cl:
        # written without the find-predicate closure (e.g. an explicit loop): the interval test is not evaluated for that form
        have = bool(ctx.F.by_qname.get(EM + "::epoch_for_block")) or (EM + "::epoch_for_block") in getattr(ctx.F, "helpers", {})
        if have:
            ctx.note("C08.12 epoch_for_block: no find-predicate closure (loop form) - interval table not decided")
            ctx.ob(R, "epoch_for_block predicate table", True, "undecided shape (not reported)")
    for g in cl:
        def side(t):
            n = chain(t)[1]
            if n[-1:] == ["activation_block"]:
                return "act"
            if any(x[0] == "field" and x[2] == "expiration_block" for x in subterms(t)):
                return "exp"
            r = chain(t)[0]
            if r[0] == "upvar" or (r[0] == "param" and not n):
                return "n"
            return None

        def mk(which):
            def m(a, b):
                sa, sb = side(a), side(b)
                if sa == which and sb == "n":
                    return 1
                if sb == which and sa == "n":
                    return -1
                return 0
            return m

        def a_exp(t):
            return t[0] == "field" and t[2] == "expiration_block"
        atoms = [Atom("cmp(activation,n)", "cmp", mk("act"), ["<", "=", ">"]), Atom("expiration", "opt", a_exp, ["None", "Some"]), Atom("cmp(expiration,n)", "cmp", mk("exp"), ["<", "=", ">"])]
        W = Walker(ctx, g, atoms)
        bad, undec = [], 0
        for a in "<=>":
            for e in ("None", "Some"):
                for x in "<=>":
                    if e == "None" and x != "=":
                        continue
                    exp = a in "<=" and (e == "None" or x in "=>")
                    tr = common.ret_truths(ctx, W, g, {"cmp(activation,n)": a, "expiration": e, "cmp(expiration,n)": x})
                    if not tr or None in tr:
                        undec += 1
                    elif tr != {exp}:
                        bad.append((a, e, x, sorted(tr)))
        if bad:
            ctx.ob(R, "epoch_for_block predicate table", False, "epoch_for_block's predicate deviates for (activation vs n, expiration, expiration vs n) = %s: the epoch interval is not [activation, expiration] inclusive" % bad[:3], g.loc())
        elif undec:
            ctx.note("C08.12 epoch_for_block predicate: %d valuations not evaluated - not decided" % undec)
            ctx.ob(R, "epoch_for_block predicate table", True, "undecided shape (not reported)", g.loc())
        else:
            ctx.ob(R, "epoch_for_block predicate table", True, "true exactly when activation <= n and (no expiration or n <= expiration) (12 valuations)", g.loc())
    f = ctx.body(EM + "::verify_payload")
    T = ctx.T(f)
    iv = [c["bb"] for c in T.calls() if c["q"].endswith("EngineInterface::verify_payload")]
    ctx.floor(R, "execution-layer verify_payload sites", len(iv), 1)

    def is_efb(t):
        return any((x[0] == "call" and x[1].endswith("EngineManager::epoch_for_block")) or (x[0] == "closure" and "EngineManager::epoch_for_block::" in x[1]) for x in subterms(t))

    def m2(a, b):
        if is_efb(a) and not is_efb(b):
            return 1
        if is_efb(b) and not is_efb(a):
            return -1
        return 0
    uses = any((c["rq"] or c["q"]).endswith("EngineManager::epoch_for_block") for c in T.calls()) or any(str(b_["t"].get("inlined_call", "")).endswith("EngineManager::epoch_for_block") for b_ in f.blocks) \
        or any(x[0] == "closure" and "EngineManager::epoch_for_block::" in x[1] for c in T.calls() for a_ in T.args_of(c) for x in subterms(a_))
    if not common.atom_is_tested(ctx, f, m2) and uses:
        ctx.note("C08.12 verify_payload: epoch_for_block is used but its result is not compared in a recognised form - not decided")
        ctx.ob(R, "verify_payload epoch gate", True, "undecided shape (not reported)", f.loc())
        return
    if not common.atom_is_tested(ctx, f, m2):
        ctx.ob(R, "verify_payload epoch gate", False, "verify_payload no longer compares epoch_for_block(number) with the caller's epoch (the one predicate whose boundary table is checked): the epoch membership of the block is decided by other means or not at all", f.loc())
        return
    W = Walker(ctx, f, [Atom("epoch_for_block(number) vs Some(epoch)", "cmp", m2, ["=", "!="])])
    names, tab = W.table({"verify": iv})
    ok = "verify" in tab.get(("=",), set()) and "verify" not in tab.get(("!=",), {"verify"})
    ctx.ob(R, "verify_payload epoch gate", ok, "the execution layer is asked only when epoch_for_block(number) == Some(epoch)" if ok else "verify_payload reaches the execution layer although the block number does not belong to the caller's epoch: %s" % {k: sorted(v) for k, v in tab.items()}, f.loc())


def rule_visibility(ctx):
    R = "C08.9"
    ctx.rule(R, "closed world: BlockStore and try_push/update_persisted are not reachable from outside the engine crate (rustc effective visibility)")
    a = ctx.F.adts.get(BS)
    ctx.ob(R, "BlockStore visibility", a is not None and not a["reach"], "BlockStore is not reachable from other crates (vis %s)" % (a["vis"] if a else None) if a is not None and not a["reach"] else "BlockStore is exported")
    for n in ("try_push", "update_persisted"):
        f = ctx.fn(BS + "::" + n)
        ctx.ob(R, "%s visibility" % n, not f.reach, "%s not reachable from other crates (vis %s)" % (n, f.vis) if not f.reach else "%s is exported" % n, f.loc())
    # the watch holding the store is a private field
    flds = dict((n, t) for n, t in ctx.F.adt_fields(EM))
    a = ctx.F.adts[EM]
    vis = {f["name"]: f["vis"] for f in a["variants"][0]["fields"]}
    ctx.ob(R, "EngineManager.block_store private", vis.get("block_store") not in ("pub",), "EngineManager.block_store visibility: %s" % vis.get("block_store"))


RULES = [("C08.1", rule_verify_before_queue), ("C08.2", rule_single_door), ("C08.3", rule_next_only), ("C08.4", rule_persisted_grows),
         ("C08.5", rule_eviction), ("C08.6", rule_single_writer), ("C08.7", rule_peer_blocks), ("C08.8", rule_get_block), ("C08.9", rule_visibility), ("C08.10", rule_state_predicates), ("C08.11", rule_epoch_schedule_poll), ("C08.12", rule_epoch_gate)]
