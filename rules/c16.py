"""C16 — pending consensus input stays bounded and always keeps the freshest vote."""
from engine import query as Q
from . import common
from engine.terms import show, subterms
from engine.guards import Atom, Walker, field_path, chain, Inliner
from .phase_gate import SM, msg_view_number, self_field, view_cmp_atom

BFT = "zksync_consensus_bft"
MPSC = "zksync_concurrency::sync::prunable_mpsc"
SFR = MPSC + "::SelectionFunctionResult"


def const_bool_assign_blocks(f, local, value):
    out = []
    for bi, b in enumerate(f.blocks):
        for s in b["s"]:
            if s["k"] == "assign" and s["p"]["l"] == local and not s["p"].get("pr") and s["r"]["k"] == "use":
                k = s["r"]["o"].get("k")
                if k and k.get("v") == value:
                    out.append(bi)
    return out


def rule_selection(ctx):
    R = "C16.1"
    ctx.rule(R, "selection table (12 valuations): different sender or kind -> Keep; same sender and kind: old.view < new.view -> DiscardOld, otherwise DiscardNew")
    f = ctx.fn(BFT + "::inbound_selection_function")
    T = ctx.T(f)

    def side(t):
        root, names = chain(t)
        if root[0] == "param":
            return root[1]
        return None

    def mk(last):
        def m(a, b):
            ra, na = chain(a)
            rb, nb = chain(b)
            if na[-1:] == [last] and nb[-1:] == [last] and ra[0] == "param" and rb[0] == "param" and ra[1] != rb[1]:
                return 1 if ra[1] < rb[1] else -1
            return 0
        return m
    atoms = [Atom("key", "cmp", mk("key"), ["=", "!="]), Atom("label", "cmp", mk("label()"), ["=", "!="]),
             Atom("cmp(old.view,new.view)", "cmp", mk("view_number()"), ["<", "=", ">"])]
    W = Walker(ctx, f, atoms)
    res = {}
    for bi, b in enumerate(f.blocks):
        for s in b["s"]:
            if s["k"] == "assign" and s["p"]["l"] in Q.ret_locals(f) and s["r"]["k"] == "agg" and s["r"].get("def") == SFR:
                res.setdefault(s["r"]["variant"], []).append(bi)
    ctx.ob(R, "result sites", set(res) == {"Keep", "DiscardOld", "DiscardNew"}, "returns %s" % sorted(res), f.loc())
    names, tab = W.table(res)
    for (k, l, c), reach in sorted(tab.items()):
        if k == "!=" or l == "!=":
            exp = {"Keep"}
        elif c == "<":
            exp = {"DiscardOld"}
        else:
            exp = {"DiscardNew"}
        ctx.ob(R, "row key%s label%s view%s" % (k, l, c), reach == exp, "-> %s" % sorted(reach) if reach == exp else
               "for key %s, kind %s, old.view %s new.view the function can return %s (specified: %s)" % (k, l, c, sorted(reach), sorted(exp)), f.loc())


def rule_filter_and_wiring(ctx):
    R = "C16.2"
    ctx.rule(R, "filter: the predicate is new_req.msg.verify().is_ok(); create_input_channel wires exactly the filter and the selection function into the prunable channel, and the executor feeds bft from it")
    f = ctx.fn(BFT + "::inbound_filter_predicate")
    t = Inliner(ctx).ret_term(f)
    ok = t is not None and t[0] == "call" and t[1] == "std::result::Result::is_ok" and t[2][0][0] == "call" and t[2][0][1].endswith("Signed::verify") and chain(t[2][0][2][0])[1][-1:] == ["msg"]
    if not ok:
        # any other way of writing it: evaluated under both outcomes of the signature check of the message itself
        from .c04 import call_atom
        Tf = ctx.T(f)
        recv = [Tf.args_of(c)[0] for c in Tf.calls() if c["q"].endswith("Signed::verify")]
        on_msg = bool(recv) and all(chain(r)[1][-1:] == ["msg"] and chain(r)[0][0] == "param" for r in recv)
        Wf = Walker(ctx, f, [call_atom("signature", ["Signed::verify"])])
        t_ok, t_bad = common.ret_truths(ctx, Wf, f, {"signature": True}), common.ret_truths(ctx, Wf, f, {"signature": False})
        if on_msg and t_ok == {True} and t_bad == {False}:
            ctx.ob(R, "filter term", True, "inbound_filter_predicate returns true exactly when new_req.msg.verify() succeeds (both outcomes evaluated)", f.loc())
        elif on_msg and (not t_ok or not t_bad or None in t_ok or None in t_bad):
            ctx.note("C16.2 filter predicate: outcome not evaluated (%s / %s) - not decided" % (sorted(map(str, t_ok)), sorted(map(str, t_bad))))
            ctx.ob(R, "filter term", True, "undecided shape (not reported)", f.loc())
        else:
            ctx.ob(R, "filter term", False, "the filter predicate is not `the message's signature verifies`: with a valid signature it returns %s, with an invalid one %s%s" % (sorted(map(str, t_ok)), sorted(map(str, t_bad)), "" if on_msg else " (verify is not called on the message)"), f.loc())
    else:
        ctx.ob(R, "filter term", ok, "inbound_filter_predicate = new_req.msg.verify().is_ok()", f.loc())
    g = ctx.fn(BFT + "::create_input_channel")
    T = ctx.T(g)
    cs = [T.args_of(c) for c in T.calls() if c["q"] == MPSC + "::channel"]
    ok = len(cs) == 1 and cs[0][0] == ("cfn", BFT + "::inbound_filter_predicate") and cs[0][1] == ("cfn", BFT + "::inbound_selection_function")
    ctx.ob(R, "channel wiring", ok, "channel(inbound_filter_predicate, inbound_selection_function)" if ok else "create_input_channel builds the channel with %s" % [show(a) for c in cs for a in c], g.loc())
    users = [h for h in ctx.F.fns if not h.in_testonly() and h.crate != BFT and any(c["q"] == BFT + "::create_input_channel" for c in ctx.T(h).calls())]
    ctx.ob(R, "executor uses the pruned channel", len(users) >= 1, "create_input_channel is called from %s" % [u.qname.split("::")[-2] for u in users][:3])
    other = [h.qname for h in ctx.F.fns if not h.in_testonly() and h.crate in ("zksync_consensus_executor", BFT, "zksync_consensus_network") and any(c["q"] == MPSC + "::unpruned_channel" for c in ctx.T(h).calls())]
    ctx.ob(R, "no unpruned channel in production wiring", not other, "no production caller of unpruned_channel" if not other else "unpruned_channel used in %s" % other[:3])


def _inside_critical(ctx, g, send, modcl, depth):
    """g runs only inside the closure handed to send_modify: it is that closure, it is created (after virtual inlining
    of private helpers) only in bodies that are inside, or it is a helper function all of whose call sites are"""
    if depth > 6:
        return False
    if g.qname in modcl:
        return True
    if g is send or g is ctx.F.body_of(send):
        return False
    if g.kind not in ("fn", "method"):
        common.owner_roots(ctx, g)          # builds the creators index
        cs = ctx.F._creators.get(g.path, ())
        if cs:
            return all(_inside_critical(ctx, c, send, modcl, depth + 1) for c in cs)
        return g.parent is not None and _inside_critical(ctx, g.parent, send, modcl, depth + 1)
    sites = []
    for c in ctx.F.fns:
        if c.in_testonly() or not c.qname.startswith(MPSC):
            continue
        for call in ctx.T(c).calls():
            if (call["rq"] or call["q"]) == g.qname:
                sites.append(c)
    return bool(sites) and all(_inside_critical(ctx, c, send, modcl, depth + 1) for c in sites)


def rule_channel(ctx):
    R = "C16.4"
    ctx.rule(R, "channel semantics: a filtered value never reaches the buffer; retain keeps on Keep/DiscardNew and drops on DiscardOld; the value is appended iff no DiscardNew; the buffer is mutated only by retain/push_back (send) and pop_front (recv)")
    send = ctx.fn(MPSC + "::Sender::send")
    T = ctx.T(send)

    def is_filter(t):
        return t[0] in ("icall", "call") and any(x[0] == "field" and x[2] == "filter_predicate" for x in subterms(t))
    W = Walker(ctx, send, [Atom("filter(value)", "bool", is_filter, [True, False])])
    mods = [c["bb"] for c in T.calls() if c["q"].endswith("::send_modify")]
    ctx.floor(R, "send_modify sites in Sender::send", len(mods), 1)
    names, tab = W.table({"modify": mods})
    ok = tab.get((True,)) == {"modify"} and tab.get((False,)) == set()
    ctx.ob(R, "filtered values dropped", ok, "the buffer is touched only when the filter accepted the value" if ok else "buffer modification reachable: %s" % {k: sorted(v) for k, v in tab.items()}, send.loc())
    # who mutates the buffer, and how: only order-preserving removal (retain / remove by position), append at the back and
    # pop at the front - then the retained messages leave in arrival order. In-place replacement (iter_mut, get_mut,
    # IndexMut), insertion elsewhere than the back, swaps and rotations break FIFO among the retained messages.
    muts = set()
    for g in ctx.F.fns:
        if g.in_testonly() or not g.qname.startswith(MPSC):
            continue
        for c in ctx.T(g).calls():
            tys = [g.ty(i).s for i in c["t"]["f"].get("ga", [])]
            if c["q"].startswith("std::collections::VecDeque::") or c["q"].startswith("std::collections::vec_deque::"):
                m = c["q"].rsplit("::", 1)[1]
                if m not in ("is_empty", "len", "new", "iter", "front", "back", "get", "contains", "with_capacity", "capacity"):
                    muts.add(m)
            elif c["q"] == "std::ops::IndexMut::index_mut" and any(t.startswith("std::collections::VecDeque<") for t in tys):
                muts.add("index_mut")
            elif c["q"] in ("std::mem::take", "std::mem::replace", "std::mem::swap") and any(t.startswith("std::collections::VecDeque<") for t in tys):
                muts.add("mem::" + c["q"].rsplit("::", 1)[1])       # the whole pending queue is moved out / replaced
        for b in g.blocks:
            for st in b["s"]:
                if st["k"] == "assign" and st.get("p", {}).get("pr") and st["p"]["pr"][-1] == "*" and "t" in st["p"] and g.ty(st["p"]["t"]).s.startswith("std::collections::VecDeque<"):
                    muts.add("whole-queue assignment")
    allowed = {"retain", "push_back", "pop_front", "remove"}
    okm = muts <= allowed and {"push_back", "pop_front"} <= muts
    ctx.ob(R, "buffer mutators", okm, "VecDeque mutators used in prunable_mpsc: %s (FIFO among retained)" % sorted(muts) if okm else
           "the pending queue is mutated by %s (allowed: order-preserving removal, push_back, pop_front): retained messages are no longer delivered in arrival order" % sorted(muts - allowed or muts))
    # everything that is pending is in the one queue the selection function sees: neither end of the channel keeps a
    # queue of its own (a receiver-side batch would hide pending messages from pruning)
    priv = []
    for an in (MPSC + "::Receiver", MPSC + "::Sender", MPSC + "::Shared"):
        ad = ctx.F.adts.get(an)
        for v in (ad or {}).get("variants", []):
            for fl in v["fields"]:
                ty = ad["_types"][fl["t"]].s
                inner = ty
                if "watch::" in ty:
                    continue            # the shared queue itself
                if any(k in inner for k in ("VecDeque<", "std::vec::Vec<", "BinaryHeap<", "LinkedList<", "BTreeMap<", "HashMap<")):
                    priv.append("%s.%s: %s" % (an.rsplit("::", 1)[1], fl["name"], ty[:60]))
    ctx.ob(R, "no private queue", not priv, "Sender / Receiver / Shared hold no collection besides the watched queue" if not priv else
           "an end of the channel keeps messages in a collection of its own (%s): they are pending but invisible to the selection function, so a newer vote cannot supersede them" % priv[:2])
    # the whole keep / discard-old / discard-new decision is taken inside ONE critical section: every evaluation of the
    # selection function against pending values happens in the closure handed to send_modify (or below it). A pre-check
    # under the shared borrow() lets two concurrent senders of the same (sender, kind) both pass and both be queued.
    modcl = set()
    for c in T.calls():
        if c["q"].endswith("::send_modify") or c["q"].endswith("::send_if_modified"):
            modcl.update(x[1] for x in T.args_of(c) if x[0] == "closure")
    outside = []
    nsel = 0
    for g in [send] + common.family(ctx, send, ("closure",)):
        Tg = ctx.T(g)
        if not any(blk["t"]["k"] == "call" and any(y[0] == "field" and y[2] == "selection_function" for y in subterms(Tg.call_term(blk["t"]))) for blk in g.blocks):
            continue
        nsel += 1
        if not _inside_critical(ctx, g, send, modcl, 0):
            outside.append(g)
    if nsel:
        ctx.ob(R, "selection decided inside the critical section", not outside, "every call of the selection function sits in the closure run by send_modify" if not outside else
               "the selection function is evaluated against the pending queue outside the send_modify critical section (%s): the outcome is acted on after the lock was released, so concurrent senders of the same (sender, kind) can both be queued and a stale vote can stay pending" % outside[0].qname.split("::", 2)[-1], outside[0].loc() if outside else send.loc())
    kids = [g for g in ctx.F.fns if g.parent is send]
    outer = [g for g in kids if any(c["q"].endswith("VecDeque::retain") for c in ctx.T(g).calls())]
    if not outer:
        # pruning written as an explicit loop (selection call + removal by position inside the send_modify closure):
        # the per-element semantics are not decided for that form; the ingredients must still be there
        fam = common.family(ctx, send, ("closure",))

        def has_sel(g):
            Tg = ctx.T(g)
            for blk in g.blocks:
                if blk["t"]["k"] == "call":
                    ct = Tg.call_term(blk["t"])
                    if any(y[0] == "field" and y[2] == "selection_function" for y in subterms(ct)):
                        return True
            return False
        loopform = [g for g in fam if has_sel(g) and any(c["q"].endswith(("VecDeque::remove", "VecDeque::swap_remove_back", "VecDeque::drain")) for c in ctx.T(g).calls())
                    and any(c["q"].endswith("VecDeque::push_back") for c in ctx.T(g).calls())]
        if loopform:
            ctx.note("C16.4: the pending queue is pruned by an explicit loop (no retain): Keep/DiscardOld/DiscardNew handling not decided for this form")
            ctx.ob(R, "pruning form", True, "undecided shape (not reported): explicit loop over the pending values with the selection function, removal by position and push_back", loopform[0].loc())
            return
    ctx.floor(R, "closure calling retain", len(outer), 1)
    if not outer:
        return
    o = outer[0]
    To = ctx.T(o)
    # the "new value superseded" flag: the bool local of `o` captured (mutably) by the predicate closure handed to retain.
    # It is identified by its role, never by its name; v0 is the constant it is initialised with.
    rc = [c for c in To.calls() if c["q"].endswith("VecDeque::retain")][-1]
    pred = [x for x in To.args_of(rc) if x[0] == "closure"]
    p = ctx.F.by_qname.get(pred[0][1], [None])[0] if pred else None
    ctx.floor(R, "retain predicate closure", 1 if p is not None else 0, 1)
    if p is None:
        return
    flags = [(i, cap) for i, cap in enumerate(pred[0][2]) if cap[0] == "var" and o.locals[cap[1]].s == "bool"]
    ctx.ob(R, "supersession flag", len(flags) == 1, "the predicate closure captures exactly one bool cell of the enclosing closure" if len(flags) == 1 else "flag cell not identified (captures: %s)" % [show(c)[:40] for c in pred[0][2]], o.loc())
    if len(flags) != 1:
        return
    fi, fcap = flags[0]
    fl = fcap[1]
    fname_in_p = p.captures[fi]["name"] if fi < len(p.captures) else None
    inits = [s["r"]["o"]["k"].get("v") for b in o.blocks for s in b["s"] if s["k"] == "assign" and s["p"]["l"] == fl and not s["p"].get("pr") and s["r"]["k"] == "use" and "k" in s["r"]["o"]]
    v0 = bool(inits[0]) if len(inits) == 1 and inits[0] in (0, 1) else None
    ctx.ob(R, "flag initialised once with a constant", v0 is not None, "flag := %s before retain" % str(v0).lower() if v0 is not None else "initialisations of the flag: %s" % inits, o.loc())
    if v0 is None:
        return
    W = Walker(ctx, o, [Atom("flag", "bool", lambda t: t[0] == "var" and t[1] == fl, [True, False])])
    pb = [c["bb"] for c in To.calls() if c["q"].endswith("VecDeque::push_back")]
    ctx.floor(R, "push_back sites", len(pb), 1)
    names, tab = W.table({"push": pb}, start=rc["bb"])
    ok = tab.get((v0,)) == {"push"} and tab.get((not v0,)) == set()
    ctx.ob(R, "append iff keep", ok, "push_back(value) reachable exactly when no pending value superseded the new one" if ok else "push_back reachability by flag value (initial %s): %s" % (v0, {k: sorted(v) for k, v in tab.items()}), o.loc())
    vn = common.pnames(send, index=2)
    okv = any(common.is_p(To.args_of(c)[1], vn) for c in To.calls() if c["q"].endswith("VecDeque::push_back"))
    ctx.ob(R, "appended value", okv, "the appended element is the sent value" if okv else "the appended element is not the sent value", o.loc())
    Tp = ctx.T(p)

    def is_sel(t):
        return t[0] in ("icall", "call") and any(x[0] == "field" and x[2] == "selection_function" for x in subterms(t))
    W = Walker(ctx, p, [Atom("selection(x,value)", "enum", is_sel, ["Keep", "DiscardOld", "DiscardNew"])])
    rt = const_bool_assign_blocks(p, 0, 1)
    rf = const_bool_assign_blocks(p, 0, 0)
    kf, kother = [], []
    for bi, b in enumerate(p.blocks):
        for st in b["s"]:
            if st["k"] == "assign" and Tp.place(st["p"]) == ("upvar", fname_in_p):
                if st["r"]["k"] == "use" and st["r"]["o"].get("k", {}).get("v") == int(not v0):
                    kf.append(bi)
                else:
                    kother.append(bi)
    names, tab = W.table({"retain_true": rt, "retain_false": rf, "flag:=superseded": kf, "flag:=other": kother})
    exp = {("Keep",): {"retain_true"}, ("DiscardOld",): {"retain_false"}, ("DiscardNew",): {"retain_true", "flag:=superseded"}}
    for k, e in exp.items():
        ctx.ob(R, "retain on %s" % k[0], tab.get(k) == e, "-> %s" % sorted(tab.get(k, [])) if tab.get(k) == e else "on %s the retain predicate does %s (specified %s)" % (k[0], sorted(tab.get(k, [])), sorted(e)), p.loc())


def cache_rule(ctx, R, handler, views_cache, qcs_cache, process):
    f = ctx.body(SM + "::" + handler)
    T = ctx.T(f)
    cfg = ctx.cfg(f)

    def a_member(t):
        return t[0] == "call" and t[1].endswith("Schedule::contains")

    def a_cached(t):
        return t[0] == "call" and t[1].endswith("BTreeMap::get") and chain(t[2][0])[1][-1:] == [views_cache]

    def m_cached(a, b):
        def is_c(t):
            return any(x[0] == "call" and x[1].endswith("BTreeMap::get") and chain(x[2][0])[1][-1:] == [views_cache] for x in subterms(t))
        if is_c(a) and msg_view_number(b):
            return 1
        if is_c(b) and msg_view_number(a):
            return -1
        return 0

    def a_sig(t):
        return any(x[0] == "call" and x[1].endswith("Signed::verify") for x in subterms(t)) and not any(x[0] == "try" for x in subterms(t))

    def a_msg(t):
        return any(x[0] == "call" and x[1].endswith(("ReplicaCommit::verify", "ReplicaTimeout::verify")) for x in subterms(t)) and not any(x[0] == "try" for x in subterms(t))
    atoms = [Atom("member", "bool", a_member, [True, False]), view_cmp_atom(), Atom("cached", "opt", a_cached, ["None", "Some"]),
             Atom("cmp(cached,msg.view)", "cmp", m_cached, ["<", "=", ">"]), Atom("sig ok", "bool", a_sig, [True, False]), Atom("msg ok", "bool", a_msg, [True, False])]
    W = Walker(ctx, f, atoms)
    ins_views = [c["bb"] for c in T.calls() if c["q"].endswith("BTreeMap::insert") and chain(T.args_of(c)[0])[1][-1:] == [views_cache]]
    ins_qcs = [c["bb"] for c in T.calls() if c["q"].endswith("BTreeMap::entry") and chain(T.args_of(c)[0])[1][-1:] == [qcs_cache]]
    ctx.floor(R, "%s insertions in %s" % (views_cache, handler), len(ins_views), 1)
    ctx.floor(R, "%s insertions in %s" % (qcs_cache, handler), len(ins_qcs), 1)
    names, tab = W.table({"views": ins_views, "qcs": ins_qcs})
    bad = []
    good = 0
    for (mem, vc, ca, cc, so, mo), reach in tab.items():
        exp = mem is True and vc in ("=", ">") and (ca == "None" or cc == "<") and so is True and mo is True
        if exp:
            good += int(reach == {"views", "qcs"})
        elif reach:
            bad.append((mem, vc, ca, cc, so, mo))
    nexp = sum(1 for k in tab if k[0] is True and k[1] in ("=", ">") and (k[2] == "None" or k[3] == "<") and k[4] is True and k[5] is True)
    ctx.ob(R, "%s cache insertion guard" % handler, not bad and good == nexp,
           "a vote enters the caches only from a committee member, for a view >= the current one, newer than that member's cached vote, with valid signature and message (%d valuations, %d admitting)" % (len(tab), nexp) if not bad and good == nexp else
           "%s inserts into its caches under %s (atoms %s); admitting rows reached %d/%d" % (handler, bad[:2], names, good, nexp), f.loc())
    # pruning: after the insertion every path to a return passes retain(active views)
    rets = cfg.returns()
    ret_calls = []
    for c in T.calls():
        if c["q"].endswith("BTreeMap::retain") and chain(T.args_of(c)[0])[1][-1:] == [qcs_cache]:
            a = T.args_of(c)
            cl = a[1] if len(a) > 1 else None
            okc = False
            if cl is not None and cl[0] == "closure":
                g = ctx.F.by_qname.get(cl[1], [None])[0]
                if g is not None:
                    rt = Inliner(ctx).ret_term(g)
                    okc = rt is not None and rt[0] == "call" and rt[1].endswith("HashSet::contains")
                # the captured set derives from the views cache values (iterator chain or loop)
                def from_views(t):
                    if "decl" not in t["f"]:
                        return False
                    q = f.callee(t)[0].qname
                    return q.endswith(("BTreeMap::values", "BTreeMap::iter", "BTreeMap::into_values")) and bool(t["args"]) and chain(T.operand(t["args"][0]))[1][-1:] == [views_cache]
                cl_local = Q.LocalFlow._local_op(c["t"]["args"][1]) if len(c["t"]["args"]) > 1 else None
                okc = okc and (any(x[0] == "call" and x[1].endswith("BTreeMap::values") and chain(x[2][0])[1][-1:] == [views_cache] for x in subterms(cl))
                               or (cl_local is not None and Q.LocalFlow(f).derives_from_call_where(cl_local, from_views)))
            if okc:
                ret_calls.append(c["bb"])
    if not ret_calls and not any(c["q"].endswith("BTreeMap::retain") and chain(T.args_of(c)[0])[1][-1:] == [qcs_cache] for c in T.calls()):
        # no retain at all: pruning written as "collect the stale keys, then remove them one by one". Accepted as an
        # undecided form when the removal loop exists and its keys derive from the cache's own keys filtered against
        # a set built from the views cache; which keys are stale is not decided for this form.
        LFp = Q.LocalFlow(f)
        cfgp = ctx.cfg(f)

        def from_cache_keys(t):
            if "decl" not in t["f"]:
                return False
            q = f.callee(t)[0].qname
            return q.endswith(("BTreeMap::keys", "BTreeMap::iter", "BTreeMap::range")) and bool(t["args"]) and chain(T.operand(t["args"][0]))[1][-1:] == [qcs_cache]

        def from_views_vals(t):
            if "decl" not in t["f"]:
                return False
            q = f.callee(t)[0].qname
            return q.endswith(("BTreeMap::values", "BTreeMap::iter", "BTreeMap::into_values")) and bool(t["args"]) and chain(T.operand(t["args"][0]))[1][-1:] == [views_cache]
        loops = []
        for c in T.calls():
            if c["q"].endswith("BTreeMap::remove") and chain(T.args_of(c)[0])[1][-1:] == [qcs_cache] and c["bb"] in cfgp.reach_from([z for _, z in cfgp.succ[c["bb"]]]):
                kl = Q.LocalFlow._local_op(c["t"]["args"][1]) if len(c["t"]["args"]) > 1 else None
                if kl is not None and LFp.derives_from_call_where(kl, from_cache_keys) and LFp.derives_from_call_where(kl, from_views_vals):
                    loops.append(c["bb"])
        if loops:
            ctx.note("C16.5 %s: %s is pruned by an explicit removal loop (no retain): the set of removed keys is not decided for this form" % (handler, qcs_cache))
            ctx.ob(R, "%s pruning present" % handler, True, "undecided shape (not reported): stale keys of %s, selected against a set built from %s.values(), are removed in a loop" % (qcs_cache, views_cache), f.loc())
            rem = [c["bb"] for c in T.calls() if c["q"].endswith("BTreeMap::remove") and chain(T.args_of(c)[0])[1][-1:] == [qcs_cache] and c["bb"] not in loops]
            procs = [c["bb"] for c in T.calls() if (c["rq"] or c["q"]) == SM + "::" + process]
            okr = bool(rem) and bool(procs) and all(cfg.must_pass_blocks(p, set(rem)) for p in procs)
            ctx.ob(R, "%s formed certificate removed" % handler, okr, "the assembled certificate is removed from %s before %s" % (qcs_cache, process) if okr else "the assembled certificate is processed without being removed from the cache", f.loc())
            return
    ctx.ob(R, "%s pruning present" % handler, bool(ret_calls), "%s.retain(|view, _| active_views.contains(view)) with active_views = %s.values()" % (qcs_cache, views_cache) if ret_calls else
           "%s no longer prunes %s to the views that are some validator's latest vote (retain over %s.values() not found): stale partial certificates accumulate" % (handler, qcs_cache, views_cache), f.loc())
    for ib in ins_views + ins_qcs:
        r = cfg.reach_from([ib], avoid_blocks=frozenset(ret_calls))
        # normal returns only (cancellation edges lead to drops, not to Return through the Ok path); exclude error returns reached before insertion
        okp = bool(ret_calls) and not (set(rets) & r)
        ctx.ob(R, "%s pruning post-dominates insertion bb%d" % (handler, 0) if False else "%s pruning after insertion #%d" % (handler, (ins_views + ins_qcs).index(ib)), okp,
               "every path from the insertion to a return prunes the partial-certificate cache" if okp else "a path from the cache insertion returns without pruning", f.loc())
    # a formed certificate leaves the cache before it is processed
    rem = [c["bb"] for c in T.calls() if c["q"].endswith("BTreeMap::remove") and chain(T.args_of(c)[0])[1][-1:] == [qcs_cache]]
    procs = [c["bb"] for c in T.calls() if (c["rq"] or c["q"]) == SM + "::" + process]
    okr = bool(rem) and bool(procs) and all(cfg.must_pass_blocks(p, set(rem)) for p in procs)
    ctx.ob(R, "%s formed certificate removed" % handler, okr, "the assembled certificate is removed from %s before %s" % (qcs_cache, process) if okr else "the assembled certificate is processed without being removed from the cache", f.loc())


def rule_replica_caches(ctx):
    R = "C16.5"
    ctx.rule(R, "replica caches (sibling rule for commit and timeout votes): insertion guarded by membership, view >= current, strictly newer than the member's last vote, valid signature and message; pruning to active views post-dominates insertion; a formed certificate is removed")
    cache_rule(ctx, R, "on_commit", "commit_views_cache", "commit_qcs_cache", "process_commit_qc")
    cache_rule(ctx, R, "on_timeout", "timeout_views_cache", "timeout_qcs_cache", "process_timeout_qc")


RULES = [("C16.1", rule_selection), ("C16.2", rule_filter_and_wiring), ("C16.4", rule_channel), ("C16.5", rule_replica_caches)]
