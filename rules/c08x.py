"""C08 user obligations that live in C04's module: "the store only contains blocks verified against the validator schedule of
their epoch" rests on what FinalBlock::verify -> CommitQC::verify actually demand. queue_block (C08.1) calls them by name; the
rules that pin their content (payload hash = certified header, signer bitmap length, weight of THIS certificate's signers
against the quorum threshold of the SAME schedule's total weight, aggregate signature) belong to C04 and are run with C08 as
well (seed S9C08: CommitQC::verify takes the threshold from the validator count - an under-certified block enters the store)."""
from .c04 import rule_commit_qc_verify, rule_final_block, rule_must_verify, rule_signed_and_view

RULES = [("C04.1", rule_commit_qc_verify), ("C04.4", rule_final_block), ("C04.5", rule_must_verify), ("C04.7", rule_signed_and_view)]
