"""C13 — the encrypted transport delivers exactly the bytes written, or fails (framing agreement, ordering, constants, buffer conformance)."""
from engine import query as Q
from engine.terms import show, subterms
from engine.guards import Atom, Walker, field_path, chain, Inliner
from .c07 import norm_arith
from . import common

NS = "zksync_consensus_network::noise::stream"
BUF = "zksync_consensus_network::noise::bytes::Buffer"
STREAM = NS + "::Stream"


def fn1(ctx, suffix):
    l = [f for f in ctx.F.fns if f.qname.endswith(suffix) and f.qname.startswith(NS) and not f.in_testonly() and f.kind in ("fn", "method")]
    if len(l) != 1:
        from engine.runner import AnchorMissing
        raise AnchorMissing("%s: %d bodies" % (suffix, len(l)))
    return l[0]


def buf_calls(ctx, f, method, which=None, side=None):
    """calls of Buffer::<method> whose receiver path ends with [side?, which?]"""
    T = ctx.T(f)
    out = []
    for c in T.calls():
        if c["q"] == BUF + "::" + method:
            names = chain(T.args_of(c)[0])[1]
            if (which is None or names[-1:] == [which]) and (side is None or side in names):
                out.append(c)
    return out


def rule_constants(ctx):
    R = "C13.1"
    ctx.rule(R, "constants: MAX_PAYLOAD_LEN + AUTHDATA_LEN == MAX_TRANSPORT_MSG_LEN == 65535 (fits the u16 prefix), MAX_FRAME_LEN == 65535 + 2, LENGTH_FIELD_LEN == 2; the payload and frame buffers are created with exactly these capacities")
    c = {k: ctx.F.const(NS + "::" + k) for k in ("MAX_TRANSPORT_MSG_LEN", "AUTHDATA_LEN", "MAX_PAYLOAD_LEN", "LENGTH_FIELD_LEN", "MAX_FRAME_LEN")}
    ok = None not in c.values() and c["MAX_TRANSPORT_MSG_LEN"] == 65535 and c["MAX_PAYLOAD_LEN"] + c["AUTHDATA_LEN"] == c["MAX_TRANSPORT_MSG_LEN"] and c["LENGTH_FIELD_LEN"] == 2 and c["MAX_FRAME_LEN"] == c["MAX_TRANSPORT_MSG_LEN"] + c["LENGTH_FIELD_LEN"] and c["AUTHDATA_LEN"] == 16
    ctx.ob(R, "constant relations", ok, "constants: %s" % c if ok else "noise framing constants are inconsistent: %s" % c)
    d = ctx.fn("<%s::Buffer as std::default::Default>::default" % NS)
    T = ctx.T(d)
    agg = None
    for b in d.blocks:
        for s in b["s"]:
            if s["k"] == "assign" and s["r"]["k"] == "agg" and s["r"].get("def") == NS + "::Buffer":
                agg = dict(T.rvalue(s["r"])[3])
    okb = agg is not None and agg.get("payload") == ("call", BUF + "::new", (("const", c["MAX_PAYLOAD_LEN"]),)) and agg.get("frame") == ("call", BUF + "::new", (("const", c["MAX_FRAME_LEN"]),))
    ctx.ob(R, "buffer capacities", okb, "payload buffer = MAX_PAYLOAD_LEN, frame buffer = MAX_FRAME_LEN" if okb else "buffers are created as %s" % ({k: show(v) for k, v in (agg or {}).items()}), d.loc())


def post_dominates(cfg, starts, via_blocks):
    """every path from `starts` to a normal return passes one of via_blocks"""
    r = cfg.reach_from(starts, avoid_blocks=frozenset(via_blocks))
    return not (set(cfg.returns()) & r)


def rule_reader(ctx):
    R = "C13.2"
    ctx.rule(R, "reader/writer framing agreement: reader - frame complete iff len >= 2 + n with n = u16::from_le_bytes(prefix); decrypts [2..2+n]; after a successful decrypt it unconditionally consumes 2+n bytes, compacts the frame buffer and exposes the m decrypted bytes; writer - encrypts into capacity[2..], writes prefix (n as u16).to_le_bytes(), extends by 2+n and clears the payload")
    f = fn1(ctx, "::poll_read_payload")
    T = ctx.T(f)
    cfg = ctx.cfg(f)
    rm = [c for c in T.calls() if c["q"].endswith("TransportState::read_message")]
    ctx.floor(R, "read_message sites", len(rm), 1)
    e = Q.success_edges(ctx, f, lambda b: b[0] == "call" and b[1].endswith("TransportState::read_message"))
    starts = [t for _, t in e]
    steps = {"frame.take(2+n)": buf_calls(ctx, f, "take", "frame", "read_buf"), "frame.shift()": buf_calls(ctx, f, "shift", "frame", "read_buf"), "payload.extend(m)": buf_calls(ctx, f, "extend", "payload", "read_buf")}
    for name, cs in steps.items():
        ok = bool(cs) and bool(starts) and post_dominates(cfg, starts, [c["bb"] for c in cs])
        ctx.ob(R, "reader: %s after every successful decrypt" % name, ok, "%s lies on every path from the decrypt's success to the return" % name if ok else
               "after a successful decrypt some path returns without %s: the frame buffer is left in a state the next read cannot continue from (lost or duplicated bytes / premature EOF)" % name, f.loc())
    # arguments
    okt = False
    for c in steps["frame.take(2+n)"]:
        a = norm_arith(T.args_of(c)[1])
        okt = a[0] == "bin" and a[1] == "Add" and ("const", 2) in (a[2], a[3])
    ctx.ob(R, "reader: consumed length", okt, "take(LENGTH_FIELD_LEN + n)" if okt else "the reader does not consume prefix + ciphertext", f.loc())
    oke = False
    for c in steps["payload.extend(m)"]:
        a = T.args_of(c)[1]
        oke = any(x[0] == "call" and x[1].endswith("TransportState::read_message") for x in subterms(a))
    ctx.ob(R, "reader: exposed length", oke, "payload.extend(m) with m returned by read_message" if oke else "payload is not extended by the number of decrypted bytes", f.loc())
    rs = buf_calls(ctx, f, "reset", "payload", "read_buf")
    okr = bool(rs) and bool(rm) and all(cfg.must_pass_blocks(c["bb"], {x["bb"] for x in rs}) for c in rm)
    ctx.ob(R, "reader: payload reset before decrypt", okr, "payload.reset() dominates read_message" if okr else "decryption can write into a payload buffer that was not reset", f.loc())
    # frame completeness
    g = fn1(ctx, "::poll_read_frame")
    Tg = ctx.T(g)

    def m(a, b):
        a, b = norm_arith(a), norm_arith(b)
        def is_len(t):
            return t[0] == "call" and t[1] == BUF + "::len"
        def is_need(t):
            return t[0] == "bin" and t[1] == "Add" and ("const", 2) in (t[2], t[3]) and any(x[0] == "call" and x[1] == "u16::from_le_bytes" for x in subterms(t))
        if is_len(a) and is_need(b):
            return 1
        if is_len(b) and is_need(a):
            return -1
        return 0
    W = Walker(ctx, g, [Atom("cmp(len, 2+n)", "cmp", m, ["<", "=", ">"])])
    some = [bi for bi, b in enumerate(g.blocks) for s in b["s"] if s["k"] == "assign" and s["r"]["k"] == "agg" and s["r"].get("variant") == "Some" and s["r"].get("def") == "std::option::Option"]
    names, tab = W.table({"complete": some})
    ok = "complete" not in tab.get(("<",), {"complete"}) and "complete" in tab.get(("=",), set()) and "complete" in tab.get((">",), set())
    ctx.ob(R, "reader: frame complete iff len >= 2+n", ok, "Some(n) is returned only when the buffer holds prefix + n bytes" if ok else "frame completeness test deviates: %s" % {k: sorted(v) for k, v in tab.items()}, g.loc())
    pf = [Tg.args_of(c) for c in Tg.calls() if c["q"] == "u16::from_le_bytes"]
    okp = bool(pf) and all(a[0][0] == "call" and a[0][1] == BUF + "::prefix" for a in pf)
    ctx.ob(R, "reader: length prefix", okp, "n = u16::from_le_bytes(frame.prefix())" if okp else "length is not decoded little-endian from the frame prefix", g.loc())
    # EOF propagation

    def mz(a, b):
        if b == ("const", 0) and a[0] != "const":
            return 1
        if a == ("const", 0) and b[0] != "const":
            return -1
        return 0
    # writer
    w = fn1(ctx, "::poll_flush_payload")
    Tw = ctx.T(w)
    cfgw = ctx.cfg(w)
    wm = [c for c in Tw.calls() if c["q"].endswith("TransportState::write_message")]
    ew = Q.success_edges(ctx, w, lambda b: b[0] == "call" and b[1].endswith("TransportState::write_message"))
    st = [t for _, t in ew]
    wsteps = {"frame.set_prefix": buf_calls(ctx, w, "set_prefix", "frame", "write_buf"), "frame.extend(2+n)": buf_calls(ctx, w, "extend", "frame", "write_buf"),
              "payload consumed": buf_calls(ctx, w, "take", "payload", "write_buf") + buf_calls(ctx, w, "reset", "payload", "write_buf")}
    for name, cs in wsteps.items():
        ok = bool(cs) and bool(st) and post_dominates(cfgw, st, [c["bb"] for c in cs])
        ctx.ob(R, "writer: %s after every successful encrypt" % name, ok, "%s lies on every path from the encrypt's success to the return" % name if ok else "after encrypting, some path returns without %s" % name, w.loc())
    okpre = False
    for c in wsteps["frame.set_prefix"]:
        a = Tw.args_of(c)[1]
        okpre = a[0] == "call" and a[1] == "u16::to_le_bytes" and a[2][0][0] == "cast" and any(x[0] == "call" and x[1].endswith("write_message") for x in subterms(a))
    ctx.ob(R, "writer: prefix", okpre, "prefix = (n as u16).to_le_bytes() with n returned by write_message" if okpre else "the written prefix is not the little-endian u16 length of the ciphertext", w.loc())
    okext = False
    for c in wsteps["frame.extend(2+n)"]:
        a = norm_arith(Tw.args_of(c)[1])
        okext = a[0] == "bin" and a[1] == "Add" and ("const", 2) in (a[2], a[3]) and any(x[0] == "call" and x[1].endswith("write_message") for x in subterms(a))
    ctx.ob(R, "writer: frame length", okext, "frame.extend(LENGTH_FIELD_LEN + n)" if okext else "the frame is not extended by prefix + ciphertext", w.loc())


def rule_flush_before_reuse(ctx):
    R = "C13.3"
    ctx.rule(R, "flush before reuse: the frame buffer is reset and re-encrypted only after the previous frame was completely flushed; poll_flush / poll_shutdown flush payload, then frame, then the inner stream")
    w = fn1(ctx, "::poll_flush_payload")
    T = ctx.T(w)
    cfg = ctx.cfg(w)
    ready = Q.success_edges(ctx, w, lambda b: b[0] == "call" and b[1].endswith("::poll_flush_frame"))
    okres = Q.success_edges(ctx, w, lambda b: any(x[0] == "call" and x[1].endswith("::poll_flush_frame") for x in subterms(b)) and b[0] != "call")
    resets = buf_calls(ctx, w, "reset", "frame", "write_buf")
    wm = [c for c in T.calls() if c["q"].endswith("TransportState::write_message")]
    ctx.floor(R, "frame.reset sites", len(resets), 1)
    for c in resets + wm:
        ok = bool(ready) and cfg.must_pass(c["bb"], ready) and (not okres or cfg.must_pass(c["bb"], okres))
        what = "frame.reset()" if c in resets else "write_message"
        ctx.ob(R, "%s after completed flush" % what, ok, "%s is dominated by poll_flush_frame returning Ready(Ok)" % what if ok else "%s can overwrite a frame that was not completely written to the transport" % what, w.loc(c["t"].get("ln")))
    # buffered plaintext is never left behind: with a non-empty payload poll_flush_payload reports Ready(Ok) only after the
    # payload was encrypted into the frame buffer (write_message succeeded); it returns early only for an empty payload
    def m_plen(a, b):
        def pl(t):
            return t[0] == "call" and t[1] == BUF + "::len" and any(x[0] == "field" and x[2] == "payload" for x in subterms(t))
        if pl(a) and b == ("const", 0):
            return 1
        if pl(b) and a == ("const", 0):
            return -1
        return 0
    Wp = Walker(ctx, w, [Atom("cmp(payload.len,0)", "cmp", m_plen, ["=", ">"])])
    e_wm = Q.success_edges(ctx, w, lambda b: b[0] == "call" and b[1].endswith("TransportState::write_message"))
    rdy = []
    for bi, b in enumerate(w.blocks):
        for st in b["s"]:
            if st["k"] == "assign" and not st["p"].get("pr") and st["p"]["l"] in Q.ret_locals(w) and st["r"]["k"] == "agg":
                v = T.rvalue(st["r"])
                if v[0] == "agg" and v[2] == "Ready" and v[3] and v[3][0][1][0] == "agg" and v[3][0][1][2] == "Ok":
                    rdy.append(bi)
    if common.atom_is_tested(ctx, w, m_plen) and e_wm and rdy:
        r_non = Wp.reachable({"cmp(payload.len,0)": ">"}, 0, frozenset(), frozenset(e_wm))
        r_emp = Wp.reachable({"cmp(payload.len,0)": "="}, 0, frozenset([c["bb"] for c in wm]))
        okp = not (set(rdy) & r_non)
        ctx.ob(R, "non-empty payload is encrypted before Ready(Ok)", okp, "with payload.len() > 0 Ready(Ok) is reachable only through the success of write_message" if okp else
               "poll_flush_payload can report Ready(Ok) with a non-empty payload that was not encrypted into a frame: bytes the writer flushed never reach the wire", w.loc())
    elif not (e_wm and rdy):
        ctx.ob(R, "non-empty payload is encrypted before Ready(Ok)", False, "write_message success or Ready(Ok) return not found in poll_flush_payload", w.loc())
    else:
        ctx.note("C13.3 empty-payload test of poll_flush_payload not recognised - not decided")
    ff = fn1(ctx, "::poll_flush_frame")
    Tf = ctx.T(ff)
    # loop until frame.len() == 0; zero-byte write is an error

    def mz(a, b):
        if b == ("const", 0) and any(x[0] == "call" and x[1].endswith("poll_write") for x in subterms(a)):
            return 1
        if a == ("const", 0) and any(x[0] == "call" and x[1].endswith("poll_write") for x in subterms(b)):
            return -1
        return 0
    W = Walker(ctx, ff, [Atom("written==0", "cmp", mz, ["=", "!="])])
    takes = [c["bb"] for c in Tf.calls() if c["q"] == BUF + "::take"]
    errs = [bi for bi, b in enumerate(ff.blocks) for s in b["s"] if s["k"] == "assign" and s["r"]["k"] == "agg" and s["r"].get("variant") == "Err"]
    names, tab = W.table({"take": takes})
    ok = "take" in tab.get(("!=",), set()) and "take" not in tab.get(("=",), {"take"})
    ctx.ob("C13.4", "zero-byte write is an error", ok, "a write of 0 bytes never advances the frame and is reported as WriteZero" if ok else "zero-byte write handling: %s" % {k: sorted(v) for k, v in tab.items()}, ff.loc())
    for name in ("poll_flush", "poll_shutdown"):
        l = [f for f in ctx.F.fns if f.qname.endswith("AsyncWrite>::" + name) and "noise::stream::Stream" in f.qname and not f.in_testonly()]
        if len(l) != 1:
            ctx.ob(R, "%s order" % name, False, "anchor %s not found (%d)" % (name, len(l)))
            continue
        f = l[0]
        T2 = ctx.T(f)
        cfg2 = ctx.cfg(f)
        a = [c["bb"] for c in T2.calls() if c["q"].endswith("::poll_flush_payload")]
        b = [c["bb"] for c in T2.calls() if c["q"].endswith("::poll_flush_frame")]
        inner = [c["bb"] for c in T2.calls() if c["q"].endswith("AsyncWrite::" + name)]
        ok = bool(a) and bool(b) and bool(inner) and all(cfg2.must_pass_blocks(x, set(a)) for x in b) and all(cfg2.must_pass_blocks(x, set(b)) for x in inner)
        ea = Q.success_edges(ctx, f, lambda t: t[0] == "call" and t[1].endswith("::poll_flush_payload"))
        eb = Q.success_edges(ctx, f, lambda t: t[0] == "call" and t[1].endswith("::poll_flush_frame"))
        ok = ok and all(cfg2.must_pass(x, ea) for x in b) and all(cfg2.must_pass(x, eb) for x in inner)
        ctx.ob(R, "%s order" % name, ok, "%s: payload flushed (Ready) -> frame flushed (Ready) -> inner.%s" % (name, name) if ok else "%s does not flush payload, frame and inner stream in order" % name, f.loc())


def rule_failures(ctx):
    R = "C13.4"
    ctx.rule(R, "failures surface: a decrypt/encrypt error is returned as Err (the buffers are not used afterwards); a zero-byte transport write is WriteZero; EOF before a complete frame yields end-of-stream")
    f = fn1(ctx, "::poll_read_payload")
    T = ctx.T(f)
    cfg = ctx.cfg(f)
    e = Q.success_edges(ctx, f, lambda b: b[0] == "call" and b[1].endswith("TransportState::read_message"))
    uses = [c["bb"] for c in T.calls() if c["q"].startswith(BUF + "::") and c["q"].rsplit("::", 1)[1] in ("take", "shift", "extend")]
    ok = bool(e) and bool(uses) and all(cfg.must_pass(b, e) for b in uses)
    ctx.ob(R, "decrypt error stops the reader", ok, "buffer updates are dominated by read_message success; its error is propagated" if ok else "the reader updates its buffers although decryption failed", f.loc())
    g = fn1(ctx, "::poll_read_frame")
    Tg = ctx.T(g)

    def nread(t):
        # the byte count may arrive through the return place of an extracted helper: Ready(Ok(buf.filled().len()))
        return any(x[0] == "call" and x[1].endswith("ReadBuf::filled") for v in common.value_terms(g, Tg, t) for x in subterms(v))

    def mz(a, b):
        if b == ("const", 0) and nread(a):
            return 1
        if a == ("const", 0) and nread(b):
            return -1
        return 0
    W = Walker(ctx, g, [Atom("read==0", "cmp", mz, ["=", "!="])])
    ext = [c["bb"] for c in Tg.calls() if c["q"] == BUF + "::extend"]
    none = [bi for bi, b in enumerate(g.blocks) for s in b["s"] if s["k"] == "assign" and s["r"]["k"] == "agg" and s["r"].get("variant") == "None" and s["r"].get("def") == "std::option::Option"]
    names, tab = W.table({"extend": ext, "eof": none})
    ok = tab.get(("=",)) is not None and "extend" not in tab[("=",)] and "eof" in tab[("=",)] and "extend" in tab.get(("!=",), set())
    ctx.ob(R, "EOF propagation", ok, "a 0-byte read returns end-of-stream and never extends the frame" if ok else "EOF handling: %s" % {k: sorted(v) for k, v in tab.items()}, g.loc())


def rule_buffer(ctx):
    R = "C13.5"
    ctx.rule(R, "bytes::Buffer conformance (formula identity per method): len = end-begin; capacity = inner.len()-end; push: n = min(capacity, |buf|), end += n, returns n; extend: end += n; take: begin += n; shift: copy [begin,end) to 0, end -= begin, begin = 0; reset: begin = end = 0")
    inl = Inliner(ctx)

    def expand(t):
        """replace len()/capacity() of self by their formulas (each pinned by its own obligation below)"""
        if not isinstance(t, tuple):
            return t
        if t[0] == "call" and t[1] == BUF + "::len" and len(t[2]) == 1:
            x = expand(t[2][0])
            return ("bin", "Sub", ("field", x, "end"), ("field", x, "begin"))
        if t[0] == "call" and t[1] == BUF + "::capacity" and len(t[2]) == 1:
            x = expand(t[2][0])
            return ("bin", "Sub", ("call", "[T]::len", (("field", x, "inner"),)), ("field", x, "end"))
        return tuple(expand(x) if isinstance(x, tuple) else x for x in t)

    def field_assigns(f):
        """{field: [assigned terms]} for begin/end: direct assignments and the effects of extend/take/reset on self"""
        T = ctx.T(f)
        out = {}
        for b in f.blocks:
            for s in b["s"]:
                if s["k"] == "assign":
                    fl = [e.get("n") for e in s["p"].get("pr", []) if isinstance(e, dict)]
                    if fl in (["begin"], ["end"]):
                        out.setdefault(fl[0], []).append(expand(norm_arith(T.rvalue(s["r"]))))
        if f.qname not in (BUF + "::extend", BUF + "::take", BUF + "::reset"):
            for c in T.calls():
                a = T.args_of(c)
                if c["q"] == BUF + "::extend" and a[0][0] == "param" and a[0][1] == 1:
                    out.setdefault("end", []).append(("bin", "Add", ("field", a[0], "end"), expand(norm_arith(a[1]))))
                elif c["q"] == BUF + "::take" and a[0][0] == "param" and a[0][1] == 1:
                    out.setdefault("begin", []).append(("bin", "Add", ("field", a[0], "begin"), expand(norm_arith(a[1]))))
                elif c["q"] == BUF + "::reset" and a[0][0] == "param" and a[0][1] == 1:
                    out.setdefault("begin", []).append(("const", 0))
                    out.setdefault("end", []).append(("const", 0))
        return out

    def selff(name):
        return lambda t: t[0] == "field" and t[2] == name and t[1][0] == "param" and t[1][1] == 1
    f = ctx.fn(BUF + "::len")
    t = norm_arith(inl.ret_term(f))
    ok = t[0] == "bin" and t[1] == "Sub" and selff("end")(t[2]) and selff("begin")(t[3])
    ctx.ob(R, "len", ok, "len() = end - begin" if ok else "len() = %s" % show(t), f.loc())
    f = ctx.fn(BUF + "::capacity")
    t = norm_arith(inl.ret_term(f))
    ok = t[0] == "bin" and t[1] == "Sub" and selff("end")(t[3]) and t[2][0] == "call" and t[2][1] == "[T]::len" and selff("inner")(t[2][2][0])
    ctx.ob(R, "capacity", ok, "capacity() = inner.len() - end" if ok else "capacity() = %s" % show(t), f.loc())
    for name, fld in (("extend", "end"), ("take", "begin")):
        f = ctx.fn(BUF + "::" + name)
        a = field_assigns(f)
        ok = set(a) == {fld} and len(a[fld]) == 1 and a[fld][0][0] == "bin" and a[fld][0][1] == "Add" and selff(fld)(a[fld][0][2]) and a[fld][0][3][0] == "param" and a[fld][0][3][1] == 2
        ctx.ob(R, name, ok, "%s(n): %s += n (nothing else changes)" % (name, fld) if ok else "%s assigns %s" % (name, {k: [show(x) for x in v] for k, v in a.items()}), f.loc())
    f = ctx.fn(BUF + "::reset")
    a = field_assigns(f)
    ok = a.get("begin") == [("const", 0)] and a.get("end") == [("const", 0)]
    ctx.ob(R, "reset", ok, "reset(): begin = 0, end = 0" if ok else "reset assigns %s" % a, f.loc())
    f = ctx.fn(BUF + "::shift")
    a = field_assigns(f)
    T = ctx.T(f)
    cw = [T.args_of(c) for c in T.calls() if c["q"] == "[T]::copy_within"]
    okc = bool(cw) and all(x[2] == ("const", 0) and x[1][0] == "agg" and x[1][1] == "std::ops::Range" and selff("begin")(dict(x[1][3])["start"]) and selff("end")(dict(x[1][3])["end"]) for x in cw)
    ok = okc and a.get("begin") == [("const", 0)] and len(a.get("end", [])) == 1 and a["end"][0][0] == "bin" and a["end"][0][1] == "Sub" and selff("end")(a["end"][0][2]) and selff("begin")(a["end"][0][3])
    # order: the value end - begin must be computed before begin is zeroed
    cfg = ctx.cfg(f)

    def pos_of_field_assign(fld):
        for bi, b in enumerate(f.blocks):
            for si, st in enumerate(b["s"]):
                if st["k"] == "assign" and [e.get("n") for e in st["p"].get("pr", []) if isinstance(e, dict)] == [fld]:
                    return (bi, si, st)
        return None
    pe, pb = pos_of_field_assign("end"), pos_of_field_assign("begin")
    order_ok = False
    if pe and pb:
        ev = (pe[0], pe[1])
        r = pe[2]["r"]
        for _ in range(6):      # follow copies back to where the value was computed
            if r["k"] != "use":
                break
            pl = r["o"].get("c") or r["o"].get("m")
            if pl is None or pl.get("pr"):
                break
            d = T.single_def(pl["l"])
            if d is None:
                break
            if d[0] == "s":
                ev = (d[1], d[2])
                r = f.blocks[d[1]]["s"][d[2]]["r"]
            else:
                ev = (d[1], len(f.blocks[d[1]]["s"]))
                break
        order_ok = (ev[1] < pb[1]) if ev[0] == pb[0] else cfg.dominates(ev[0], pb[0])
    ctx.ob(R, "shift", ok and order_ok, "shift(): copy_within(begin..end, 0); end -= begin; begin = 0 (in this order)" if ok and order_ok else "shift does not implement the compaction formula: %s" % {k: [show(x) for x in v] for k, v in a.items()}, f.loc())
    f = ctx.fn(BUF + "::push")
    a = field_assigns(f)
    T = ctx.T(f)
    MIN = ("std::cmp::min", "std::cmp::Ord::min")
    mins = [T.args_of(c) for c in T.calls() if c["q"] in MIN]
    def min_operand(x):
        if x[0] == "call" and x[1] == BUF + "::capacity":
            return "capacity"
        if x[0] == "call" and x[1] == "[T]::len" and x[2]:
            # the free space as a slice (`as_mut_capacity()` = inner[end..]) has exactly capacity() elements
            if x[2][0][0] == "call" and x[2][0][1] == BUF + "::as_mut_capacity":
                return "capacity"
            return "len"
        return None
    okm = bool(mins) and all({min_operand(x[0]), min_operand(x[1])} == {"capacity", "len"} for x in mins)
    oke = set(a) == {"end"} and all(x[0] == "bin" and x[1] == "Add" and selff("end")(x[2]) and x[3][0] == "call" and x[3][1] in MIN for x in a["end"])
    rt = inl.ret_term(f)
    okr = rt is not None and rt[0] == "call" and rt[1] in MIN
    ctx.ob(R, "push", okm and oke and okr, "push(buf): n = min(capacity(), buf.len()); end += n; returns n" if okm and oke and okr else "push deviates (min %s, end %s, ret %s)" % (okm, oke, okr), f.loc())


def rule_flush_progress(ctx):
    R = "C13.7"
    ctx.rule(R, "flush progress is recorded at once: in poll_flush_frame every successful write of n bytes to the transport is followed by frame.take(n) before the function can return (also with Pending) - progress kept only in a local would be lost on Pending and the frame prefix would be sent twice")
    f = fn1(ctx, "::poll_flush_frame")
    T = ctx.T(f)
    cfg = ctx.cfg(f)
    e = Q.success_edges(ctx, f, lambda b: b[0] == "call" and b[1].endswith("AsyncWrite::poll_write"))
    takes = [c["bb"] for c in T.calls() if c["q"] == BUF + "::take" and "frame" in show(T.args_of(c)[0])]
    ctx.floor(R, "transport write success edges", len(e), 1)
    ctx.floor(R, "frame.take sites", len(takes), 1)
    # non-error exits: the return place is set to Pending or Ready(Ok(..)); error exits (write error, WriteZero) are fine
    RL = Q.ret_locals(f)
    exits = []
    for bi, blk in enumerate(f.blocks):
        for st in blk["s"]:
            if st["k"] == "assign" and not st["p"].get("pr") and st["p"]["l"] in RL and st["r"]["k"] == "agg":
                v = T.rvalue(st["r"])
                if v[0] == "agg" and (v[2] == "Pending" or (v[2] == "Ready" and not (v[3] and v[3][0][1][0] == "agg" and v[3][0][1][2] == "Err"))):
                    exits.append(bi)
    starts = set(t for _, t in e)
    bad = False
    for st in starts:
        r = cfg.reach_from([st], avoid_blocks=frozenset(takes))
        if set(exits) & r:
            bad = True
    ctx.ob(R, "take after every successful write", not bad, "after a successful transport write the written bytes leave the frame buffer before any return" if not bad else
           "poll_flush_frame can return (e.g. Pending on the next write) after a successful partial write without frame.take(n): the next poll resends bytes that are already on the wire", f.loc())


def rule_write_accounting(ctx):
    R = "C13.6"
    ctx.rule(R, "write accounting (AsyncWrite contract): once poll_write has accepted bytes (payload.push) it returns Ready(Ok(n)) with n the number accepted - no Pending or error return is reachable after the push, otherwise the caller retries bytes that are already buffered and the peer receives them twice")
    l = [f for f in ctx.F.fns if f.qname.endswith("AsyncWrite>::poll_write") and "noise::stream::Stream" in f.qname and not f.in_testonly()]
    ctx.floor(R, "poll_write bodies", len(l), 1)
    for f in l:
        T = ctx.T(f)
        cfg = ctx.cfg(f)
        pushes = [c for c in T.calls() if c["q"] == BUF + "::push"]
        ctx.floor(R, "payload.push sites in poll_write", len(pushes), 1)
        RL = Q.ret_locals(f)
        bad = []
        good = []
        for bi, b in enumerate(f.blocks):
            for st in b["s"]:
                if st["k"] == "assign" and not st["p"].get("pr") and st["p"]["l"] in RL and st["r"]["k"] == "agg":
                    v = T.rvalue(st["r"])
                    if v[0] == "agg" and v[2] == "Pending":
                        bad.append((bi, "Pending"))
                    elif v[0] == "agg" and v[2] == "Ready":
                        inner = v[3][0][1] if v[3] else None
                        if inner is not None and inner[0] == "agg" and inner[2] == "Err":
                            bad.append((bi, "Err"))
                        else:
                            good.append((bi, inner))
            t = b["t"]
            if t["k"] == "call" and not t["dest"].get("pr") and t["dest"]["l"] in RL and "decl" in t["f"] and f.callee(t)[0].qname == "std::ops::FromResidual::from_residual":
                bad.append((bi, "error propagation"))
        for c in pushes:
            after = cfg.reach_from([c["t"]["t"]]) if "t" in c["t"] else set()
            hit = [(bi, k) for bi, k in bad if bi in after]
            ctx.ob(R, "no Pending/Err after bytes were accepted", not hit, "every return reachable after payload.push is Ready(Ok(..))" if not hit else
                   "poll_write can return %s after payload.push accepted the caller's bytes: the caller must retry the same bytes, which are then encrypted and delivered twice" % sorted(set(k for _, k in hit)), f.loc(c["t"].get("ln")))
        # a full payload buffer is turned into a frame (poll_flush_payload Ready(Ok)) before more bytes are pushed;
        # with room left the bytes are pushed directly. Otherwise push accepts 0 bytes and the writer sees WriteZero.
        m_cap = common.buffer_full_matcher(BUF)
        Wc = Walker(ctx, f, [Atom("cmp(capacity,0)", "cmp", m_cap, ["=", ">"])])
        ef = Q.success_edges(ctx, f, lambda b: b[0] == "call" and b[1].endswith("::poll_flush_payload"))
        pb = [c["bb"] for c in pushes]
        r_full = Wc.reachable({"cmp(capacity,0)": "="}, 0, frozenset(), frozenset(ef))
        okf = bool(ef) and not (set(pb) & r_full)
        if (not okf) and ef and not common.atom_is_tested(ctx, f, m_cap):
            ctx.note("C13.6 full-buffer test of poll_write not recognised - not decided")
            okf = True
        ctx.ob(R, "full payload buffer flushed before push", okf, "with capacity() == 0 payload.push is reached only after poll_flush_payload returned Ready(Ok)" if okf else
               "poll_write can push into a full payload buffer (0 bytes accepted -> WriteZero for the writer) - the flush of the full buffer is missing or on the wrong branch", f.loc())
        okn = bool(good) and any(inner is not None and any(x[0] == "call" and x[1] == BUF + "::push" for x in subterms(inner)) for _, inner in good)
        ctx.ob(R, "reported count is the accepted count", okn, "poll_write returns Ready(Ok(n)) with n = payload.push(buf)" if okn else "the byte count reported by poll_write is not the result of payload.push", f.loc())


def rule_read_accounting(ctx):
    R = "C13.8"
    ctx.rule(R, "read accounting (AsyncRead contract): once poll_read has copied plaintext into the caller's ReadBuf (put_slice) and consumed it from the payload buffer, it returns Ready(Ok(())) - no Pending or error return is reachable after the delivery; a caller that passes a fresh ReadBuf per poll (read(), read_to_end, copy, a read raced in select!) would otherwise lose those bytes although the stream continues normally")
    l = [f for f in ctx.F.fns if f.qname.endswith("AsyncRead>::poll_read") and "noise::stream::Stream" in f.qname and not f.in_testonly()]
    ctx.floor(R, "poll_read bodies", len(l), 1)
    for f in l:
        T = ctx.T(f)
        cfg = ctx.cfg(f)
        puts = [c for c in T.calls() if c["q"].endswith("ReadBuf::put_slice") or c["q"].endswith("ReadBuf::advance") or c["q"].endswith("ReadBuf::set_filled")]
        ctx.floor(R, "deliveries into the caller's buffer in poll_read", len(puts), 1)
        RL = Q.ret_locals(f)
        bad = []
        for bi, b in enumerate(f.blocks):
            for st in b["s"]:
                if st["k"] == "assign" and not st["p"].get("pr") and st["p"]["l"] in RL and st["r"]["k"] == "agg":
                    v = T.rvalue(st["r"])
                    if v[0] == "agg" and v[2] == "Pending":
                        bad.append((bi, "Pending"))
                    elif v[0] == "agg" and v[2] == "Ready":
                        inner = v[3][0][1] if v[3] else None
                        if inner is not None and inner[0] == "agg" and inner[2] == "Err":
                            bad.append((bi, "Err"))
            t = b["t"]
            if t["k"] == "call" and not t["dest"].get("pr") and t["dest"]["l"] in RL and "decl" in t["f"] and f.callee(t)[0].qname == "std::ops::FromResidual::from_residual":
                bad.append((bi, "error propagation"))
        for c in puts:
            after = cfg.reach_from([c["t"]["t"]]) if "t" in c["t"] else set()
            hit = [(bi, k) for bi, k in bad if bi in after]
            ctx.ob(R, "no Pending/Err after plaintext was delivered", not hit, "every return reachable after put_slice is Ready(Ok(()))" if not hit else
                   "poll_read can return %s after plaintext was copied into the caller's buffer and consumed from the payload: with a fresh ReadBuf on the next poll these bytes are lost (a hole in the stream, no error)" % sorted(set(k for _, k in hit)), f.loc(c["t"].get("ln")))
        # what is delivered is what is consumed
        takes = [T.args_of(c) for c in T.calls() if c["q"] == BUF + "::take"]
        slices = [T.args_of(c) for c in puts if c["q"].endswith("put_slice")]
        okc = bool(takes) and bool(slices) and all(len(a) > 1 for a in takes)
        if okc:
            n = takes[0][1]
            okc = all(any(x == n for x in subterms(a[1])) for a in slices) and all(a[1] == n for a in takes)
        ctx.ob(R, "consumed count = delivered count", okc, "payload.take(n) with the same n that bounds the delivered slice" if okc else "the number of bytes consumed from the payload buffer is not the number delivered", f.loc())


def rule_handshake_hand_over(ctx):
    R = "C13.9"
    ctx.rule(R, "nothing is lost between the handshake and the session: the noise handshake talks to the transport it was given directly, reads exactly its own messages (read_exact of the 2-byte length, then of that many bytes) and hands that very transport on as Stream.inner with empty read / write buffers - a buffering adapter created for the handshake (and unwrapped afterwards) or an open-ended read swallows ciphertext the peer sent right behind its handshake message")
    top = ctx.fn(STREAM + "::handshake")
    f = ctx.F.body_of(top)
    T = ctx.T(f)
    sp = set()
    for i in range(1, top.argc + 1):
        ty = top.locals[i].s
        if not ("ctx::Ctx" in ty or "HandshakeState" in ty):
            sp |= common.pnames(top, index=i)
    ctx.ob(R, "transport parameter", bool(sp), "the transport is parameter %s of Stream::handshake" % sorted(sp) if sp else "transport parameter of Stream::handshake not identified", top.loc())
    if not sp:
        return

    def is_transport(t):
        while t[0] in ("ref", "deref") or (t[0] == "call" and t[1] in ("std::ops::DerefMut::deref_mut", "std::ops::Deref::deref", "std::pin::Pin::new", "std::borrow::BorrowMut::borrow_mut") and t[2]):
            t = t[1] if t[0] in ("ref", "deref") else t[2][0]
        return common.is_p(t, sp)
    aggs = []
    for bi, b in enumerate(f.blocks):
        for st in b["s"]:
            if st["k"] == "assign" and st["r"]["k"] == "agg":
                t = T.rvalue(st["r"])
                if t[0] == "agg" and t[1] == STREAM:
                    aggs.append((bi, dict(t[3])))
    ctx.floor(R, "Stream construction sites in handshake", len(aggs), 1)
    for bi, flds in aggs:
        inner = flds.get("inner")
        ok = inner is not None and is_transport(inner)
        ctx.ob(R, "Stream.inner is the given transport", ok, "inner: the stream parameter itself" if ok else
               "Stream.inner is %s, not the transport the handshake was given: whatever an intermediate wrapper read ahead (or buffered for writing) is dropped with it - bytes the peer wrote and flushed never reach the reader" % (show(inner)[:80] if inner is not None else None), f.loc())
        fresh = all(flds.get(k) is not None and flds[k][0] in ("call", "agg") and not any(x[0] in ("param", "upvar", "var") for x in subterms(flds[k])) for k in ("read_buf", "write_buf"))
        ctx.ob(R, "session starts with empty buffers", fresh, "read_buf / write_buf: Default::default()" if fresh else "the session's buffers are not freshly created: %s" % {k: show(v)[:40] for k, v in flds.items() if k.endswith("_buf")}, f.loc())
    ios = [c for c in T.calls() if c["q"].startswith("zksync_concurrency::io::") or c["q"].startswith("tokio::io::")]
    reads = [c for c in ios if "read" in c["q"].rsplit("::", 1)[1]]
    bad_target = [c for c in ios if c["q"].startswith("zksync_concurrency::io::") and len(T.args_of(c)) > 1 and not is_transport(T.args_of(c)[1])]
    ctx.floor(R, "transport reads in handshake", len(reads), 2)
    okr = bool(reads) and all(c["q"].endswith("io::read_exact") for c in reads)
    ctx.ob(R, "handshake reads exact lengths", okr, "%d reads, all io::read_exact" % len(reads) if okr else "the handshake reads with %s: an open-ended read can take bytes that belong to the session" % sorted(set(c["q"].rsplit("::", 1)[1] for c in reads if not c["q"].endswith("io::read_exact"))), f.loc())
    ctx.ob(R, "handshake i/o goes to the transport itself", not bad_target, "every io:: call of the handshake is made on the stream parameter" if not bad_target else
           "handshake i/o is made on %s instead of the transport parameter (an adapter with its own buffer)" % show(T.args_of(bad_target[0])[1])[:60], f.loc(bad_target[0]["t"].get("ln")) if bad_target else f.loc())

def rule_no_empty_frame(ctx):
    R = "C13.10"
    ctx.rule(R, "no empty frame is ever produced: in poll_flush_payload the encryption of the payload buffer (TransportState::write_message) is unreachable when the payload buffer is empty - whatever else is pending. A frame carrying zero plaintext bytes decrypts to a zero-length read, which AsyncRead consumers take for end-of-stream while the writer is alive: everything flushed afterwards is lost to them")
    f = ctx.fn(STREAM + "::poll_flush_payload")
    T = ctx.T(f)
    enc = [c["bb"] for c in T.calls() if c["q"].endswith("TransportState::write_message")]
    ctx.floor(R, "encryption sites in poll_flush_payload", len(enc), 1)

    def m(a, b):
        def is_len(t):
            return t[0] == "call" and t[1].endswith("bytes::Buffer::len") and chain(t[2][0])[1][-1:] == ["payload"]
        if is_len(a) and b == ("const", 0):
            return 1
        if is_len(b) and a == ("const", 0):
            return -1
        return 0
    if not common.atom_is_tested(ctx, f, m):
        ctx.note("C13.10: no test of payload.len() against 0 found in poll_flush_payload - not decided")
        ctx.ob(R, "empty payload is not encrypted", True, "undecided shape (not reported)", f.loc())
        return
    W = Walker(ctx, f, [Atom("cmp(payload.len(),0)", "cmp", m, ["=", ">"])])
    names, tab = W.table({"encrypt": enc})
    bad = "encrypt" in tab.get(("=",), set())
    ok = not bad and "encrypt" in tab.get((">",), set())
    ctx.ob(R, "empty payload is not encrypted", ok, "write_message is reachable only with payload.len() > 0" if ok else
           ("poll_flush_payload can encrypt an EMPTY payload buffer (e.g. when only a frame is still pending): the peer reads a zero-length frame as end-of-stream" if bad else "the payload is never encrypted (shape not recognised)"), f.loc())



RULES = [("C13.10", rule_no_empty_frame), ("C13.9", rule_handshake_hand_over), ("C13.8", rule_read_accounting), ("C13.1", rule_constants), ("C13.2", rule_reader), ("C13.3", rule_flush_before_reuse), ("C13.4", rule_failures), ("C13.5", rule_buffer), ("C13.6", rule_write_accounting), ("C13.7", rule_flush_progress)]
