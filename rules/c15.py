"""C15 — rate and concurrency limits on every RPC stream (structural mechanisms; the numeric window bound is not decided)."""
from . import common
from engine import query as Q
from engine.terms import show, subterms
from engine.guards import Atom, Walker, field_path, chain, Inliner
from .c07 import norm_arith

LIM = "zksync_concurrency::limiter"
NET = "zksync_consensus_network"
RS = NET + "::mux::reusable_stream"


def root_fn(f):
    while f.parent is not None:
        f = f.parent
    return f


def acquire_body(ctx):
    return ctx.body(LIM + "::Limiter::acquire")


def state_mutations(ctx, f):
    """Blocks of `f` that mutate the limiter state: send_if_modified / send_modify on self.state"""
    T = ctx.T(f)
    return [c for c in T.calls() if c["q"].endswith(("::send_if_modified", "::send_modify")) and "state" in show(T.args_of(c)[0])]


def rule_cancel_safe(ctx):
    R = "C15.1"
    ctx.rule(R, "a cancelled wait consumes nothing: in Limiter::acquire the only state mutation happens after the last cancellation point (no await and no fallible step between the mutation and Ok(Permit)); no state write precedes a wait")
    f = acquire_body(ctx)
    T = ctx.T(f)
    cfg = ctx.cfg(f)
    muts = state_mutations(ctx, f)
    ctx.ob(R, "single reservation site", len(muts) == 1, "%d state mutation site(s) in acquire" % len(muts), f.loc())
    if not muts:
        return
    m = muts[0]
    after = cfg.reach_from([f.blocks[m["bb"]]["t"]["t"]]) if "t" in f.blocks[m["bb"]]["t"] else set()
    yields = [bi for bi in after if f.blocks[bi]["t"]["k"] == "yield"]
    errs = [bi for bi in after for s in f.blocks[bi]["s"] if s["k"] == "assign" and s["p"]["l"] in Q.ret_locals(f) and s["r"]["k"] == "agg" and s["r"].get("variant") == "Err"]
    res = [bi for bi in after if f.blocks[bi]["t"]["k"] == "call" and "decl" in f.blocks[bi]["t"]["f"] and f.callee(f.blocks[bi]["t"])[0].qname == "std::ops::FromResidual::from_residual"]
    ok = not yields and not errs and not res
    ctx.ob(R, "nothing cancellable after the reservation", ok, "from the reservation to Ok(Permit) there is no await point and no error return (%d blocks)" % len(after) if ok else
           "after reserving permits acquire can still be cancelled or fail (await at bb%s, error returns %s): reserved permits would leak" % (yields[:3], (errs + res)[:3]), f.loc(m["t"].get("ln")))
    oks = [bi for bi, b in enumerate(f.blocks) for s in b["s"] if s["k"] == "assign" and s["p"]["l"] in Q.ret_locals(f) and s["r"]["k"] == "agg" and s["r"].get("variant") == "Ok"]
    # Ok(Permit{permits: n>0}) only after the reservation
    real = []
    for bi in oks:
        for s in f.blocks[bi]["s"]:
            if s["k"] == "assign" and s["p"]["l"] in Q.ret_locals(f) and s["r"]["k"] == "agg":
                t = T.rvalue(s["r"])
                for x in subterms(t):
                    if x[0] == "agg" and x[1] == LIM + "::Permit" and dict(x[3]).get("permits") != ("const", 0):
                        real.append(bi)
    ok = bool(real) and all(cfg.must_pass_blocks(b, {m["bb"]}) for b in real)
    ctx.ob(R, "a real permit is returned only after the reservation", ok, "Ok(Permit{permits}) is dominated by the state update" if ok else "a non-empty permit can be returned without reserving", f.loc())


def rule_fifo(ctx):
    R = "C15.2"
    ctx.rule(R, "FIFO: the fair `acquire` mutex is locked before waiting; its guard stays alive across wait -> sleep -> reservation")
    f = acquire_body(ctx)
    T = ctx.T(f)
    cfg = ctx.cfg(f)
    e = Q.success_edges(ctx, f, lambda b: b[0] == "await" and b[1][0] == "call" and b[1][1].endswith("sync::lock") and "acquire" in show(b[1][2][1]))
    muts = state_mutations(ctx, f)
    waits = [c["bb"] for c in T.calls() if c["q"].endswith(("sync::wait_for", "Ctx::sleep_until_deadline"))]
    ok = bool(e) and bool(muts) and all(cfg.must_pass(b, e) for b in waits + [m["bb"] for m in muts])
    ctx.ob(R, "lock before wait/sleep/reserve", ok, "the acquire mutex is held when waiting for reservations, sleeping and reserving" if ok else "waiting or reserving is reachable without the acquire mutex: callers are not served in arrival order", f.loc())
    # the guard local is not dropped between lock and reservation
    # the guard is identified by its type (the guard of the mutex that protects a watch::Receiver<State>), not by its name
    guard_locals = [i for i, ty in enumerate(f.locals) if ty.s.startswith("tokio::sync::mutex::MutexGuard<") and "limiter::State" in ty.s and f.var_names().get(i) is not None]
    starts = [t for _, t in e]
    okd = bool(guard_locals) and bool(muts)
    if okd:
        region = Q.region_between(cfg, starts, muts[0]["bb"])
        for bi in region:
            t = f.blocks[bi]["t"]
            if t["k"] == "drop" and t["p"]["l"] in guard_locals and not t["p"].get("pr") and bi != muts[0]["bb"]:
                okd = False
            # handed away by value (drop(guard), or moved into anything else) before the reservation
            if t["k"] == "call" and bi != muts[0]["bb"] and any("m" in a and not a["m"].get("pr") and a["m"]["l"] in guard_locals for a in t["args"]):
                okd = False
            for st in f.blocks[bi]["s"]:
                if st["k"] == "assign" and st["r"]["k"] == "use" and "m" in st["r"]["o"] and not st["r"]["o"]["m"].get("pr") and st["r"]["o"]["m"]["l"] in guard_locals and bi != muts[0]["bb"]:
                    okd = False
    ctx.ob(R, "guard alive until reservation", okd, "the mutex guard `acquire` is not dropped on any path from lock to reservation" if okd else "the acquire guard is released before the permits are reserved", f.loc())


def rule_state_writers(ctx):
    R = "C15.3"
    ctx.rule(R, "consumption only on drop: limiter State fields are written only by State::advance, the reservation closure of acquire (reserved += permits) and the Permit::drop closure (reserved -= p; permits -= p after advance)")
    ST = LIM + "::State"
    writers = {}
    for f in ctx.F.fns:
        if f.in_testonly() or LIM not in f.qname:
            continue
        for bb in range(len(f.blocks)):
            for names, kind, node in Q.stmt_field_writes(f, bb, ST):
                for r in common.owner_roots(ctx, f):
                    writers.setdefault(r.qname.split("::", 2)[-1], set()).update(names)
    exp = {"limiter::State::advance": {"permits", "refresh_ticks"}, "limiter::Limiter::acquire": {"reserved"}, "<zksync_concurrency::limiter::Permit as std::ops::Drop>::drop": {"reserved", "permits"}}
    norm = {k.replace("zksync_concurrency::", "") if not k.startswith("<") else k: v for k, v in writers.items()}
    exp2 = {"State::advance": {"permits", "refresh_ticks"}, "Limiter::acquire": {"reserved"}}
    got = {}
    for k, v in writers.items():
        got[k.split("limiter::")[-1].replace(" as std::ops::Drop>::drop", "::drop")] = v
    # the accounting fields; additional (informational) fields of State are not part of the token bucket
    CORE = {"permits", "reserved", "refresh_ticks"}
    got = {k: (v & CORE) for k, v in got.items() if v & CORE}
    ok = got.get("State::advance") == {"permits", "refresh_ticks"} and got.get("Limiter::acquire") == {"reserved"} and got.get("Permit::drop") == {"reserved", "permits"} and len(got) == 3
    ctx.ob(R, "writers of limiter state", ok, "State is written only by advance{permits,refresh_ticks}, acquire{reserved}, Permit::drop{reserved,permits}" if ok else "limiter State writers: %s" % {k: sorted(v) for k, v in got.items()})
    d = ctx.fn("<%s::Permit as std::ops::Drop>::drop" % LIM)
    kids = [g for g in ctx.F.fns if root_fn(g) is d and g.kind == "closure"]
    okd = False
    for g in kids:
        T = ctx.T(g)
        adv = [c["bb"] for c in T.calls() if c["q"] == ST + "::advance"]
        subs = [bb for bb in range(len(g.blocks)) if Q.stmt_field_writes(g, bb, ST)]
        if adv and subs:
            cfg = ctx.cfg(g)
            okd = all(cfg.must_pass_blocks(b, set(adv)) for b in subs)
    ctx.ob(R, "drop refreshes before consuming", okd, "Permit::drop advances the refresh clock before subtracting the consumed permits" if okd else "Permit::drop consumes permits without advancing first", d.loc())


def rule_open_permit(ctx):
    R = "C15.4"
    ctx.rule(R, "one limiter permit per OPEN: in the reusable-stream loop limiter.acquire(ctx, 1) success dominates every send_open of the iteration")
    top = ctx.fn(RS + "::ReusableStream::run")
    fam = [g for g in ctx.F.fns if g.kind == "coroutine" and root_fn(g) is top]
    body = [g for g in fam if any(c["q"].endswith("WriteReusableStream::send_open") for c in ctx.T(g).calls())]
    ctx.floor(R, "loop body", len(body), 1)
    if not body:
        return
    f = body[0]
    T = ctx.T(f)
    cfg = ctx.cfg(f)
    e = Q.success_edges(ctx, f, lambda b: b[0] == "await" and b[1][0] == "call" and b[1][1] == LIM + "::Limiter::acquire")
    opens = [c for c in T.calls() if c["q"].endswith("WriteReusableStream::send_open")]
    ctx.floor(R, "send_open sites", len(opens), 2)
    head = min([c["bb"] for c in T.calls() if c["q"].endswith("scope::Scope::spawn")] or [0])
    for i, o in enumerate(opens):
        r = cfg.reach_from([head], avoid_edges=frozenset(e))
        ok = bool(e) and o["bb"] not in r
        ctx.ob(R, "send_open #%d" % i, ok, "dominated within the iteration by a successful limiter.acquire" if ok else "an OPEN frame can be sent without a rate-limiter permit in this iteration", f.loc(o["t"].get("ln")))
    # the permit is a *reservation*: it is consumed (and starts refilling) when it is dropped. It has to stay alive until
    # the transient stream of this iteration has been handed to the user - dropped earlier (`let _ = ..acquire()..`),
    # idle streams that already sent OPEN hold no reservation and the server can start INFLIGHT + burst calls at once.
    cfgn = ctx.cfg(f, with_cancel=False)
    hand = [c["bb"] for c in T.calls() if c["q"].endswith("oneshot::Sender::send") and any(f.ty(i).s.endswith("transient_stream::Stream") for i in c["t"]["f"].get("ga", []))]
    plocals = [i for i, ty in enumerate(f.locals) if ty.s.startswith(LIM + "::Permit")]
    ctx.floor(R, "locals holding the OPEN permit", len(plocals), 1)
    ctx.floor(R, "stream hand-over sites in the loop body", len(hand), 1)
    moved_at = {}
    for bi, b in enumerate(f.blocks):
        for st in b["s"]:
            if st["k"] == "assign":
                for o in [st["r"].get("o")] + list(st["r"].get("ops", [])):
                    if isinstance(o, dict) and "m" in o and not o["m"].get("pr") and o["m"]["l"] in plocals:
                        moved_at.setdefault(o["m"]["l"], []).append(bi)
    early = []
    for bi, b in enumerate(f.blocks):
        t = b["t"]
        if t["k"] == "drop" and not t["p"].get("pr") and t["p"]["l"] in plocals and not b.get("cleanup"):
            l = t["p"]["l"]
            # a drop of a local whose value was moved out on every path to it is a no-op (removed by drop elaboration)
            if any(cfgn.dominates(m, bi) for m in moved_at.get(l, [])):
                continue
            nxt = [y for _, y in cfgn.succ[bi]]
            r = cfgn.reach_from(nxt, avoid_blocks=frozenset([head]))
            if set(hand) & r:
                early.append(bi)
    ctx.ob(R, "permit held until the stream is handed over", not early and bool(hand), "no drop of the permit precedes the hand-over of the transient stream within the iteration" if not early and hand else
           "the limiter permit is dropped (consumed) before the transient stream of this iteration is handed over: waiting streams hold no reservation, so after an idle period more than `burst` calls can start at once", f.loc())
    acq = [T.args_of(c) for c in T.calls() if c["q"] == LIM + "::Limiter::acquire"]
    ok = bool(acq) and all(a[2] == ("const", 1) and chain(a[0])[1][-1:] == ["limiter"] and "stream_queue" in show(a[0]) for a in acq)
    ctx.ob(R, "permit amount", ok, "self.stream_queue.limiter.acquire(ctx, 1)" if ok else "acquire arguments: %s" % [[show(x) for x in a] for a in acq], f.loc())


def rule_server_concurrency(ctx):
    R = "C15.5"
    ctx.rule(R, "server concurrency: a handler runs only in a task spawned after queue.reserve succeeded; one request is read per opened stream; server and client queues are StreamQueue::new(ctx, R::INFLIGHT, rate)")
    serve = [f for f in ctx.F.fns if f.qname.endswith("rpc::ServerTrait>::serve") and not f.in_testonly()]
    ctx.floor(R, "serve bodies", len(serve), 1)
    for top in serve:
        fam = [g for g in ctx.F.fns if g.kind == "coroutine" and root_fn(g) is top]
        loop = [g for g in fam if any(c["q"].endswith("StreamQueue::reserve") for c in ctx.T(g).calls())]
        hand = [g for g in fam if any(c["q"].endswith("rpc::Handler::handle") for c in ctx.T(g).calls())]
        ok = len(loop) == 1 and len(hand) == 1
        if ok:
            f = loop[0]
            T = ctx.T(f)
            cfg = ctx.cfg(f)
            e = Q.success_edges(ctx, f, lambda b: b[0] == "await" and b[1][0] == "call" and b[1][1].endswith("StreamQueue::reserve"))
            sp = [c["bb"] for c in T.calls() if c["q"].endswith("scope::Scope::spawn")]
            ok = bool(e) and bool(sp) and all(cfg.must_pass(b, e) for b in sp)
            # the handler body is nested (transitively) in the spawned task, not in the loop body itself
            h = hand[0]
            p = h
            nested = False
            while p is not None:
                if p is f:
                    nested = h is not f
                p = p.parent
            ok = ok and nested
        ctx.ob(R, "handler only in a reserved task", ok, "Scope::spawn is dominated by reserve() success and the handler runs inside the spawned task" if ok else "a handler can run without a stream reservation (concurrency not bounded by INFLIGHT)", top.loc())
        if hand:
            h = hand[0]
            Th = ctx.T(h)
            cfgh = ctx.cfg(h)
            rd = [c["bb"] for c in Th.calls() if c["q"].endswith("frame::mux_recv_proto")]
            # not inside a cycle of the handler body (only the await poll loop, which does not contain the call block itself twice)
            once = len(rd) == 1 and rd[0] not in cfgh.reach_from([t for _, t in cfgh.succ[rd[0]]])
            ctx.ob(R, "one request per stream", once, "exactly one mux_recv_proto per opened stream, not in a loop" if once else "more than one request can be read from one opened stream", h.loc())
    for q in (NET + "::rpc::Service::add_server", NET + "::rpc::Client::new"):
        f = ctx.fn(q)
        T = ctx.T(f)
        a = [T.args_of(c) for c in T.calls() if c["q"].endswith("StreamQueue::new")]
        ok = len(a) == 1 and a[0][1][0] == "cdef" and a[0][1][1].endswith("Rpc::INFLIGHT") and a[0][2][0] == "param"
        ctx.ob(R, "%s queue" % q.split("::")[-2], ok, "StreamQueue::new(ctx, R::INFLIGHT, rate)" if ok else "queue built with %s" % [[show(x) for x in y] for y in a], f.loc())


def rule_rates_wired(ctx):
    R = "C15.6"
    ctx.rule(R, "config wiring: every production add_server / Client::new is created with cfg.rpc.<rpc>_rate (or the protocol constant ping::RATE) of its own RPC type")
    nserv = ncli = 0
    for f in ctx.F.fns:
        if f.in_testonly() or f.crate != NET or "loadtest" in f.qname:
            continue
        T = ctx.T(f)
        for c in T.calls():
            if c["q"] in (NET + "::rpc::Service::add_server", NET + "::rpc::Client::new"):
                a = T.args_of(c)
                rate = a[-1]
                tys = [f.ty(i).s for i in c["t"]["f"].get("ga", [])]
                rpc = [t for t in tys if t.endswith("::Rpc")]
                if not rpc:
                    continue
                mod = rpc[0].split("::")[-2]
                if c["q"].endswith("add_server"):
                    nserv += 1
                else:
                    ncli += 1
                if mod == "ping":
                    ok = rate[0] == "cdef" and rate[1].endswith("ping::RATE")
                    exp = "ping::RATE"
                else:
                    ok = chain(rate)[1][-2:] == ["rpc", mod + "_rate"]
                    exp = "cfg.rpc.%s_rate" % mod
                ctx.ob(R, "%s<%s> in %s" % (c["q"].split("::")[-2] + "::" + c["q"].split("::")[-1], mod, root_fn(f).qname.split("::")[-1]), ok,
                       "rate = %s" % exp if ok else "the %s %s is created with rate %s instead of %s" % (mod, "server" if c["q"].endswith("add_server") else "client", show(rate)[:80], exp), f.loc(c["t"].get("ln")))
    ctx.floor(R, "production add_server sites", nserv, 8)
    ctx.floor(R, "production Client::new sites", ncli, 7)


def rule_burst(ctx):
    R = "C15.7"
    ctx.rule(R, "a request for more permits than the burst never returns a permit (table); an infinite rate returns an empty permit")
    f = acquire_body(ctx)
    T = ctx.T(f)

    def m(a, b):
        pn = common.pnames(f, "usize")
        if chain(a)[1][-1:] == ["burst"] and common.is_p(b, pn):
            return 1
        if chain(b)[1][-1:] == ["burst"] and common.is_p(a, pn):
            return -1
        return 0
    oks = [bi for bi, b in enumerate(f.blocks) for s in b["s"] if s["k"] == "assign" and s["p"]["l"] in Q.ret_locals(f) and s["r"]["k"] == "agg" and s["r"].get("variant") == "Ok"]
    W = Walker(ctx, f, [Atom("cmp(burst,permits)", "cmp", m, ["<", "=", ">"])])
    names, tab = W.table({"ok": oks})
    ok = "ok" not in tab.get(("<",), {"ok"}) and "ok" in tab.get(("=",), set()) and "ok" in tab.get((">",), set())
    ctx.ob(R, "burst table", ok, "Ok(Permit) is unreachable when burst < permits" if ok else "acquire can return a permit for more than the burst: %s" % {k: sorted(v) for k, v in tab.items()}, f.loc())


def rule_arithmetic(ctx):
    R = "C15.8"
    ctx.rule(R, "deadline arithmetic (formula identity): the wake-up deadline is start + duration_or_max(refresh * need); duration_or_max(d) = Duration::new(d / 1e9, d % 1e9) saturating at Duration::MAX; need = refresh_ticks + max(0, reserved + permits - available)")
    f = ctx.fn(LIM + "::duration_or_max")
    T = ctx.T(f)
    rets = []
    for b in f.blocks:
        for s in b["s"]:
            if s["k"] == "assign" and s["p"]["l"] in Q.ret_locals(f) and not s["p"].get("pr"):
                rets.append(norm_arith(T.rvalue(s["r"])))
        t = b["t"]
        if t["k"] == "call" and t["dest"]["l"] == 0 and not t["dest"].get("pr"):
            rets.append(norm_arith(T.call_term(t)))
    okf = False
    oks = False
    for r in rets:
        if r[0] == "call" and r[1] == "time::Duration::new":
            q, rm = r[2]
            def strip_cast(x):
                return x[1] if x[0] == "cast" else x
            q, rm = strip_cast(q), strip_cast(rm)
            okf = q[0] == "bin" and q[1] == "Div" and rm[0] == "bin" and rm[1] == "Rem" and q[2] == rm[2] and q[2][0] == "param" and q[3] == rm[3] == ("const", 1000000000)
        if r[0] in ("cdef", "const", "cother") or (r[0] == "cdef" and "MAX" in r[1]):
            oks = True
    ctx.ob(R, "duration_or_max formula", okf, "Duration::new(d / 1_000_000_000, d % 1_000_000_000): whole seconds and the sub-second remainder of the same d" if okf else
           "duration_or_max does not convert both the whole seconds and the sub-second remainder of d (returns %s): wake-up deadlines would be rounded and permits granted early/late" % [show(r)[:80] for r in rets], f.loc())
    a = acquire_body(ctx)
    Ta = ctx.T(a)
    dl = [Ta.args_of(c) for c in Ta.calls() if c["q"].endswith("Instant::checked_add")]
    ok = bool(dl) and all(chain(x[0])[1][-1:] == ["start"] and x[1][0] == "call" and x[1][1] == LIM + "::duration_or_max" and x[1][2][0][0] == "call" and x[1][2][0][1].endswith("saturating_mul")
                          and chain(x[1][2][0][2][0])[1][-1:] == ["refresh"] for x in dl)
    ctx.ob(R, "deadline term", ok, "deadline = self.start.checked_add(duration_or_max(self.refresh.saturating_mul(need)))" if ok else "deadline term: %s" % [[show(y)[:80] for y in x] for x in dl], a.loc())
    sl = [Ta.args_of(c) for c in Ta.calls() if c["q"].endswith("Ctx::sleep_until_deadline")]
    ctx.ob(R, "sleep until the deadline", bool(sl), "acquire sleeps until that deadline (context-aware)", a.loc())



def rule_monotone_refill_clock(ctx):
    R = "C15.9"
    ctx.rule(R, "the refill clock never moves backwards: State::advance writes refresh_ticks (and adds permits) only when the new tick is not older than the recorded one - otherwise a later advance would refill the same interval twice (more than burst + T/refresh grants in a window)")
    ST = LIM + "::State"
    f = ctx.fn(ST + "::advance")
    T = ctx.T(f)

    def m(a, b):
        pa = a[0] == "param" and a[1] == 2
        pb = b[0] == "param" and b[1] == 2
        fa = chain(a)[1][-1:] == ["refresh_ticks"]
        fb = chain(b)[1][-1:] == ["refresh_ticks"]
        if pa and fb:
            return 1
        if pb and fa:
            return -1
        return 0
    W = Walker(ctx, f, [Atom("cmp(new tick, recorded tick)", "cmp", m, ["<", "=", ">"])])
    wr = [bb for bb in range(len(f.blocks)) for names, k, nd in Q.stmt_field_writes(f, bb, ST) if "refresh_ticks" in names]
    ctx.floor(R, "writes of refresh_ticks in advance", len(wr), 1)
    names, tab = W.table({"write": wr})
    # `self.refresh_ticks = max(self.refresh_ticks, tick)` is monotone without a branch
    vals = [T.rvalue(st["r"]) for bb in wr for st in f.blocks[bb]["s"] if st["k"] == "assign" and any(isinstance(e, dict) and e.get("n") == "refresh_ticks" for e in st["p"].get("pr", []))]
    if vals and all(v[0] == "call" and v[1] in ("std::cmp::max", "std::cmp::Ord::max") and any(chain(x)[1][-1:] == ["refresh_ticks"] for x in v[2]) and any(x[0] == "param" and x[1] == 2 for x in v[2]) for v in vals):
        ctx.ob(R, "clock write guarded", True, "refresh_ticks = max(recorded tick, new tick)", f.loc())
        return
    if len(set(map(frozenset, tab.values()))) == 1:
        # no comparison of the two ticks at all: the write is unconditional
        ctx.ob(R, "clock write guarded", False, "State::advance overwrites refresh_ticks without comparing the new tick with the recorded one: an older tick rewinds the refill clock", f.loc())
        return
    ok = "write" not in tab.get(("<",), {"write"}) and "write" in tab.get((">",), set())
    ctx.ob(R, "clock write guarded", ok, "refresh_ticks is written only for a tick >= the recorded one" if ok else
           "State::advance writes refresh_ticks for an older tick (write reachable by order of new vs recorded tick: %s): the refill clock can move backwards" % {k[0]: sorted(v) for k, v in tab.items()}, f.loc())


def rule_bucket_formulas(ctx):
    R = "C15.10"
    ctx.rule(R, "token-bucket bookkeeping (formula identity): a new limiter starts full and idle (permits = burst, no reservation, tick 0) with burst and refresh taken from the configured rate; State::advance adds one permit per elapsed tick and never exceeds the burst (min(permits + ticks, burst)); acquire waits until burst - reserved >= permits and computes the wake-up tick as refresh_ticks + max(0, reserved + permits - available); dropping a permit converts the clock reading to ticks with the limiter's own start and refresh")
    ST = LIM + "::State"
    # Limiter::new
    f = ctx.fn(LIM + "::Limiter::new")
    T = ctx.T(f)
    st = None
    lim = None
    for b in f.blocks:
        for s_ in b["s"]:
            if s_["k"] == "assign" and s_["r"]["k"] == "agg":
                if s_["r"].get("def") == ST:
                    st = dict(T.rvalue(s_["r"])[3])
                if s_["r"].get("def") == LIM + "::Limiter":
                    lim = dict(T.rvalue(s_["r"])[3])
    if st is None:
        # the State literal may be an operand of the channel constructor
        for c in T.calls():
            for a in T.args_of(c):
                for x in subterms(a):
                    if x[0] == "agg" and x[1] == ST:
                        st = dict(x[3])
    ok = st is not None and chain(st.get("permits", ("cunit",)))[1][-1:] == ["burst"] and st.get("refresh_ticks") == ("const", 0) and st.get("reserved") == ("const", 0)
    ctx.ob(R, "initial state", ok, "State { permits: rate.burst, refresh_ticks: 0, reserved: 0 }" if ok else "a new limiter does not start with permits = burst, no reservation and tick 0: %s" % ({k: show(v)[:40] for k, v in (st or {}).items()}), f.loc())
    okl = lim is not None and chain(lim.get("burst", ("cunit",)))[1][-1:] == ["burst"] and any(x[0] == "call" and x[1].endswith("whole_nanoseconds") and chain(x[2][0])[1][-1:] == ["refresh"] for x in subterms(lim.get("refresh", ("cunit",)))) \
        and any(x[0] == "call" and x[1].endswith("Ctx::now") for x in subterms(lim.get("start", ("cunit",))))
    ctx.ob(R, "limiter parameters", okl, "burst = rate.burst, refresh = rate.refresh in nanoseconds, start = ctx.now()" if okl else "limiter parameters: %s" % ({k: show(v)[:50] for k, v in (lim or {}).items() if k in ("burst", "refresh", "start")}), f.loc())
    # State::advance: the permits written
    g = ctx.fn(ST + "::advance")
    Tg = ctx.T(g)
    vals = [Tg.rvalue(s_["r"]) for b in g.blocks for s_ in b["s"] if s_["k"] == "assign" and any(isinstance(e, dict) and e.get("n") == "permits" and e.get("o") == ST for e in s_["p"].get("pr", []))]
    ctx.floor(R, "writes of permits in advance", len(vals), 1)
    okc = bool(vals)
    for v in vals:
        capped = v[0] == "call" and v[1] in ("std::cmp::min", "std::cmp::Ord::min") and any(chain(x)[1][-1:] == ["burst"] for x in v[2])
        grow = any(x[0] == "call" and x[1].endswith("saturating_add") and any(chain(y)[1][-1:] == ["permits"] for y in x[2]) and
                   any(z[0] in ("bin", "cbin") and z[1] in ("Sub", "SubWithOverflow") and any(chain(w)[1][-1:] == ["refresh_ticks"] for w in z[2:]) and any(w[0] == "param" for w in z[2:]) for y in x[2] for z in subterms(y)) for x in subterms(v))
        okc = okc and capped and grow
    ctx.ob(R, "refill", okc, "permits = min(permits.saturating_add(tick - refresh_ticks), burst)" if okc else "State::advance does not refill as min(permits + elapsed ticks, burst): %s" % [show(v)[:120] for v in vals], g.loc())
    # acquire: the wait predicate and the wake-up tick
    a = acquire_body(ctx)
    Ta = ctx.T(a)
    fam = [a] + common.family(ctx, a, ("closure",))
    pred_ok = False
    for h in fam:
        if h.kind != "closure" or h.locals[0].s != "bool":
            continue
        rt = Inliner(ctx).ret_term(h)
        if rt is None:
            continue
        rt = norm_arith(rt)
        # burst - reserved >= permits   (any equivalent orientation)
        txt = show(rt)
        if "burst" in txt and "reserved" in txt and any(x[0] in ("bin", "call") and (x[1] in ("Ge", "Le") or str(x[1]).endswith(("PartialOrd::ge", "PartialOrd::le"))) for x in subterms(rt)) and \
                any(x[0] == "bin" and x[1] == "Sub" and chain(x[2])[1][-1:] == ["burst"] and chain(x[3])[1][-1:] == ["reserved"] for x in subterms(rt)):
            pred_ok = True
    ctx.ob(R, "wait predicate", pred_ok, "acquire waits for burst - reserved >= permits" if pred_ok else "the wait predicate of acquire is not burst - reserved >= permits", a.loc())
    need_ok = False
    for c in Ta.calls():
        if c["q"].endswith("saturating_sub"):
            x = [norm_arith(y) for y in Ta.args_of(c)]
            if len(x) == 2 and x[0][0] == "bin" and x[0][1] == "Add" and any(chain(y)[1][-1:] == ["reserved"] for y in x[0][2:]) and chain(x[1])[1][-1:] == ["permits"] and not any(chain(y)[1][-1:] == ["permits"] and y == x[1] for y in x[0][2:]):
                need_ok = True
    add_ok = any(s_["k"] == "assign" and s_["r"]["k"] in ("bin", "cbin") and s_["r"].get("op") in ("Add", "AddWithOverflow") and
                 any(chain(Ta.operand(o))[1][-1:] == ["refresh_ticks"] for o in (s_["r"].get("a"), s_["r"].get("b")) if o is not None) for b in a.blocks for s_ in b["s"])
    ctx.ob(R, "wake-up tick", need_ok and add_ok, "need = state.refresh_ticks + (state.reserved + permits).saturating_sub(state.permits)" if need_ok and add_ok else
           "the wake-up tick of acquire is not refresh_ticks + max(0, reserved + requested - available)", a.loc())


RULES = [("C15.10", rule_bucket_formulas), ("C15.9", rule_monotone_refill_clock), ("C15.1", rule_cancel_safe), ("C15.2", rule_fifo), ("C15.3", rule_state_writers), ("C15.4", rule_open_permit), ("C15.5", rule_server_concurrency),
         ("C15.6", rule_rates_wired), ("C15.7", rule_burst), ("C15.8", rule_arithmetic)]
