"""C04 — certificates are accepted exactly when genuinely backed by a quorum (verification obligations as tables)."""
from engine import query as Q
from . import common
from engine.terms import show, subterms
from engine.guards import Atom, Walker, field_path, chain, Inliner
from .c07 import loop_head
from .phase_gate import SM

V2 = "zksync_consensus_roles::validator::messages::v2"
SIGNERS = V2 + "::consensus::Signers"
SCHED = "zksync_consensus_roles::validator::messages::schedule::Schedule"
AGG = "zksync_consensus_roles::validator::keys::aggregate_signature::AggregateSignature"


def _root(f):
    while f.parent is not None:
        f = f.parent
    return f


def call_atom(name, suffixes, extra=None):
    """bool atom: a call (possibly behind `?`/map_err adapters) to a callee ending with one of `suffixes`"""
    def m(t):
        if any(x[0] == "try" for x in subterms(t)):
            return False
        for x in subterms(t):
            if x[0] == "call" and x[1].endswith(tuple(suffixes)) and (extra is None or extra(x)):
                # the atom is the outcome of that call, seen through result adapters only
                return True
        return False
    return Atom(name, "bool", m, [True, False])


def ok_blocks(f):
    return [bi for bi, b in enumerate(f.blocks) for s in b["s"] if s["k"] == "assign" and s["p"]["l"] in Q.ret_locals(f) and not s["p"].get("pr") and s["r"]["k"] == "agg" and s["r"].get("variant") == "Ok"]


def conj_table(ctx, R, key, f, atoms, good, targets, start=0, what="", need_all_targets=True, atomic=None, complete=False):
    """targets reachable only on the all-good row (must-not-reach rows are sound), and reachable there."""
    W = Walker(ctx, f, atoms, atomic=atomic)
    names, tab = W.table(targets, start=start)
    bad = []
    hit = False
    missed = []
    for k, reach in tab.items():
        allgood = all(k[i] in good[i] for i in range(len(k)))
        if allgood:
            h = (set(targets) <= reach if need_all_targets else bool(reach))
            hit = hit or h
            if not h:
                missed.append(dict(zip(names, k)))
        elif reach:
            bad.append((dict(zip(names, k)), sorted(reach)))
    # exactness: the action must be reachable on EVERY row where all checks pass (a boundary moved from >= to > rejects
    # valid input: e.g. a certificate carrying exactly the quorum). Only reported when some good row is reached, so that
    # an unrecognised shape is still reported as such.
    incomplete = hit and bool(missed)
    # completeness ("accepted if and only if"): when every modelled check passes, no rejection is reachable - a further
    # condition that refuses a value although all specified checks pass is reported. Only for bodies whose checks are all
    # atoms of the table (Result-returning, evaluated from the entry); decided per good row.
    if complete and not bad and hit and not incomplete:
        RL = Q.ret_locals(f)
        errs = set()
        Tf = ctx.T(f)
        for bi, b_ in enumerate(f.blocks):
            for st in b_["s"]:
                if st["k"] == "assign" and not st["p"].get("pr") and st["p"]["l"] in RL and st["r"]["k"] == "agg" and st["r"].get("variant") == "Err":
                    errs.add(bi)
            t_ = b_["t"]
            if t_["k"] == "call" and "decl" in t_["f"] and not t_["dest"].get("pr") and t_["dest"]["l"] in RL and f.callee(t_)[0].qname == "std::ops::FromResidual::from_residual":
                errs.add(bi)
        extra = []
        for k in tab:
            if all(k[i] in good[i] for i in range(len(k))):
                r = W.reachable(dict(zip(names, k)), start)
                if r & errs:
                    extra.append((dict(zip(names, k)), sorted(r & errs)[:2]))
        ctx.ob(R, key + " (nothing else rejects)", not extra, "%s: with every check passing no rejection is reachable (%d error sites)" % (what, len(errs)) if not extra else
               "%s: a rejection is reachable although every specified check passes (%s): an additional, unspecified condition refuses valid input" % (what, extra[:1]), f.loc())
    ctx.ob(R, key, not bad and hit and not incomplete,
           "%s: reachable exactly when every check passed (%d valuations over %s)" % (what, len(tab), names) if not bad and hit and not incomplete else
           ("%s reachable although a check failed: %s" % (what, bad[:2]) if bad else
            ("%s is refused although every check passes for %s (a boundary is stricter than specified)" % (what, missed[:2]) if incomplete else
             "%s unreachable even when all checks pass (shape not recognised)" % what)), f.loc())
    return not bad and hit and not incomplete


def returns_only_after(ctx, f, suffixes):
    """Every maybe-Ok return of f is either the (mapped) result of a call ending with one of `suffixes`,
    or is dominated by the success edge of such a call. Returns (ok, number of return sites)."""
    T = ctx.T(f)
    cfg = ctx.cfg(f)
    e = Q.success_edges(ctx, f, lambda b: b[0] == "call" and b[1].endswith(tuple(suffixes)))
    rets = Q.return_blocks_maybe_ok(ctx, f)
    ok = bool(rets)
    for bb, kind in rets:
        good = False
        if kind == "call":
            # the block is the target of a call writing the return place: find that call
            for bi, b in enumerate(f.blocks):
                t = b["t"]
                if t["k"] == "call" and t.get("t") == bb and t["dest"]["l"] == 0 and not t["dest"].get("pr"):
                    ct = T.call_term(t)
                    if any(x[0] == "call" and x[1].endswith(tuple(suffixes)) for x in subterms(ct)):
                        good = True
        else:
            for st in f.blocks[bb]["s"]:
                if st["k"] == "assign" and st["p"]["l"] == 0 and not st["p"].get("pr"):
                    rt = T.rvalue(st["r"])
                    if any(x[0] == "call" and x[1].endswith(tuple(suffixes)) for x in subterms(rt)) and not (rt[0] == "agg" and rt[2] == "Ok"):
                        good = True
        if not good:
            good = bool(e) and cfg.must_pass(bb, e)
        ok = ok and good
    return ok, len(rets)


def weight_cmp_atom():
    def m(a, b):
        def is_w(t):
            return any(x[0] == "call" and x[1].endswith(("Signers::weight",)) for x in subterms(t))
        def is_t(t):
            return any(x[0] == "call" and x[1].endswith("Schedule::quorum_threshold") for x in subterms(t))
        if is_w(a) and is_t(b):
            return 1
        if is_w(b) and is_t(a):
            return -1
        return 0
    return Atom("cmp(weight,quorum)", "cmp", m, ["<", "=", ">"])


def len_cmp_atom(rhs_suffixes):
    def m(a, b):
        def is_sl(t):
            return t[0] == "call" and t[1] == SIGNERS + "::len"
        def is_r(t):
            return t[0] == "call" and t[1].endswith(tuple(rhs_suffixes))
        if is_sl(a) and is_r(b) and a != b:
            return 1
        if is_sl(b) and is_r(a) and a != b:
            return -1
        return 0
    return Atom("cmp(signers.len,expected)", "cmp", m, ["=", "!="])


def rule_commit_qc_verify(ctx):
    R = "C04.1"
    ctx.rule(R, "CommitQC::verify: the aggregate-signature check (whose result is returned) is reachable only after message.verify succeeded, signers.len() == schedule.len() and weight >= quorum_threshold; the weight is that of the QC's own signers under the same schedule")
    f = ctx.fn(V2 + "::replica_commit::CommitQC::verify")
    T = ctx.T(f)
    atoms = [call_atom("message.verify", ["ReplicaCommit::verify"]), len_cmp_atom(["Schedule::len"]), weight_cmp_atom()]
    vm = [c["bb"] for c in T.calls() if c["q"] == AGG + "::verify_messages"]
    ctx.floor(R, "verify_messages sites", len(vm), 1)
    conj_table(ctx, R, "guards of the signature check", f, atoms, [{True}, {"="}, {"=", ">"}], {"sigcheck": vm}, what="CommitQC signature check", complete=True)
    defs_ok, nret = returns_only_after(ctx, f, [AGG + "::verify_messages"])
    ctx.ob(R, "returned result", defs_ok, "every non-error return (%d) is the result of, or dominated by the success of, verify_messages" % nret if defs_ok else "CommitQC::verify can return Ok without the aggregate signature check having succeeded", f.loc())
    # C04.6 the right things are compared
    ws = [T.args_of(c) for c in T.calls() if c["q"] == SIGNERS + "::weight"]
    qs = [T.args_of(c) for c in T.calls() if c["q"] == SCHED + "::quorum_threshold"]
    ok = bool(ws) and bool(qs) and all(field_path(a[0])[1] == ["signers"] and a[1] == qs[0][0] for a in ws)
    ctx.ob("C04.6", "CommitQC weight operands", ok, "weight = self.signers.weight(schedule) compared with the same schedule's quorum_threshold()" if ok else
           "weight/threshold operands: %s vs %s" % ([show(x) for a in ws for x in a], [show(x) for a in qs for x in a]), f.loc())
    keys = [T.args_of(c) for c in T.calls() if c["q"] == SCHED + "::keys"]
    okk = bool(keys) and bool(qs) and all(a[0] == qs[0][0] for a in keys)
    # the (message, key) pairs are selected by this QC's signer bitmap and carry this QC's message
    fam = common.family(ctx, f, ("coroutine", "closure"), include_top=True)
    idx_ok = msg_ok = False
    for g in fam:
        Tg = ctx.T(g)
        for c in Tg.calls():
            if c["q"] == "std::ops::Index::index" and chain(Tg.args_of(c)[0])[1][-2:] == ["signers", "0"]:
                idx_ok = True
        for b in g.blocks:
            for st in b["s"]:
                if st["k"] == "assign" and st["r"]["k"] in ("ref", "use", "copyderef"):
                    tt = Tg.rvalue(st["r"])
                    if chain(tt)[1][-1:] == ["message"]:
                        msg_ok = True
            t = b["t"]
            if t["k"] == "call":
                for a in t["args"]:
                    if chain(Tg.operand(a))[1][-1:] == ["message"]:
                        msg_ok = True
    okc = idx_ok and msg_ok
    ctx.ob("C04.6", "CommitQC signature operands", okk and okc, "the verified (message, key) pairs enumerate the same schedule's keys filtered by self.signers and pair them with self.message" if okk and okc else
           "the key set handed to the signature check is not derived from the same schedule / this QC's signers", f.loc())


def rule_timeout_qc_verify(ctx):
    R = "C04.2"
    ctx.rule(R, "TimeoutQC::verify: in every loop iteration the union update is reachable only after view equality, signer-set length equality, non-emptiness, disjointness from the running union and the full ReplicaTimeout::verify of that entry; after the loop the signature check requires weight(union) >= quorum_threshold and a valid view")
    f = ctx.fn(V2 + "::replica_timeout::TimeoutQC::verify")
    T = ctx.T(f)

    def m_view(a, b):
        ra, na = chain(a)
        rb, nb = chain(b)
        if na[-1:] == ["view"] and nb[-1:] == ["view"] and a != b:
            return 1
        return 0

    def a_empty(t):
        return t[0] == "call" and t[1] == SIGNERS + "::is_empty" and not any(x[0] == "call" and x[1].endswith("BitAnd::bitand") for x in subterms(t))

    def a_disjoint(t):
        return t[0] == "call" and t[1] == SIGNERS + "::is_empty" and any(x[0] == "call" and x[1].endswith("BitAnd::bitand") for x in subterms(t))
    atoms = [Atom("msg.view==self.view", "cmp", m_view, ["=", "!="]), len_cmp_atom([SIGNERS + "::len"]),
             Atom("signers empty", "bool", a_empty, [True, False]), Atom("disjoint from union", "bool", a_disjoint, [True, False]),
             call_atom("entry.verify", ["ReplicaTimeout::verify"])]
    upd = [c["bb"] for c in T.calls() if c["q"].endswith("BitOrAssign::bitor_assign")]
    head = loop_head(ctx, f, target=upd) if upd else None
    ctx.floor(R, "union update sites", len(upd), 1)
    ctx.ob(R, "entry loop", head is not None, "loop over the (message, signers) entries found", f.loc())
    if head is not None and upd:
        conj_table(ctx, R, "per-entry guards", f, atoms, [{"="}, {"="}, {False}, {True}, {True}], {"union": upd}, start=head, what="adding an entry's signers to the union (every iteration)")
    vm = [c["bb"] for c in T.calls() if c["q"] == AGG + "::verify_messages"]
    atoms2 = [call_atom("view.verify", ["View::verify"]), weight_cmp_atom()]
    ctx.floor(R, "verify_messages sites", len(vm), 1)
    conj_table(ctx, R, "guards of the signature check", f, atoms2, [{True}, {"=", ">"}], {"sigcheck": vm}, what="TimeoutQC signature check")
    # the union that is weighed is the accumulated one
    flow = Q.LocalFlow(f)
    wl = [flow._local_op(c["t"]["args"][0]) for c in T.calls() if c["q"] == SIGNERS + "::weight"]
    bl = [flow._root_borrow(flow._local_op(c["t"]["args"][0])) for c in T.calls() if c["q"].endswith("BitOrAssign::bitor_assign")]
    ok = bool(wl) and bool(bl) and all(any(flow.derives_from_local(w, b) for b in bl if b is not None) for w in wl if w is not None)
    ctx.ob("C04.6", "TimeoutQC weight operand", ok, "the weight compared with the quorum is that of the running union of the entries' signer sets (derives-from flow)" if ok else "the weighed signer set does not derive from the accumulated union of the entries' signer sets", f.loc())
    okd, nret = returns_only_after(ctx, f, [AGG + "::verify_messages"])
    ctx.ob(R, "returned result", okd, "every non-error return (%d) is the result of, or dominated by the success of, verify_messages" % nret if okd else "TimeoutQC::verify can return Ok without the aggregate signature check having succeeded", f.loc())


def add_table(ctx, R, q, dup_atom, consistent, verify_suffix):
    f = ctx.fn(q)
    T = ctx.T(f)

    def a_member(t):
        return t[0] == "call" and t[1] == SCHED + "::index"
    atoms = [Atom("signer in committee", "opt", a_member, ["None", "Some"]), dup_atom, call_atom("signature", ["Signed::verify"]), consistent, call_atom("message valid", [verify_suffix])]

    def bitmap_scan_helper(qname):
        """an extracted helper whose body reads signer bitmaps by index (the duplicate-signer scan)"""
        h = getattr(ctx.F, "helpers", {}).get(qname)
        if h is None or h.locals[0].s != "bool":
            return False
        fam = common.family(ctx, h, ("coroutine", "closure"), include_top=True)
        return any(c["q"] == "std::ops::Index::index" and any(h2.ty(i).s.startswith("bit_vec::BitVec") for i in c["t"]["f"].get("ga", [])) for h2 in fam for c in ctx.T(h2).calls())
    muts = [c["bb"] for c in T.calls() if c["q"] == "bit_vec::BitVec::set" or c["q"] == AGG + "::add"]
    name = q.split("::")[-2]
    ctx.floor(R, "mutation sites in %s::add" % name, len(muts), 2)
    good = [{"Some"}, {False}, {True}, {"="}, {True}]
    conj_table(ctx, R, "%s::add guards" % name, f, atoms, good, {"set_bit": [c["bb"] for c in T.calls() if c["q"] == "bit_vec::BitVec::set"], "add_sig": [c["bb"] for c in T.calls() if c["q"] == AGG + "::add"]},
               what="%s::add mutations (signer bit, aggregate signature)" % name, atomic=bitmap_scan_helper, complete=True)
    # the bit that is set is the signer's index; the signature added is the message's
    idx_ok = any(T.args_of(c)[1] != ("const", 0) and any(x[0] == "call" and x[1] == SCHED + "::index" for x in subterms(T.args_of(c)[1])) for c in T.calls() if c["q"] == "bit_vec::BitVec::set")
    ctx.ob(R, "%s::add bit index" % name, idx_ok, "signers.set(index(msg.key), true)" if idx_ok else "the bit set is not the signer's schedule index", f.loc())
    sig_ok = any(chain(T.args_of(c)[1])[1][-1:] == ["sig"] for c in T.calls() if c["q"] == AGG + "::add")
    ctx.ob(R, "%s::add signature" % name, sig_ok, "signature.add(&msg.sig)" if sig_ok else "the aggregated signature is not msg.sig", f.loc())


def rule_add(ctx):
    R = "C04.3"
    ctx.rule(R, "incremental assembly (sibling tables): in CommitQC::add and TimeoutQC::add the two mutations are reachable only for a committee member whose bit is not yet set (in any group), with a valid signature, a message consistent with the certificate and a valid message")

    def a_dup_commit(t):
        if t[0] == "call" and t[1].startswith("inlined:"):
            return True
        return t[0] == "call" and t[1] == "std::ops::Index::index" and chain(t[2][0])[1][-2:] == ["signers", "0"]

    def m_cons_commit(a, b):
        ra, na = chain(a)
        rb, nb = chain(b)
        if na[-1:] == ["message"] and nb[-1:] == ["msg"]:
            return 1
        if nb[-1:] == ["message"] and na[-1:] == ["msg"]:
            return -1
        return 0
    add_table(ctx, R, V2 + "::replica_commit::CommitQC::add", Atom("already signed", "bool", a_dup_commit, [True, False]),
              Atom("msg == qc.message", "cmp", m_cons_commit, ["=", "!="]), "ReplicaCommit::verify")

    def a_dup_timeout(t):
        if t[0] == "call" and t[1].startswith("inlined:"):
            return True   # only offered for helpers accepted by bitmap_scan_helper
        return t[0] == "call" and t[1] == "std::iter::Iterator::any" and any(x[0] == "call" and x[1].endswith("BTreeMap::values") for x in subterms(t))

    def m_cons_timeout(a, b):
        ra, na = chain(a)
        rb, nb = chain(b)
        if na[-2:] == ["msg", "view"] and nb == ["view"]:
            return 1
        if nb[-2:] == ["msg", "view"] and na == ["view"]:
            return -1
        return 0
    add_table(ctx, R, V2 + "::replica_timeout::TimeoutQC::add", Atom("already signed (any group)", "bool", a_dup_timeout, [True, False]),
              Atom("msg.view == qc.view", "cmp", m_cons_timeout, ["=", "!="]), "ReplicaTimeout::verify")
    # the duplicate test of the timeout QC looks at every group
    f = ctx.fn(V2 + "::replica_timeout::TimeoutQC::add")
    T = ctx.T(f)
    anyc = [x for c in T.calls() if c["q"] == "std::iter::Iterator::any" for x in T.args_of(c) if x[0] == "closure"]
    okc = False
    for cl in anyc:
        g = ctx.F.by_qname.get(cl[1], [None])[0]
        if g is not None:
            rt = Inliner(ctx).ret_term(g)
            okc = rt is not None and any(x[0] == "call" and x[1] == "std::ops::Index::index" for x in subterms(rt))
    if not okc:
        # the scan may have been extracted into a helper (inlined here): it must iterate map.values() and index a bitmap
        okc = any(c["q"].endswith("BTreeMap::values") for c in T.calls()) and any(c["q"] == "std::ops::Index::index" and any(f.ty(i).s.startswith("bit_vec::BitVec") for i in c["t"]["f"].get("ga", [])) for c in T.calls())
    ctx.ob(R, "TimeoutQC duplicate test", okc, "the duplicate test scans map.values() for the signer's bit: the signer must be absent from every group" if okc else "duplicate test not recognised", f.loc())


def rule_final_block(ctx):
    R = "C04.4"
    ctx.rule(R, "FinalBlock::verify: the justification check (whose result is returned) is reachable only when payload.hash() == header().payload")
    f = ctx.fn(V2 + "::block::FinalBlock::verify")
    T = ctx.T(f)

    def m(a, b):
        def is_h(t):
            return any(x[0] == "call" and x[1].endswith("Payload::hash") for x in subterms(t))
        def is_hdr(t):
            return chain(t)[1][-1:] == ["payload"] and any(x[0] == "call" and x[1].endswith("::header") for x in subterms(t))
        if is_h(a) and is_hdr(b):
            return 1
        if is_h(b) and is_hdr(a):
            return -1
        return 0
    jv = [c["bb"] for c in T.calls() if c["q"].endswith("CommitQC::verify")]
    ctx.floor(R, "justification.verify sites", len(jv), 1)
    conj_table(ctx, R, "hash gate", f, [Atom("hash(payload)==header.payload", "cmp", m, ["=", "!="])], [{"="}], {"justification": jv}, what="justification verification")
    okr, nret = returns_only_after(ctx, f, ["CommitQC::verify"])
    ctx.ob(R, "returned result", okr, "every non-error return (%d) is the result of, or dominated by the success of, justification.verify" % nret if okr else "FinalBlock::verify can return Ok without the justification having been verified", f.loc())
    a = [T.args_of(c) for c in T.calls() if c["q"].endswith("CommitQC::verify")]
    ok = bool(a) and field_path(a[0][0])[1] == ["justification"] and all(x[0] == "param" for x in a[0][1:])
    ctx.ob(R, "arguments", ok, "self.justification.verify(genesis, epoch, schedule) with the caller's arguments" if ok else "justification.verify arguments: %s" % [show(x) for x in (a[0] if a else [])], f.loc())


def rule_must_verify(ctx):
    R = "C04.5"
    ctx.rule(R, "type-directed must-verify: for every message type with a verify method, each field (or Option payload / enum arm) whose type has a verify method is verified on the path to success; obligations are generated from the ADT definitions")
    F = ctx.F
    mods = V2
    # types with a verify method
    verifiers = {}
    for f in F.fns:
        if f.name == "verify" and f.item.impl_self_def and f.item.impl_self_def.startswith(mods) and not f.in_testonly() and f.item.impl_trait is None:
            verifiers[f.item.impl_self_def] = f
    ctx.floor(R, "verify methods in messages::v2", len(verifiers), 8)
    nob = 0
    for adt_path, f in sorted(verifiers.items()):
        a = F.adts.get(adt_path)
        if a is None:
            continue
        T = ctx.T(f)
        called = set()
        for c in T.calls():
            if c["q"].endswith("::verify"):
                called.add((c["q"], show(T.args_of(c)[0])))
        for v in a["variants"]:
            for fld in v["fields"]:
                ty = a["_types"][fld["t"]]
                inner = None
                for cand in verifiers:
                    if ty.s == cand or ty.s == "std::option::Option<%s>" % cand or ty.s.startswith("std::collections::BTreeMap<%s," % cand):
                        inner = cand
                if inner is None or inner == adt_path and False:
                    continue
                nob += 1
                want = inner + "::verify"
                short = adt_path.split("::")[-1]
                hit = [r for q, r in called if q == want]
                if a["kind"] == "enum":
                    ok = any(("as " + v["name"]) in r for r in hit)
                elif ty.s.startswith("std::collections::BTreeMap<"):
                    ok = bool(hit)
                else:
                    ok = any(("." + fld["name"]) in r for r in hit)
                ctx.ob(R, "%s.%s : %s" % (short, fld["name"] if a["kind"] != "enum" else v["name"], inner.split("::")[-1]), ok,
                       "%s::verify calls %s::verify on it" % (short, inner.split("::")[-1]) if ok else
                       "%s::verify never verifies its %s `%s` of type %s (a certificate/vote inside an accepted message would go unchecked)" % (short, "variant" if a["kind"] == "enum" else "field", fld["name"] if a["kind"] != "enum" else v["name"], inner.split("::")[-1]), f.loc())
    ctx.floor(R, "generated field obligations", nob, 9)
    # the context a nested verification is bound to is the caller's: every nested verify(..) receives the enclosing
    # function's own genesis / epoch / schedule parameters - never a value read from the message being verified (a vote
    # checked against its *own* epoch or genesis verifies in any chain and epoch)
    nctx = 0
    for adt_path, f in sorted(verifiers.items()):
        short = adt_path.split("::")[-1]
        fam = common.family(ctx, f, ("closure",), include_top=True)
        for g in fam:
            Tg = ctx.T(g)
            for c in Tg.calls():
                if not (c["q"].endswith("::verify") and c["q"].startswith(mods)):
                    continue
                a = Tg.args_of(c)
                bad = []
                for x in a[1:]:
                    r, names = chain(x)
                    from_self = (r[0] == "param" and r[1] == 1) or (r[0] == "upvar" and r[1] == "self")
                    is_ctx = (r[0] == "param" and r[1] >= 2 and not [n for n in names if not n.endswith("()")]) or (r[0] == "upvar" and not from_self and not [n for n in names if not n.endswith("()")])
                    if not is_ctx:
                        bad.append(show(x)[:60])
                nctx += 1
                ctx.ob(R, "%s::verify -> %s context" % (short, c["q"].split("::")[-2] + "::verify"), not bad,
                       "the nested verification is given the caller's own genesis / epoch / schedule" if not bad else
                       "%s::verify checks a nested %s against %s instead of the context it was asked to verify under" % (short, c["q"].split("::")[-2], bad), g.loc(c["t"].get("ln")))
    ctx.floor(R, "nested verification contexts", nctx, 8)
    # each nested verify result is propagated: a failing nested verify must not reach Ok
    for adt_path, f in sorted(verifiers.items()):
        short = adt_path.split("::")[-1]
        if short in ("CommitQC", "TimeoutQC", "FinalBlock", "View"):
            continue
        T = ctx.T(f)
        subs = sorted(set(c["q"] for c in T.calls() if c["q"].endswith("::verify") and c["q"].startswith(mods)))
        if not subs:
            continue
        oks = ok_blocks(f)
        atoms = [call_atom(q.split("::")[-2] + "::verify", [q]) for q in subs]
        W = Walker(ctx, f, atoms)
        names, tab = W.table({"ok": oks})
        # Ok unreachable whenever a nested verify that is evaluated on the path fails: check the all-false row
        allfalse = tuple(False for _ in atoms)
        # rows where exactly the executed verifies fail cannot be enumerated without path info; the sound row is all-false
        if not oks:
            # tail expression: the nested result is the return value (propagated by construction)
            rt = T.local(0)
            okp = any(x[0] == "call" and x[1] in subs for x in subterms(rt))
        else:
            okp = "ok" not in tab.get(allfalse, {"ok"})
        if len(atoms) == 1:
            ctx.ob(R, "%s::verify propagates %s" % (short, names[0]), okp, "Ok is unreachable when the nested verification fails" if okp else "%s::verify returns Ok although %s failed" % (short, names[0]), f.loc())
        # per call site: the outcome of each nested verification decides the result - from the call, Ok is reachable only
        # through the edge taken on its success (or the call's result is itself the returned value)
        cfg = ctx.cfg(f)
        RL = Q.ret_locals(f)
        for c in T.calls():
            if not (c["q"].endswith("::verify") and c["q"].startswith(mods)):
                continue
            if not c["t"]["dest"].get("pr") and c["t"]["dest"]["l"] in RL:
                continue        # tail call: its result is the result
            ct = T.call_term(c["t"])
            e = Q.success_edges(ctx, f, lambda b, ct=ct: b == ct)
            nxt = [c["t"]["t"]] if "t" in c["t"] else []
            r = cfg.reach_from(nxt, avoid_edges=frozenset(e)) if nxt else set()
            # the call's result (through map_err / context) is what the function returns on that path
            tail = any(x == ct for v in common.value_terms(f, T, ("var", 0)) + common.value_terms(f, T, T.local(0)) for x in subterms(v))
            if tail and oks:
                tail = not (set(oks) & r)
            okc = (bool(e) and not (set(oks) & r)) or tail
            ctx.ob(R, "%s::verify: outcome of %s is not dropped" % (short, c["q"].split("::")[-2] + "::verify"), okc, "Ok is reachable from this call only through its success" if okc else
                   "%s::verify can return Ok although the nested %s failed (its result is ignored or not propagated)" % (short, c["q"].split("::")[-2] + "::verify"), f.loc(c["t"].get("ln")))


def rule_signed_and_view(ctx):
    R = "C04.7"
    ctx.rule(R, "Signed::verify = sig.verify_msg(insert(msg), key) over the same msg/key fields; Msg::hash = Keccak256(canonical(self))")
    fs = [f for f in ctx.F.fns if f.qname.endswith("msg::Signed::verify") and "validator" in f.qname and not f.in_testonly()]
    ctx.floor(R, "Signed::verify bodies", len(fs), 1)
    for f in fs:
        t = Inliner(ctx).ret_term(f)
        from .sigchain import _hop

        def ins_msg(u):
            return any(x[0] == "call" and x[1].endswith("Variant::insert") and field_path(x[2][0])[1][-1:] == ["msg"] for x in subterms(u))
        sig = lambda u: field_path(u)[1][-1:] == ["sig"]
        key = lambda u: field_path(u)[1][-1:] == ["key"]
        # the message operand is insert(self.msg) for verify_msg, hash(insert(self.msg)) for verify_hash
        Tf = ctx.T(f)
        direct_hash = any(c["q"].endswith("Signature::verify_hash") for c in Tf.calls())
        msgop = (lambda u: ins_msg(u) and any(x[0] == "call" and x[1].endswith("Msg::hash") for x in subterms(u))) if direct_hash else ins_msg
        _hop(ctx, R, f, "Signed::verify term", ["Signature::verify_msg", "Signature::verify_hash"], [sig, msgop, key], "self.sig.verify_msg(&self.msg.insert(), &self.key) decides the result")
    hs = [f for f in ctx.F.fns if f.qname == "zksync_consensus_roles::validator::messages::msg::Msg::hash"]
    for f in hs:
        t = Inliner(ctx).ret_term(f)
        ok = t is not None and any(x[0] == "call" and x[1].endswith("Keccak256::new") for x in subterms(t)) and any(x[0] == "call" and x[1].endswith("proto_fmt::canonical") for x in subterms(t))
        ctx.ob(R, "Msg::hash term", ok, "MsgHash(Keccak256::new(canonical(self)))" if ok else "Msg::hash = %s" % (show(t)[:160] if t else None), f.loc())
    R8 = "C04.8"
    ctx.rule(R8, "View::verify (table, 4 valuations): Ok only when genesis and epoch both equal the expected ones")
    f = ctx.fn(V2 + "::consensus::View::verify")

    def mk(n):
        def m(a, b):
            ra, na = chain(a)
            rb, nb = chain(b)
            if na == [n] and rb[0] == "param" and not nb:
                return 1
            if nb == [n] and ra[0] == "param" and not na:
                return -1
            return 0
        return m
    conj_table(ctx, R8, "View::verify table", f, [Atom("genesis", "cmp", mk("genesis"), ["=", "!="]), Atom("epoch", "cmp", mk("epoch"), ["=", "!="])], [{"="}, {"="}], {"ok": ok_blocks(f)}, what="View::verify Ok")


def rule_verify_before_use(ctx):
    R = "C04.9"
    ctx.rule(R, "verify before use: in each of the four bft handlers every write to a StateMachine field and every call into certificate adoption / view start is dominated by the success of signed_message.verify() and of message.verify(..)")
    handlers = [("on_proposal", "LeaderProposal::verify"), ("on_commit", "ReplicaCommit::verify"), ("on_timeout", "ReplicaTimeout::verify"), ("on_new_view", "ReplicaNewView::verify")]
    n = 0
    for h, mv in handlers:
        f = ctx.body(SM + "::" + h)
        T = ctx.T(f)
        cfg = ctx.cfg(f)
        e_sig = Q.success_edges(ctx, f, lambda b: Q.is_call_of(b, {x["q"] for x in T.calls() if x["q"].endswith("msg::Signed::verify")}))
        e_msg = Q.success_edges(ctx, f, lambda b: b[0] == "call" and b[1].endswith(mv))
        uses = []
        for bb in range(len(f.blocks)):
            if Q.stmt_field_writes(f, bb, SM):
                uses.append(bb)
        for c in T.calls():
            if (c["rq"] or c["q"]) in (SM + "::process_commit_qc", SM + "::process_timeout_qc", SM + "::start_new_view"):
                uses.append(c["bb"])
        n += 1
        ok1 = bool(e_sig) and all(cfg.must_pass(bb, e_sig) for bb in uses)
        ok2 = bool(e_msg) and all(cfg.must_pass(bb, e_msg) for bb in uses)
        ctx.ob(R, "%s signature" % h, ok1 and bool(uses), "all %d state-changing sites are dominated by signed_message.verify() success" % len(uses) if ok1 else "%s changes replica state on a path without a verified signature" % h, f.loc())
        ctx.ob(R, "%s message" % h, ok2 and bool(uses), "all %d state-changing sites are dominated by message.verify(..) success" % len(uses) if ok2 else "%s changes replica state on a path where the message (and the certificates it carries) was not verified" % h, f.loc())
        # verify is given this replica's genesis, epoch and schedule
        for c in T.calls():
            if c["q"].endswith(mv):
                a = T.args_of(c)
                s = " ".join(show(x) for x in a[1:])
                okargs = "genesis_hash" in s and "epoch" in s and ("validators" in s or mv.startswith("ReplicaCommit"))
                ctx.ob(R, "%s verify arguments" % h, okargs, "message.verify(config.genesis_hash(), config.epoch%s)" % ("" if mv.startswith("ReplicaCommit") else ", config.validators") if okargs else "message.verify arguments: %s" % s[:120], f.loc())
    ctx.floor(R, "handlers", n, 4)


RULES = [("C04.1", rule_commit_qc_verify), ("C04.2", rule_timeout_qc_verify), ("C04.3", rule_add), ("C04.4", rule_final_block), ("C04.5", rule_must_verify),
         ("C04.7", rule_signed_and_view), ("C04.9", rule_verify_before_use)]
