"""C01 — agreement: the four anchored mechanisms and their wiring (necessary conditions; agreement itself is not decided)."""
from engine import query as Q
from . import common
from engine.terms import show, subterms
from engine.guards import Atom, Walker, field_path, chain, Inliner, some_payload
from .phase_gate import SM, sign_blocks, CHONKY_MSG
from .c03 import bft_bodies, root_fn

V2 = "zksync_consensus_roles::validator::messages::v2"
EM = "zksync_consensus_engine::manager::EngineManager"
PJ = V2 + "::leader_proposal::ProposalJustification"


def rule_provenance(ctx):
    R = "C01.1"
    ctx.rule(R, "certificate provenance: every call of process_commit_qc / process_timeout_qc passes (a) a certificate inside a message whose verify(genesis, epoch, schedule) success dominates the call, (b) the locally assembled certificate on the path where weight < quorum_threshold() was false, or (c) TimeoutQC::high_qc() of such a certificate")
    n = 0
    for f in bft_bodies(ctx):
        T = ctx.T(f)
        cfg = ctx.cfg(f)
        for c in T.calls():
            callee = c["rq"] or c["q"]
            if callee not in (SM + "::process_commit_qc", SM + "::process_timeout_qc"):
                continue
            n += 1
            qc = T.args_of(c)[2]
            where = root_fn(f).qname.split("::")[-1]
            key = "%s -> %s" % (where, callee.split("::")[-1])
            how = None
            # (c) high_qc of the certificate being processed
            if qc[0] == "try" or True:
                pass
            subs = list(subterms(qc))
            if any(x[0] == "call" and x[1].endswith("TimeoutQC::high_qc") for x in subs):
                base = [x for x in subs if x[0] == "call" and x[1].endswith("TimeoutQC::high_qc")][0][2][0]
                how = ("high_qc() of the certificate argument `%s` of %s (itself covered at its call sites)" % (show(base), where)) if base[0] in ("upvar", "param") else None
                ok = how is not None
            # (a) inside the handled message
            elif common.is_p(chain(qc)[0], common.pnames(f, "::Signed<")) and not any(x[0] in ("call", "await") for x in subs):
                # a pure field path into the handled message (no lookup keyed by a message field: that is case (b))
                sm_names = common.pnames(f, "::Signed<")
                e = Q.success_edges(ctx, f, lambda b: b[0] == "call" and b[1].endswith(("LeaderProposal::verify", "ReplicaNewView::verify", "ReplicaTimeout::verify", "ReplicaCommit::verify")) and any(common.is_p(y, sm_names) for y in subterms(b)))
                ok = bool(e) and cfg.must_pass(c["bb"], e)
                how = "part of the handled message; message.verify(..) success dominates the call"
            else:
                # (b) locally assembled: removed from the QC cache after the weight check
                def m(a, b):
                    if any(y[0] == "call" and y[1].endswith(("Signers::weight", "TimeoutQC::weight")) for y in subterms(a)) and any(y[0] == "call" and y[1].endswith("quorum_threshold") for y in subterms(b)):
                        return 1
                    if any(y[0] == "call" and y[1].endswith(("Signers::weight", "TimeoutQC::weight")) for y in subterms(b)) and any(y[0] == "call" and y[1].endswith("quorum_threshold") for y in subterms(a)):
                        return -1
                    return 0
                W = Walker(ctx, f, [Atom("cmp(weight,quorum)", "cmp", m, ["<", "=", ">"])])
                names, tab = W.table({"call": [c["bb"]]})
                reach = {k[0] for k, v in tab.items() if "call" in v}
                from_cache = any(x[0] == "call" and x[1].endswith("BTreeMap::remove") and "qcs_cache" in show(x) for x in subs)
                ok = reach == {"=", ">"} and from_cache
                how = "locally assembled certificate taken from the cache only when its weight >= quorum_threshold()"
            ctx.ob(R, key, ok, how if ok else "%s adopts a certificate (%s) that is neither verified with the message nor locally assembled above the quorum" % (where, show(qc)[:100]), f.loc(c["t"].get("ln")))
    ctx.floor(R, "certificate adoption call sites", n, 6)


def rule_commit_path(ctx):
    R = "C01.2"
    ctx.rule(R, "commit path: save_block is called only from the commit-certificate adopter; the FinalBlock it queues has justification = the certificate and payload = cache[qc.header().number][qc.header().payload], and is handed to EngineManager::queue_block (which re-verifies it, C08.1)")
    callers = set()
    for f in bft_bodies(ctx):
        for c in ctx.T(f).calls():
            if (c["rq"] or c["q"]) == SM + "::save_block":
                callers.add(root_fn(f).qname.split("::")[-1])
    ctx.ob(R, "callers of save_block", callers == {"process_commit_qc"}, "save_block is called only by process_commit_qc" if callers == {"process_commit_qc"} else "save_block callers: %s" % sorted(callers))
    f = ctx.body(SM + "::save_block")
    T = ctx.T(f)
    agg = None
    for b in f.blocks:
        for s in b["s"]:
            if s["k"] == "assign" and s["r"]["k"] == "agg" and s["r"].get("def", "").endswith("block::FinalBlock"):
                agg = T.rvalue(s["r"])
    ok = False
    if agg is not None:
        d = dict(agg[3])
        j, p = d.get("justification"), d.get("payload")
        okj = j is not None and common.is_p(j, common.pnames(f, "CommitQC"))
        # lookups may sit inside `.and_then(|cache| cache.get(..))` / `.map(..)`: expand those closures
        terms = [p]
        inl_ = Inliner(ctx)
        for x in subterms(p):
            if x[0] == "call" and x[1] in ("std::option::Option::and_then", "std::option::Option::map") and len(x[2]) == 2 and x[2][1][0] == "closure":
                body = inl_.inline_closure(x[2][1], [some_payload(x[2][0])])
                if body is not None:
                    terms.append(body)
        gets = [x for t_ in terms for x in subterms(t_) if x[0] == "call" and x[1].endswith(("HashMap::get", "BTreeMap::get"))]
        okp = len(gets) >= 2 and any(chain(g[2][1])[1][-2:] == ["header()", "payload"] for g in gets) and any(chain(g[2][1])[1][-2:] == ["header()", "number"] for g in gets) and \
            any(chain(g[2][0])[1][-1:] == ["block_proposal_cache"] for g in gets)
        ok = okj and okp
    ctx.ob(R, "FinalBlock contents", ok, "FinalBlock{payload: block_proposal_cache[qc.number][qc.payload_hash], justification: qc}" if ok else "the finalized block is not built from the certificate and the hash-keyed cached payload: %s" % (show(agg)[:160] if agg else None), f.loc())
    qb = [T.args_of(c) for c in T.calls() if c["q"] == EM + "::queue_block"]
    okq = bool(qb) and all(any(x[0] == "agg" and x[1].endswith("block::FinalBlock") for x in subterms(a[2])) for a in qb)
    ctx.ob(R, "queued through the engine manager", okq, "the block is stored via EngineManager::queue_block (re-verified there)" if okq else "save_block does not hand the block to EngineManager::queue_block", f.loc())
    # the write of high_commit_qc and save_block use the same certificate
    g = ctx.body(SM + "::process_commit_qc")
    Tg = ctx.T(g)
    sb = [Tg.args_of(c) for c in Tg.calls() if (c["rq"] or c["q"]) == SM + "::save_block"]
    oks = bool(sb) and all(common.is_p(a[2], common.pnames(g, "CommitQC")) for a in sb)
    ctx.ob(R, "saved certificate", oks, "process_commit_qc saves the block of the very certificate it adopts" if oks else "save_block argument: %s" % [show(a[2]) for a in sb], g.loc())


def rule_vote_for_implied(ctx):
    R = "C01.3"
    ctx.rule(R, "the vote is for the implied block: the signed ReplicaCommit has view = message.view(), number = the implied block number and payload in {the implied hash, hash(payload)} of the very payload whose verify_payload success dominates the vote")
    f = ctx.body(SM + "::on_proposal")
    T = ctx.T(f)
    vote = None
    for c in T.calls():
        if c["q"].endswith("SecretKey::sign_msg"):
            for t in subterms(T.args_of(c)[1]):
                if t[0] == "agg" and t[1] == CHONKY_MSG and t[2] == "ReplicaCommit":
                    vote = t[3][0][1]
    ok = vote is not None and vote[0] == "agg"
    ctx.ob(R, "vote aggregate", ok, "the signed vote is built in on_proposal" if ok else "signed ReplicaCommit is not a struct literal in on_proposal (shape unrecognised)", f.loc())
    if not ok:
        return
    d = dict(vote[3])
    v = d.get("view")
    okv = v is not None and v[0] == "call" and v[1].endswith("LeaderProposal::view") and chain(v[2][0])[1][-1:] == ["msg"]
    ctx.ob(R, "vote.view", okv, "view = message.view()" if okv else "vote.view = %s" % (show(v) if v else None), f.loc())
    prop = d.get("proposal")
    okn = okp = False
    if prop is not None and prop[0] == "agg":
        pd = dict(prop[3])
        nb = pd.get("number")
        okn = nb is not None and nb[0] == "field" and nb[2] == "0" and nb[1][0] == "call" and nb[1][1] == PJ + "::get_implied_block"
        ph = pd.get("payload")
        if ph is not None and ph[0] == "var":
            defs = []
            l = ph[1]
            for b in f.blocks:
                for s in b["s"]:
                    if s["k"] == "assign" and s["p"]["l"] == l and not s["p"].get("pr"):
                        defs.append(T.rvalue(s["r"]))
                t = b["t"]
                if t["k"] == "call" and t["dest"]["l"] == l and not t["dest"].get("pr"):
                    defs.append(T.call_term(t))

            def is_implied(t):
                return chain(t)[1][-3:] == ["1", "as Some", "0"] and any(x[0] == "call" and x[1] == PJ + "::get_implied_block" for x in subterms(t))

            def is_hash(t):
                return t[0] == "call" and t[1].endswith("Payload::hash") and "proposal_payload" in show(t)
            okp = len(defs) == 2 and any(is_implied(x) for x in defs) and any(is_hash(x) for x in defs)
            if not okp:
                ctx.note("C01.3 payload defs: %s" % [show(x)[:80] for x in defs])
    ctx.ob(R, "vote.proposal.number", okn, "number = get_implied_block(..).0" if okn else "the voted block number is not the implied block number", f.loc())
    ctx.ob(R, "vote.proposal.payload", okp, "payload hash = the implied hash (re-proposal) or hash(message.proposal_payload) (new proposal)" if okp else "the voted payload hash is not {implied hash, hash of the proposal's payload}", f.loc())
    # the cached payload is stored under its own hash
    ins = [T.args_of(c) for c in T.calls() if c["q"].endswith("HashMap::insert") and "block_proposal_cache" in show(T.args_of(c)[0])]
    okc = bool(ins) and all(a[1][0] == "call" and a[1][1].endswith("Payload::hash") and a[1][2][0] == a[2] or (a[1][0] == "call" and a[1][1].endswith("Payload::hash") and show(a[1][2][0]) == show(a[2])) for a in ins)
    ctx.ob(R, "cache keyed by hash", okc, "block_proposal_cache[number].insert(payload.hash(), payload)" if okc else "payload cache insert: %s" % [[show(x)[:40] for x in a] for a in ins], f.loc())


RULES = [("C01.1", rule_provenance), ("C01.2", rule_commit_path), ("C01.3", rule_vote_for_implied)]
