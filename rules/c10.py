"""C10 — no input from the network can crash a node (may-panic inventory, allocation bounds, limits wiring)."""
from collections import Counter
from engine import panics
from engine.terms import show, subterms
from . import common

ROOT_FNS = [
    "zksync_consensus_network::Runner::run",
    "zksync_consensus_bft::config::Config::run",
    "zksync_consensus_engine::manager::EngineManagerRunner::run",
    "zksync_consensus_executor::Executor::run",
    "zksync_consensus_bft::inbound_filter_predicate",
    "zksync_consensus_bft::inbound_selection_function",
    "zksync_protobuf::proto_fmt::decode",
    "zksync_protobuf::proto_fmt::canonical_raw",
]
ROOT_TRAIT_METHODS = [
    "zksync_protobuf::proto_fmt::ProtoFmt::read",
    "zksync_protobuf::repr::ProtoRepr::read",
    "zksync_consensus_crypto::fmt::ByteFmt::decode",
    "zksync_consensus_crypto::fmt::TextFmt::decode",
    "zksync_consensus_network::rpc::Handler::handle",
    "zksync_consensus_network::rpc::Handler::max_req_size",
]
# floors: numbers counted on the reviewed tree
FLOOR_ROOT_IMPLS = {"zksync_protobuf::proto_fmt::ProtoFmt::read": 52, "zksync_consensus_crypto::fmt::ByteFmt::decode": 15,
                    "zksync_consensus_network::rpc::Handler::handle": 7}


def skip(f):
    return f.in_testonly()


def roots(ctx):
    F = ctx.F
    rs = []
    for q in ROOT_FNS:
        rs.append(ctx.fn(q))
    nimpl = Counter()
    for tm in ROOT_TRAIT_METHODS:
        for p in ctx.cg.trait_impls.get(tm, []):
            g = F.by_path.get(p)
            if g is not None and not skip(g):
                rs.append(g)
                nimpl[tm] += 1
    return rs, nimpl


def extern_dispositions(ctx, rule, closure):
    """Every documented-panic external callee in the closure needs a disposition (fail closed)."""
    F = ctx.F
    tab = ctx.table("extern_api.json")["apis"]
    panicking = set(k for k, v in tab.items() if v["disposition"] == "panicking")
    seen = {}
    for f in closure:
        for bi, decl, res, rk in ctx.cg.ext_calls.get(f, []):
            for it in (decl, res):
                if it is None or it.ws:
                    continue
                e = F.extern.get(it.path)
                if e and e["panics_section"]:
                    seen.setdefault(it.qname, (f, bi))
    for q, (f, bi) in sorted(seen.items()):
        d = tab.get(q)
        if d is None:
            # allocation-capacity class: "Panics if the new capacity exceeds isize::MAX bytes" = allocation failure (out of scope)
            ex = ""
            for it_path, e in F.extern.items():
                pass
            ee = [e for e in F.extern.values() if e["path"].endswith(q.split("::")[-1]) and q.split("::")[-1] in e["path"]]
            ex = " ".join(e.get("excerpt", "") for e in ee)
            if "isize::MAX" in ex and "apacity" in ex and ex.lower().count("panic") <= 2:
                d = {"disposition": "ignored", "reason": "documented panic is capacity overflow beyond isize::MAX bytes (allocation-failure class, outside the property)"}
        ctx.ob(rule, "extern-api %s" % q, d is not None,
               ("documented-panic external API has disposition '%s': %s" % (d["disposition"], d["reason"])) if d else
               "external API with a documented '# Panics' section is called on a network-reachable path and has no reviewed disposition",
               f.loc(f.blocks[bi]["t"].get("ln")))
    return panicking, len(seen)


def rule_inventory(ctx):
    R = "C10.1"
    ctx.rule(R, "may-panic inventory over the call-graph closure of the network entry points, decoders and RPC handlers: every panic-capable site is machine-discharged, in the reviewed table, or reported")
    rs, nimpl = roots(ctx)
    for tm, fl in FLOOR_ROOT_IMPLS.items():
        ctx.floor(R, "impls of %s" % tm.split("::")[-2] + "::" + tm.split("::")[-1], nimpl[tm], fl)
    cl0 = ctx.cg.closure(rs, skip)
    panicking, nseen = extern_dispositions(ctx, R, cl0)
    cl, sites = common.inventory(ctx, rs, skip, panicking)
    prof = common.cargo_profile_panic_abort()
    pa = prof.get("dev") == "abort" and prof.get("release") == "abort"
    ctx.ob(R, "profile panic=abort", pa, "node/Cargo.toml sets panic=\"abort\" for dev and release (a panic in any task kills the node; lock poisoning cannot be observed): %s" % prof)
    table = ctx.table("panic_sites.json")
    auto, ntab, new = common.match_table(ctx, R, sites, table, pa, "the network entry points")
    ctx.floor(R, "bodies in closure", len(cl), 700)
    ctx.floor(R, "panic-capable sites inventoried", len(sites), 150)
    ctx.counts["C10.1:auto_discharged"] = sum(auto.values())
    ctx.counts["C10.1:extern_documented_panic_apis_in_closure"] = nseen
    for r, n in auto.items():
        ctx.note("C10.1 auto-discharged %d site(s): %s" % (n, r))
    ctx._c10_closure = cl


RULES = [("C10.1", rule_inventory)]
