"""C10 — no input from the network can crash a node (may-panic inventory, allocation bounds, limits wiring)."""
from collections import Counter
from engine import panics
from engine.terms import show, subterms
from . import common

ROOT_FNS = [
    "zksync_consensus_network::Runner::run",
    "zksync_consensus_bft::config::Config::run",
    "zksync_consensus_engine::manager::EngineManagerRunner::run",
    "zksync_consensus_executor::Executor::run",
    "zksync_consensus_bft::inbound_filter_predicate",
    "zksync_consensus_bft::inbound_selection_function",
    "zksync_protobuf::proto_fmt::decode",
    "zksync_protobuf::proto_fmt::canonical_raw",
]
ROOT_TRAIT_METHODS = [
    "zksync_protobuf::proto_fmt::ProtoFmt::read",
    "zksync_protobuf::repr::ProtoRepr::read",
    "zksync_consensus_crypto::fmt::ByteFmt::decode",
    "zksync_consensus_crypto::fmt::TextFmt::decode",
    "zksync_consensus_network::rpc::Handler::handle",
    "zksync_consensus_network::rpc::Handler::max_req_size",
]
# floors: numbers counted on the reviewed tree
FLOOR_ROOT_IMPLS = {"zksync_protobuf::proto_fmt::ProtoFmt::read": 52, "zksync_consensus_crypto::fmt::ByteFmt::decode": 15,
                    "zksync_consensus_network::rpc::Handler::handle": 7}


def skip(f):
    return f.in_testonly()


def roots(ctx):
    F = ctx.F
    rs = []
    for q in ROOT_FNS:
        rs.append(ctx.fn(q))
    nimpl = Counter()
    for tm in ROOT_TRAIT_METHODS:
        for p in ctx.cg.trait_impls.get(tm, []):
            g = F.by_path.get(p)
            if g is not None and not skip(g):
                rs.append(g)
                nimpl[tm] += 1
    return rs, nimpl


def extern_dispositions(ctx, rule, closure):
    """Every documented-panic external callee in the closure needs a disposition (fail closed)."""
    F = ctx.F
    tab = ctx.table("extern_api.json")["apis"]
    panicking = set(k for k, v in tab.items() if v["disposition"] == "panicking")
    seen = {}
    for f in closure:
        for bi, decl, res, rk in ctx.cg.ext_calls.get(f, []):
            for it in (decl, res):
                if it is None or it.ws:
                    continue
                e = F.extern.get(it.path)
                if e and e["panics_section"]:
                    seen.setdefault(it.qname, (f, bi))
    for q, (f, bi) in sorted(seen.items()):
        d = tab.get(q)
        if d is None:
            # allocation-capacity class: "Panics if the new capacity exceeds isize::MAX bytes" = allocation failure (out of scope)
            ex = ""
            for it_path, e in F.extern.items():
                pass
            ee = [e for e in F.extern.values() if e["path"].endswith(q.split("::")[-1]) and q.split("::")[-1] in e["path"]]
            ex = " ".join(e.get("excerpt", "") for e in ee)
            if "isize::MAX" in ex and "apacity" in ex and ex.lower().count("panic") <= 2:
                d = {"disposition": "ignored", "reason": "documented panic is capacity overflow beyond isize::MAX bytes (allocation-failure class, outside the property)"}
        ctx.ob(rule, "extern-api %s" % q, d is not None,
               ("documented-panic external API has disposition '%s': %s" % (d["disposition"], d["reason"])) if d else
               "external API with a documented '# Panics' section is called on a network-reachable path and has no reviewed disposition",
               f.loc(f.blocks[bi]["t"].get("ln")))
    return panicking, len(seen)


def rule_inventory(ctx):
    R = "C10.1"
    ctx.rule(R, "may-panic inventory over the call-graph closure of the network entry points, decoders and RPC handlers: every panic-capable site is machine-discharged, in the reviewed table, or reported")
    rs, nimpl = roots(ctx)
    for tm, fl in FLOOR_ROOT_IMPLS.items():
        ctx.floor(R, "impls of %s" % tm.split("::")[-2] + "::" + tm.split("::")[-1], nimpl[tm], fl)
    cl0 = ctx.cg.closure(rs, skip)
    panicking, nseen = extern_dispositions(ctx, R, cl0)
    cl, sites = common.inventory(ctx, rs, skip, panicking)
    prof = common.cargo_profile_panic_abort()
    pa = prof.get("dev") == "abort" and prof.get("release") == "abort"
    ctx.ob(R, "profile panic=abort", pa, "node/Cargo.toml sets panic=\"abort\" for dev and release (a panic in any task kills the node; lock poisoning cannot be observed): %s" % prof)
    table = ctx.table("panic_sites.json")
    auto, ntab, new = common.match_table(ctx, R, sites, table, pa, "the network entry points", closure=cl)
    ctx.floor(R, "bodies in closure", len(cl), 700)
    ctx.floor(R, "panic-capable sites inventoried", len(sites), 150)
    ctx.counts["C10.1:auto_discharged"] = sum(auto.values())
    ctx.counts["C10.1:extern_documented_panic_apis_in_closure"] = nseen
    for r, n in auto.items():
        ctx.note("C10.1 auto-discharged %d site(s): %s" % (n, r))
    ctx._c10_closure = cl


RULES = [("C10.1", rule_inventory)]


# ---------------------------------------------------------------------------------------
ALLOC = {"std::vec::from_elem": 1, "std::vec::Vec::with_capacity": 0, "zksync_consensus_network::noise::bytes::Buffer::new": 0,
         "std::string::String::with_capacity": 0, "std::collections::VecDeque::with_capacity": 0, "std::vec::Vec::resize": 1, "std::vec::Vec::reserve": 1,
         "bit_vec::BitVec::from_elem": 0, "zksync_consensus_roles::validator::messages::v2::consensus::Signers::new": 0,
         "bit_vec::BitVec::grow": 1, "bit_vec::BitVec::reserve": 1, "bit_vec::BitVec::with_capacity": 0, "std::iter::repeat_n": 1, "std::vec::Vec::resize_with": 1,
         "std::collections::VecDeque::resize": 1, "std::collections::VecDeque::reserve": 1, "std::string::String::reserve": 1, "[T]::repeat": 1, "str::repeat": 1}
WIRE = ("u16::from_le_bytes", "u32::from_le_bytes", "u64::from_le_bytes", "u16::from_be_bytes", "u32::from_be_bytes", "u64::from_be_bytes")


def _strip_cast(t):
    while t[0] == "cast":
        t = t[1]
    return t


def _wire_sized(t, f=None):
    if any(x[0] == "call" and x[1] in WIRE for x in subterms(t)):
        return True
    # inside a message decoder: a number taken from a field of the decoded proto (not the length of received data, which
    # the frame limit bounds) is chosen by the peer
    if f is not None and _is_decoder(f):
        def under_len(u):
            return u[0] == "call" and u[1].rsplit("::", 1)[-1] in ("len", "count", "size_hint")
        def walk(u, in_len):
            if u[0] == "field" or u[0] == "param":
                r = u
                while r[0] in ("field", "downcast", "deref"):
                    r = r[1]
                if r[0] == "param" and r[1] == 1 and u[0] == "field" and not in_len:
                    return True
            if u[0] == "call":
                il = in_len or under_len(u)
                return any(walk(a, il) for a in u[2])
            return any(walk(a, in_len) for a in u[1:] if isinstance(a, tuple))
        return walk(t, False)
    return False


def _is_decoder(f):
    r = f
    while r.parent is not None:
        r = r.parent
    it = r.item
    return r.name == "read" and (it.impl_trait or "").endswith(("ProtoFmt", "ProtoRepr"))


def rule_alloc_bounded(ctx):
    from engine.guards import Atom, Walker
    R = "C10.3"
    ctx.rule(R, "allocation bounded before it happens: every allocation in the network closure whose size is decoded from the wire is dominated by a comparison that rejects sizes above a bound, or is min(.., bound); locally sized allocations are listed")
    rs, _ = roots(ctx)
    cl = getattr(ctx, "_c10_closure", None) or ctx.cg.closure(rs, skip)
    wire = local = const = 0
    for f in cl:
        T = ctx.T(f)
        for c in T.calls():
            idx = ALLOC.get(c["q"])
            if idx is None:
                continue
            a = T.args_of(c)
            if idx >= len(a):
                continue
            S = a[idx]
            base = _strip_cast(S)
            if base[0] == "const" or (S[0] == "const"):
                const += 1
                continue
            if not _wire_sized(S, f):
                # the size may arrive through the return place of a spliced helper (`let n = read_len(..).await?`)
                if not (any(x[0] == "var" for x in subterms(S)) and any(_wire_sized(v, f) for v in common.value_terms(f, T, S)[1:])):
                    local += 1
                    continue
                # falls through: the bound is looked for on the local itself
            wire += 1
            where = f.qname.split("::", 1)[-1][-60:]
            if base[0] == "call" and base[1] in ("std::cmp::min", "std::cmp::Ord::min"):
                ctx.ob(R, "alloc in %s" % where, True, "size = min(.., bound): %s" % show(S)[:100], f.loc(c["t"].get("ln")))
                continue

            def m(x, y, base=base):
                if _strip_cast(x) == base and _strip_cast(y) != base:
                    return 1
                if _strip_cast(y) == base and _strip_cast(x) != base:
                    return -1
                return 0
            W = Walker(ctx, f, [Atom("cmp(size,bound)", "cmp", m, ["<", "=", ">"])])
            names, tab = W.table({"alloc": [c["bb"]]})
            ok = "alloc" not in tab.get((">",), {"alloc"}) and ("alloc" in tab.get(("<",), set()) or "alloc" in tab.get(("=",), set()))
            ctx.ob(R, "alloc in %s" % where, ok, "the wire-decoded size %s is compared with a bound that rejects larger values before allocating" % show(base)[:60] if ok else
                   "%s allocates %s bytes decoded from the wire without a dominating upper-bound check: a peer can make the node buffer more than its configured limit" % (f.qname, show(S)[:80]), f.loc(c["t"].get("ln")))
    ctx.floor(R, "wire-sized allocation sites", wire, 2)
    ctx.counts["C10.3:locally sized allocation sites"] = local
    ctx.counts["C10.3:constant sized allocation sites"] = const


def rule_limits_wired(ctx):
    R = "C10.4"
    ctx.rule(R, "limits are wired: every rpc::Handler::max_req_size returns a constant or configuration field; every recv_proto / mux_recv_proto call passes a bound that is not derived from peer data")
    from engine.guards import Inliner, chain
    n = 0
    for p in ctx.cg.trait_impls.get("zksync_consensus_network::rpc::Handler::max_req_size", []):
        g = ctx.F.by_path.get(p)
        if g is None or g.in_testonly():
            continue
        n += 1
        t = Inliner(ctx).ret_term(g)
        ok = t is not None and not _wire_sized(t) and (t[0] in ("const", "cdef") or (t[0] == "field") or (t[0] == "call" and t[1].endswith(("saturating_add", "saturating_mul"))) or (t[0] == "field" and t[2] == "0"))
        ctx.ob(R, "max_req_size of %s" % (g.item.impl_self or "")[-50:], ok, "returns %s" % show(t)[:60] if ok else "max_req_size returns %s" % (show(t)[:80] if t else None), g.loc())
    ctx.floor(R, "max_req_size impls", n, 7)
    m = 0
    for f in ctx.F.fns:
        if f.in_testonly() or f.crate != "zksync_consensus_network":
            continue
        T = ctx.T(f)
        for c in T.calls():
            if (c["rq"] or c["q"]) in ("zksync_consensus_network::frame::recv_proto", "zksync_consensus_network::frame::mux_recv_proto"):
                a = T.args_of(c)
                b = a[2]
                m += 1
                ok = not _wire_sized(b) and not any(x[0] == "await" for x in subterms(b))
                ctx.ob(R, "bound passed in %s" % f.qname.split("::", 1)[-1][-50:], ok, "max size = %s" % show(b)[:70] if ok else "the size limit passed to %s is derived from peer data: %s" % (c["q"].split("::")[-1], show(b)[:80]), f.loc(c["t"].get("ln")))
    ctx.floor(R, "recv_proto / mux_recv_proto call sites", m, 8)


RULES += [("C10.3", rule_alloc_bounded), ("C10.4", rule_limits_wired)]


def rule_wire_indexed_buffers(ctx):
    R = "C10.5"
    ctx.rule(R, "slices bounded by a wire-decoded length: when buf[..n] / buf[a..n] is taken with n decoded from the wire and buf is a fixed-size buffer, the buffer must be at least as large as the largest value of the decoded integer type (otherwise a peer-chosen length panics the slice)")
    rs, _ = roots(ctx)
    cl = getattr(ctx, "_c10_closure", None) or ctx.cg.closure(rs, skip)
    MAXV = {"u8::from_le_bytes": 255, "u16::from_le_bytes": 65535, "u16::from_be_bytes": 65535, "u32::from_le_bytes": 2 ** 32 - 1, "u32::from_be_bytes": 2 ** 32 - 1}
    n = 0
    for f in cl:
        T = ctx.T(f)
        for c in T.calls():
            if c["q"] not in ("std::ops::Index::index", "std::ops::IndexMut::index_mut"):
                continue
            a = T.args_of(c)
            if len(a) < 2 or a[1][0] != "agg" or not a[1][1].startswith("std::ops::Range"):
                continue
            ends = [v for k, v in a[1][3] if k == "end"]
            if not ends:
                continue
            wire = [x[1] for x in subterms(ends[0]) if x[0] == "call" and x[1] in MAXV]
            if not wire:
                continue
            buf = a[0]
            size = None
            for x in subterms(buf):
                if x[0] == "call" and x[1] == "std::vec::from_elem" and x[2][1][0] == "const":
                    size = x[2][1][1]
            if size is None:
                continue   # not a fixed-size buffer: covered by the dominating-bound rule C10.3 / reviewed table
            n += 1
            need = max(MAXV[w] for w in wire)
            ok = size >= need
            ctx.ob(R, "slice in %s" % f.qname.split("::", 1)[-1][-50:], ok, "buffer of %d bytes sliced by a %s length (max %d)" % (size, wire[0].split("::")[0], need) if ok else
                   "a %d-byte buffer is sliced by a length decoded with %s (up to %d): lengths above the buffer size panic" % (size, wire[0], need), f.loc(c["t"].get("ln")))
    ctx.floor(R, "wire-length slices of fixed buffers", n, 1)


RULES += [("C10.5", rule_wire_indexed_buffers)]


# counters whose successor / sum panics by contract (checked_add(1).unwrap(), overflow-checked `+`): their reviewed reason
# in tables/panic_sites.json is a PROVENANCE argument ("engine-assigned, verified consecutive; u64::MAX unreachable").
# That argument does not cover a number a peer merely announced. The network crate applies them to local store state
# only; the sites are frozen here, a new one is reported.
CONTRACT_ARITH = ("::block::BlockNumber::next", "::block_store::BlockStoreState::next", "::consensus::ViewNumber::next", "::EpochNumber::next")
REVIEWED_ARITH = {
    ("zksync_consensus_network::gossip::Network::run_block_fetcher", "BlockStoreState::next"): "applied to engine_manager.queued(): the local, verified store state",
    ("zksync_consensus_network::gossip::Network::run_block_fetcher", "BlockNumber + u64"): "the fetcher's own cursor, bounded by the local store state",
}


def rule_contract_arith(ctx):
    R = "C10.6"
    ctx.rule(R, "successor / sum of block, view and epoch numbers in the network crate: next() is checked_add(1).unwrap() and `+` is overflow-checked, safe only for numbers of verified, locally stored blocks (the reviewed reason of those panic sites). Every call site in the network crate is one of the reviewed ones, whose operand is local store state - never a value a peer announced or sent (a BlockStoreState with last = u64::MAX passes BlockStoreState::verify)")
    from engine.terms import show
    found = {}
    # the methods of the announced-state types (BlockStoreState, Last) that the network crate calls are evaluated on what a
    # peer announced (`available.contains(n)`, `state.verify()`): they belong to the same census
    G = ctx.cg
    announced = set()
    for g in ctx.F.fns:
        if g.in_testonly() or not g.qname.startswith(("zksync_consensus_engine::block_store::BlockStoreState::", "zksync_consensus_engine::block_store::Last::")) or g.qname.endswith(CONTRACT_ARITH):
            continue
        if any(c.crate == "zksync_consensus_network" and not c.in_testonly() and "loadtest" not in c.qname for c in G.callers_of(g)):
            announced.add(g)
    for f in ctx.F.fns:
        r0 = f
        while r0.parent is not None:
            r0 = r0.parent
        if f.in_testonly() or (f.crate != "zksync_consensus_network" and r0 not in announced) or "loadtest" in f.qname or "::testonly" in f.qname:
            continue
        T = ctx.T(f)
        r = f
        while r.parent is not None:
            r = r.parent
        for c in T.calls():
            q = c["rq"] or c["q"]
            name = None
            if q.endswith(CONTRACT_ARITH):
                name = "::".join(q.split("::")[-2:])
            elif "BlockNumber as std::ops::Add" in q or "ViewNumber as std::ops::Add" in q:
                name = "%s + u64" % ("BlockNumber" if "BlockNumber" in q else "ViewNumber")
            if name is None:
                continue
            a = T.args_of(c)
            found.setdefault((r.qname, name), []).append((f, c, show(a[0])[:70] if a else ""))
    spare = {}
    for (rq, name), why0 in REVIEWED_ARITH.items():
        if (rq, name) not in found:
            spare[name] = spare.get(name, 0) + 1          # the reviewed site left its function (renamed / moved / extracted)
    for (rq, name), sites in sorted(found.items()):
        why = REVIEWED_ARITH.get((rq, name))
        if why is None and spare.get(name, 0) > 0:
            spare[name] -= 1
            ctx.ob(R, "%s in %s (moved)" % (name, rq.split("::", 1)[1]), True, "re-matched as moved: a reviewed %s site left its former function and the number of such sites did not grow" % name, sites[0][0].loc(sites[0][1]["t"].get("ln")))
            continue
        if why is not None:
            ctx.ob(R, "%s in %s" % (name, rq.split("::", 1)[1]), True, "reviewed: %s" % why, sites[0][0].loc(sites[0][1]["t"].get("ln")))
        else:
            f, c, arg = sites[0]
            ctx.ob(R, "%s in %s" % (name, rq.split("::", 1)[1]), False, "%s is applied to %s in %s: it panics (aborts the node) at u64::MAX, and this site is not among the reviewed ones whose operand is local store state - a peer-chosen number reaches it" % (name, arg, rq.split("::", 1)[1]), f.loc(c["t"].get("ln")))
    ctx.floor(R, "successor sites inventoried", len(found), 1)
    ctx.floor(R, "announced-state methods called by the network crate", len(announced), 2)


RULES += [("C10.6", rule_contract_arith)]
