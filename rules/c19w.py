"""C19.5 — wake-up predicates of the fetch queue (the value returned by the send_if_modified closures).

A waiting acceptor re-reads the lowest pending number only when the watch channel is marked modified. So, as a
necessary condition of "a request is never lost": whenever the lowest pending key changes, the closure that
changed it must return true. Over-notification is harmless, so only *definitely false under a must-wake
valuation* is reported; shapes the evaluator cannot decide are listed as undecided, not as violations."""
from engine import query as Q
from . import common
from engine.terms import show, subterms
from engine.guards import Atom, Walker

NET = "zksync_consensus_network"
QUEUE = NET + "::gossip::fetch::Queue"
MAP = "std::collections::BTreeMap::"
FIRST_Q = ("first_key_value", "first_entry", "keys", "iter", "into_keys", "range")
MUT_INS = ("insert", "entry", "try_insert")
MUT_REM = ("remove", "remove_entry", "pop_first", "pop_last", "retain", "clear", "split_off")


def root_fn(f):
    while f.parent is not None:
        f = f.parent
    return f


def family(ctx, top, kinds=("coroutine", "closure")):
    return common.family(ctx, top, kinds)


def has_first_query(t):
    return any(s[0] == "call" and s[1].startswith(MAP) and s[1].rsplit("::", 1)[1] in FIRST_Q for s in subterms(t))


def ret_truths(ctx, W, g, val):
    """Truth values (True / False / None = undecided) the closure may return under the valuation."""
    T = ctx.T(g)
    RL = Q.ret_locals(g)
    out = set()
    for bi in W.reachable(val):
        b = g.blocks[bi]
        for s in b["s"]:
            if s["k"] == "assign" and not s["p"].get("pr") and s["p"]["l"] in RL:
                r = s["r"]
                if r["k"] == "use":
                    pl = r["o"].get("m") or r["o"].get("c")
                    if pl is not None and not pl.get("pr") and pl["l"] in RL:
                        continue
                out.add(W.truth(T.rvalue(r), val, set()))
        t = b["t"]
        if t["k"] == "call" and not t["dest"].get("pr") and t["dest"]["l"] in RL and "decl" in t["f"]:
            out.add(W.truth(T.call_term(t), val, set()))
    return out


def sim_closures(ctx, top):
    """closures passed to watch::Sender::send_if_modified inside `top` (with the mutation kind they perform)"""
    out = []
    for f in [top] + family(ctx, top):
        T = ctx.T(f)
        for c in T.calls():
            if not c["q"].endswith("::send_if_modified"):
                continue
            for x in T.args_of(c):
                if x[0] == "closure":
                    g = ctx.F.by_qname.get(x[1], [None])[0]
                    if g is None:
                        continue
                    names = [cc["q"].rsplit("::", 1)[1] for cc in ctx.T(g).calls() if cc["q"].startswith(MAP)]
                    kind = "insert" if any(n in MUT_INS for n in names) else "remove" if any(n in MUT_REM for n in names) else None
                    out.append((g, kind))
    return out


def call_blocks(ctx, g, names):
    return [c["bb"] for c in ctx.T(g).calls() if c["q"].startswith(MAP) and c["q"].rsplit("::", 1)[1] in names]


def first_cmp_atom():
    def m(a, b):
        fa, fb = has_first_query(a), has_first_query(b)
        if fa and not fb:
            return 1
        if fb and not fa:
            return -1
        return 0
    return Atom("first_vs_n", "cmp", m, ["="])


def verdict(ctx, R, key, truths, ok_text, bad_text, where):
    if truths == {False}:
        ctx.ob(R, key, False, bad_text, where)
    elif None in truths or not truths:
        ctx.ob(R, key, True, "undecided shape (not reported): the returned value could not be evaluated under the must-wake valuation: %s" % sorted(map(str, truths)), where)
        ctx.note("C19.5 %s: undecided" % key)
    else:
        ctx.ob(R, key, True, ok_text, where)


def rule_wakeups(ctx):
    R = "C19.5"
    ctx.rule(R, "wake-up predicates: the send_if_modified closure returns true whenever it changed the lowest pending key - after inserting a request that became the lowest (decided on the map after the insertion), after cancelling the lowest request (decided on the map before the removal), and after handing over a request while others remain")
    req = ctx.fn(QUEUE + "::request")
    acc = ctx.fn(QUEUE + "::accept_block")
    cl_req = sim_closures(ctx, req)
    cl_acc = sim_closures(ctx, acc)
    ctx.floor(R, "insert closures in request", sum(1 for g, k in cl_req if k == "insert"), 1)
    ctx.floor(R, "remove closures in request", sum(1 for g, k in cl_req if k == "remove"), 1)
    ctx.floor(R, "remove closures in accept_block", sum(1 for g, k in cl_acc if k == "remove"), 1)
    first_opt = Atom("first", "opt", has_first_query, ["Some"])
    for g, kind in cl_req:
        cfg = ctx.cfg(g)
        T = ctx.T(g)
        fq = [c["bb"] for c in T.calls() if c["q"].startswith(MAP) and c["q"].rsplit("::", 1)[1] in FIRST_Q[:5]]
        if kind == "insert":
            # the map may or may not have been empty before the insertion: a lower number can be requested while higher
            # ones are pending (retries, out-of-order fetchers), so "was empty" is not a substitute for "is now the lowest"
            def a_empty(t):
                return t[0] == "call" and t[1].startswith(MAP) and t[1].rsplit("::", 1)[1] in ("is_empty",)
            W = Walker(ctx, g, [first_opt, first_cmp_atom(), Atom("empty", "bool", a_empty, [True, False])])
            tr = set()
            worst = None
            for emp in (True, False):
                t1 = ret_truths(ctx, W, g, {"first": "Some", "first_vs_n": "=", "empty": emp})
                if t1 == {False}:
                    worst = t1
                tr |= t1
            if worst is not None:
                tr = worst
            verdict(ctx, R, "request: new lowest request wakes acceptors", tr,
                    "the closure returns true when the inserted number is the first key",
                    "the closure inserting a request returns false even when the inserted number became the lowest pending key: waiting acceptors never see it and the request is never handed to a peer", g.loc())
            ins = call_blocks(ctx, g, MUT_INS)
            if fq and ins:
                after = cfg.reach_from(ins)
                ok = any(b in after and b not in ins for b in fq) or any(b in ins for b in fq) and False
                ok = ok or any(b in after for b in fq)
                ctx.ob(R, "request: lowest key read after the insertion", ok, "first key is read from the map after insert" if ok else
                       "the lowest key is compared before the request is inserted: a request that becomes the lowest never wakes the acceptors", g.loc())
        elif kind == "remove":
            W = Walker(ctx, g, [first_opt, first_cmp_atom()])
            tr = ret_truths(ctx, W, g, {"first": "Some", "first_vs_n": "="})
            verdict(ctx, R, "cancel: removing the lowest request wakes acceptors", tr,
                    "the closure returns true when the cancelled number was the first key",
                    "the closure cancelling a request returns false even when it removed the lowest pending key: acceptors keep waiting for a number nobody requests while the next request is not served", g.loc())
            rem = call_blocks(ctx, g, MUT_REM)
            if fq and rem:
                ok = any(set(rem) & cfg.reach_from([b]) for b in fq)
                ctx.ob(R, "cancel: lowest key read before the removal", ok, "first key is read from the map before remove" if ok else
                       "the lowest key is compared with the cancelled number only after it has been removed (never equal): cancelling the lowest request does not wake the acceptors", g.loc())
    for g, kind in cl_acc:
        if kind != "remove":
            continue

        def removed(t):
            return not has_first_query(t) and not any(s[0] == "call" and s[1].startswith(MAP) and s[1].rsplit("::", 1)[1] in ("is_empty", "len") for s in subterms(t))

        def is_empty(t):
            return t[0] == "call" and t[1] == MAP + "is_empty"
        W = Walker(ctx, g, [Atom("removed", "opt", removed, ["Some"]), Atom("empty", "bool", is_empty, [False])])
        tr = ret_truths(ctx, W, g, {"removed": "Some", "empty": False})
        verdict(ctx, R, "accept: hand-over with requests remaining wakes the other acceptors", tr,
                "the closure returns true when a request was removed and others remain",
                "the hand-over closure returns false although it removed the lowest request and others remain: the other connections keep waiting for the number just taken", g.loc())


RULES = [("C19.5", rule_wakeups)]
