"""C07 user obligations that live in other properties' modules: the inequalities 5f+1 <= n, 2f < n-3f ... only protect
anything if the thresholds that are COMPARED are the ones computed from the committee's total weight. The rules that pin
the comparisons (certificate weight vs the same schedule's quorum_threshold in CommitQC / TimeoutQC::verify, tallied
weight vs subquorum_threshold of the same schedule in TimeoutQC::high_vote) belong to C04 and C02; they are run with
C07 as well, so that a caller that derives a threshold from the validator count, a stale schedule or another quantity
(seed S6C07) is a C07 violation."""
from .c02 import rule_high_vote
from .c04 import rule_commit_qc_verify, rule_timeout_qc_verify

RULES = [("C02.2", rule_high_vote), ("C04.1", rule_commit_qc_verify), ("C04.2", rule_timeout_qc_verify)]
