"""C05 user obligations that live in C02's module: "a timeout certificate hands over the highest commit certificate it contains"
(process_timeout_qc adopts qc.high_qc(), the justification of the next view is chosen from it) rests on what
TimeoutQC::high_qc returns. The rule that pins it (maximum by view over the votes' high_qc) belongs to C02 and is run with C05
as well (seed S9C05: high_qc takes the last entry of the map, which is ordered by the whole vote, not by the certificate's view)."""
from .c02 import rule_high_qc

RULES = [("C02.3", rule_high_qc)]
