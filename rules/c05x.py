"""C05 user obligations that live in C02's module: "a timeout certificate hands over the highest commit certificate it contains"
(process_timeout_qc adopts qc.high_qc(), the justification of the next view is chosen from it) rests on what
TimeoutQC::high_qc returns. The rule that pins it (maximum by view over the votes' high_qc) belongs to C02 and is run with C05
as well (seed S9C05: high_qc takes the last entry of the map, which is ordered by the whole vote, not by the certificate's view)."""
from .c02 import rule_high_qc
# the certificate handed over must itself have been verified: every vote of a timeout certificate is verified in full, nested
# certificates included (C04.2 / C04.5; seeds S10C05 / S10C07: the high certificate of a later vote is skipped when "the same" one was seen)
from .c04 import rule_timeout_qc_verify, rule_must_verify

RULES = [("C02.3", rule_high_qc), ("C04.2", rule_timeout_qc_verify), ("C04.5", rule_must_verify)]
