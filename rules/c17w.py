"""C17.6 — child contexts: deadline = min(parent, requested) and the watcher task that propagates cancellation.

Decides the wiring (a necessary condition of 'cancellation reaches every descendant context' and of 'cancelled
when the deadline passes'): the watcher spawned by Ctx::child_with_clock races the deadline sleep, the parent's
cancel signal and the child's own signal, and the first two arms end by firing the child's signal."""
from engine import query as Q
from engine.terms import show, subterms

CTX = "zksync_concurrency::ctx::Ctx"
ONCE = "zksync_concurrency::signal::Once"
INNER = "zksync_concurrency::ctx::Inner"
SLEEP = "zksync_concurrency::ctx::clock::Clock::sleep_until"
MIN = ("std::cmp::min", "std::cmp::Ord::min")
MAX = ("std::cmp::max", "std::cmp::Ord::max")


def select_arms(ctx, g):
    """tokio::select! inside coroutine g: [(k, future term, handler entry block)] from the `futures_init` tuple and
    the switch over the macro's Out enum (variant _k <-> future k by construction of the macro)."""
    T = ctx.T(g)
    futs = None
    for bi, b in enumerate(g.blocks):
        for s in b["s"]:
            if s["k"] == "assign" and s["r"]["k"] == "agg" and s["r"].get("ak") == "tuple" and not s["p"].get("pr"):
                l = s["p"]["l"]
                if g.var_names().get(l) == "futures_init":
                    t = T.rvalue(s["r"])
                    if t[0] == "tuple":
                        futs = list(t[1])
                    elif t[0] == "agg":
                        futs = [ft for _, ft in t[3]]
    if futs is None:
        return None
    arms = {}
    for bb in range(len(g.blocks)):
        si = T.switch_info(bb)
        if si is None:
            continue
        scrut, edges = si
        labs = [l for ls in edges.values() for l in ls]
        if scrut[0] == "discr" and any(isinstance(l, str) and l.startswith("_") and l[1:].isdigit() for l in labs):
            for tgt, ls in edges.items():
                for l in ls:
                    if isinstance(l, str) and l.startswith("_") and l[1:].isdigit():
                        arms[int(l[1:])] = tgt
    if not arms:
        return None
    return [(k, futs[k] if k < len(futs) else None, arms[k]) for k in sorted(arms)]


def rule_child_ctx(ctx):
    R = "C17.6"
    ctx.rule(R, "child contexts: the child's deadline is min(parent deadline, requested deadline); a watcher task is always spawned and races sleep_until(that deadline), the parent's cancel signal and the child's own signal; the deadline arm and the parent arm fire the child's signal before the task ends")
    f = ctx.fn(CTX + "::child_with_clock")
    T = ctx.T(f)
    cfg = ctx.cfg(f)
    inner = None
    for b in f.blocks:
        for s in b["s"]:
            if s["k"] == "assign" and s["r"]["k"] == "agg" and s["r"].get("def") == INNER:
                inner = dict(T.rvalue(s["r"])[3])
    if inner is None:
        ctx.ob(R, "anchor", False, "construction of ctx::Inner not found in child_with_clock", f.loc())
        return
    parent_dl = ("field", ("field", ("param", 1, "self"), "0"), "deadline")
    parent_sig = ("field", ("field", ("param", 1, "self"), "0"), "canceled")
    dl = inner.get("deadline")
    params = [t for t in subterms(dl) if t[0] == "param" and t[1] != 1]
    if dl[0] == "call" and dl[1] in MIN and len(dl[2]) == 2 and parent_dl in dl[2] and any(a[0] == "param" and a[1] != 1 for a in dl[2]):
        ctx.ob(R, "deadline", True, "Inner.deadline = min(parent deadline, requested)", f.loc())
    elif dl == parent_dl or dl[0] == "param" or (dl[0] == "call" and dl[1] in MAX):
        ctx.ob(R, "deadline", False, "the child context's deadline is %s, not the minimum of the parent's and the requested one: a child can outlive its parent's deadline or ignore its own" % show(dl)[:80], f.loc())
    else:
        ctx.ob(R, "deadline", True, "undecided shape (not reported): %s" % show(dl)[:120], f.loc())
        ctx.note("C17.6 deadline: undecided")
    n_once = sum(1 for c in T.calls() if c["q"] == ONCE + "::new")
    ctx.ob(R, "one fresh cancel signal", n_once == 1, "child_with_clock creates exactly one signal::Once (the child's)" if n_once == 1 else "%d signal::Once created in child_with_clock: the watcher and the context may not share one" % n_once, f.loc())
    child_sig = inner.get("canceled")
    # the watcher
    spawns = [c for c in T.calls() if c["q"].startswith("tokio::task::spawn")]
    ctx.floor(R, "watcher spawn", len(spawns), 1)
    if not spawns:
        return
    rets = cfg.returns()
    oksp = all(cfg.must_pass_blocks(r, set(c["bb"] for c in spawns)) for r in rets)
    ctx.ob(R, "watcher always spawned", oksp, "tokio::spawn(watcher) dominates the return of child_with_clock" if oksp else "a child context can be returned without its cancellation watcher", f.loc())
    for c in spawns:
        a = T.args_of(c)
        cl = [x for x in a if x[0] == "closure"]
        if not cl:
            # the watcher may be a private async fn called with the values the block used to capture
            for x in a:
                if x[0] == "call" and x[1].startswith("zksync_concurrency::"):
                    u = ctx.F.by_qname.get(x[1], [None])[0]
                    if u is not None and u.is_async:
                        gb = ctx.F.body_of(u)
                        cl = [("closure", gb.qname, tuple(x[2]))]
                        break
        if not cl:
            ctx.ob(R, "watcher body", False, "argument of tokio::spawn is not an async block of child_with_clock", f.loc())
            continue
        g = ctx.F.by_qname.get(cl[0][1], [None])[0]
        caps = dict(zip([x["name"] for x in g.captures], cl[0][2])) if g is not None else {}
        if g is None or not caps:
            ctx.ob(R, "watcher body", False, "watcher coroutine or its captures not found", f.loc())
            continue
        Tg = ctx.T(g)
        cg = ctx.cfg(g)

        def res(t):
            """resolve upvars of the watcher to the captured terms of child_with_clock"""
            if t[0] == "upvar":
                return caps.get(t[1], t)
            if t[0] == "call":
                return ("call", t[1], tuple(res(x) for x in t[2]))
            if t[0] == "field":
                return ("field", res(t[1]), t[2])
            return t
        arms = select_arms(ctx, g)
        if not arms:
            ctx.ob(R, "watcher select", False, "the watcher is not a tokio::select! over futures (shape unrecognised)", g.loc())
            continue
        sends = []
        for cc in Tg.calls():
            if cc["q"] == ONCE + "::send":
                recv = res(Tg.args_of(cc)[0])
                if recv == child_sig:
                    sends.append(cc["bb"])
        retb = cg.returns()
        kinds = {}
        for k, ft, tgt in arms:
            if ft is None:
                continue
            ft = res(ft)
            kind = None
            if ft[0] == "call" and ft[1] == SLEEP:
                kind = "deadline" if len(ft[2]) > 1 and ft[2][1] == dl else "sleep(other)"
            elif ft[0] == "call" and ft[1] in (ONCE + "::cancel_safe_recv", ONCE + "::recv"):
                r0 = ft[2][0]
                kind = "parent" if r0 == parent_sig else "child" if r0 == child_sig else "signal(other)"
            kinds.setdefault(kind, []).append((k, tgt))
        for need, why in (("deadline", "the deadline passing"), ("parent", "cancellation of the parent context")):
            if need not in kinds:
                ctx.ob(R, "watcher arm: %s" % need, False, "the watcher does not wait for %s (arms: %s): the child context is not cancelled by it" % (why, sorted(str(k) for k in kinds)), g.loc())
                continue
            for k, tgt in kinds[need]:
                # every path from the arm's handler to the end of the task fires the child's signal
                reach = cg.reach_from_sensitive([tgt], avoid_blocks=frozenset(sends))
                ok = bool(sends) and not (set(retb) & reach)
                ctx.ob(R, "watcher arm: %s cancels the child" % need, ok, "after %s every path to the end of the watcher passes child_canceled.send()" % why if ok else
                       "after %s the watcher can finish without firing the child's cancel signal: cancellation does not reach the descendant context" % why, g.loc())
        ctx.floor(R, "watcher arm on the child's own signal (task ends when the child is cancelled/dropped)", len(kinds.get("child", [])), 1)


RULES = [("C17.6", rule_child_ctx)]
