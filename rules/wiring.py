"""W1 - executor wiring: the configured values reach the components under their own names.

The executor is where the operator's configuration (payload size limit, view timeout, validator key, gossip peers and limits, rpc
rates, transaction size) is handed to the network and bft components. No property anchors that file, yet every limit the properties
talk about ("never buffers more than its configured limits", "the view timer", "expected peers") is the value that arrives through it.
Decided here, by field names: in every construction of `network::Config` in the executor crate a field that is filled from the
executor's configuration is filled from the field of the same name (reviewed renames: max_block_size <- max_payload_size, which may only
be enlarged), and the arguments of `bft::Config::new` are, in order, the validator key, max_payload_size, view_timeout, the engine manager
and the epoch. `executor::Config::gossip` is pinned in tables/pins.json."""
from engine.terms import show, subterms

RENAMES = {"max_block_size": "max_payload_size", "server_addr": "server_addr"}
BFT_ARGS = ["validator_key", "max_payload_size", "view_timeout", "engine_manager", None]


def _cfg_fields(t):
    out = []
    for x in subterms(t):
        if x[0] == "field" and x[1][0] == "field" and x[1][2] == "config":
            out.append(x[2])
    return out


def rule_executor_wiring(ctx):
    R = "W1"
    ctx.rule(R, "executor wiring: every field of network::Config that is filled from the executor's configuration comes from the field of the same name (max_block_size from max_payload_size, never reduced), and bft::Config::new receives (validator_key, max_payload_size, view_timeout, engine manager, epoch) in that order")
    n = 0
    nb = 0
    for f in ctx.F.fns:
        if f.in_testonly() or f.crate != "zksync_consensus_executor":
            continue
        T = ctx.T(f)
        for b in f.blocks:
            for st in b["s"]:
                if st["k"] == "assign" and st["r"]["k"] == "agg" and str(st["r"].get("def", "")) == "zksync_consensus_network::config::Config":
                    t = T.rvalue(st["r"])
                    for name, x in t[3]:
                        src = _cfg_fields(x)
                        if not src:
                            continue
                        n += 1
                        want = RENAMES.get(name, name)
                        ok = all(s == want for s in src)
                        why = "network::Config.%s <- config.%s" % (name, ",".join(sorted(set(src))))
                        if ok and name == "max_block_size":
                            # may be enlarged by a constant (encoding overhead), never reduced or scaled down
                            bad = [y for y in subterms(x) if (y[0] == "call" and y[1].rsplit("::", 1)[-1] in ("saturating_sub", "checked_sub", "wrapping_sub", "min", "checked_div", "saturating_div"))
                                   or (y[0] == "bin" and y[1] in ("Sub", "Div", "Shr", "SubWithOverflow", "Rem"))]
                            if bad:
                                ok = False
                                why += " reduced by %s" % show(bad[0])[:60]
                        ctx.ob(R, "network::Config.%s" % name, ok, why if ok else "%s: the component is configured with another setting than the operator's (or a reduced one)" % why, f.loc(b["t"].get("ln")))
        for c in T.calls():
            if (c["q"] or "") == "zksync_consensus_bft::config::Config::new":
                nb += 1
                args = T.args_of(c)
                for i, (a, want) in enumerate(zip(args, BFT_ARGS)):
                    if want is None:
                        continue
                    names = _cfg_fields(a) + [x[2] for x in subterms(a) if x[0] == "field"]
                    ok = want in names and not any(o in names for o in ("max_tx_size", "max_payload_size", "view_timeout", "validator_key") if o != want)
                    ctx.ob(R, "bft::Config::new arg %d" % (i + 1), ok, "argument %d of bft::Config::new is the executor's %s" % (i + 1, want) if ok else
                           "argument %d of bft::Config::new is %s, not the executor's %s" % (i + 1, show(a)[:80], want), f.loc(c["t"].get("ln")))
    ctx.floor(R, "network::Config fields filled from the configuration", n, 5)
    ctx.floor(R, "bft::Config::new call sites", nb, 1)


RULES = [("W1", rule_executor_wiring)]
