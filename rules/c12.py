"""C12 — connections are admitted only for authenticated, expected, unique peers."""
from . import common
from engine import query as Q
from engine.terms import show, subterms
from engine.guards import Atom, Walker, field_path, chain, Inliner

NET = "zksync_consensus_network"
POOLW = NET + "::pool::PoolWatch"
POOL = NET + "::pool::Pool"
HS = [("gossip", "inbound"), ("gossip", "outbound"), ("consensus", "inbound"), ("consensus", "outbound")]


def root_fn(f):
    while f.parent is not None:
        f = f.parent
    return f


def ok_returns(f):
    return [bi for bi, b in enumerate(f.blocks) for s in b["s"] if s["k"] == "assign" and s["p"]["l"] in Q.ret_locals(f) and not s["p"].get("pr") and s["r"]["k"] == "agg" and s["r"].get("variant") == "Ok"]


def rule_handshake_tables(ctx):
    R = "C12.1"
    ctx.rule(R, "handshake tables (4 bodies): Ok is reachable only when the genesis is equal, the session id equals SessionId(encode(stream.id())) of this very stream, the signature verifies and (outbound) the key is the dialled peer")
    n = 0
    for net, d in HS:
        q = "%s::%s::handshake::%s" % (NET, net, d)
        f = ctx.body(q)
        T = ctx.T(f)

        def m_gen(a, b):
            ra, na = chain(a)
            rb, nb = chain(b)
            if na[-1:] == ["genesis"] and len(na) >= 1 and rb[0] in ("upvar", "param") and not nb:
                return 1
            if nb[-1:] == ["genesis"] and ra[0] in ("upvar", "param") and not na:
                return -1
            return 0

        def is_stream_id(t):
            return any(x[0] == "call" and x[1].endswith("noise::stream::Stream::id") for x in subterms(t))

        def m_sess(a, b):
            ra, na = chain(a)
            rb, nb = chain(b)
            if na[-2:] == ["session_id", "msg"] and is_stream_id(b):
                return 1
            if nb[-2:] == ["session_id", "msg"] and is_stream_id(a):
                return -1
            return 0

        def m_peer(a, b):
            ra, na = chain(a)
            rb, nb = chain(b)
            if na[-2:] == ["session_id", "key"] and common.is_p(rb, common.pnames(f, "PublicKey")):
                return 1
            if nb[-2:] == ["session_id", "key"] and common.is_p(ra, common.pnames(f, "PublicKey")):
                return -1
            return 0

        def a_sig(t):
            return t[0] == "call" and t[1].endswith("Signed::verify") and chain(t[2][0])[1][-1:] == ["session_id"]
        atoms = [Atom("genesis", "cmp", m_gen, ["=", "!="]), Atom("session", "cmp", m_sess, ["=", "!="]), Atom("sig", "bool", a_sig, [True, False])]
        if d == "outbound":
            atoms.append(Atom("peer", "cmp", m_peer, ["=", "!="]))
        W = Walker(ctx, f, atoms)
        oks = ok_returns(f)
        names, tab, tails = W.table_ok({"ok": oks})
        ctx.ob(R, "%s/%s Ok sites" % (net, d), len(oks) + len(tails) >= 1, "%d Ok return site(s), %d tail-call return(s)" % (len(oks), len(tails)), f.loc())
        bad = [k for k, v in tab.items() if "ok" in v and not (k[0] == "=" and k[1] == "=" and k[2] is True and (len(k) < 4 or k[3] == "="))]
        good = [k for k, v in tab.items() if "ok" in v]
        n += 1
        ctx.ob(R, "%s/%s table" % (net, d), not bad and len(good) == 1,
               "Ok reachable in exactly 1 of %d valuations (all checks true)" % len(tab) if not bad and len(good) == 1 else
               "the %s %s handshake can succeed under %s (atoms %s)" % (net, d, bad[:3], names), f.loc())
        # C12.2 session binding: the signed session id is the compared one
        signs = [T.args_of(c) for c in T.calls() if c["q"].endswith("SecretKey::sign_msg")]
        oks_ = bool(signs) and all(a[1][0] == "agg" and a[1][1].endswith("SessionId") and is_stream_id(a[1]) for a in signs)
        ctx.ob("C12.2", "%s/%s signed session" % (net, d), oks_, "the node signs SessionId(encode(stream.id())) of the stream parameter" if oks_ else
               "the signed session id is not derived from this stream's id: %s" % [show(a[1])[:80] for a in signs], f.loc())
        # the stream whose id is used is the function's stream parameter
        ids = [T.args_of(c)[0] for c in T.calls() if c["q"].endswith("noise::stream::Stream::id")]
        okp = bool(ids) and all(common.is_p(x, common.pnames(f, "noise::stream::Stream")) for x in ids)
        ctx.ob("C12.2", "%s/%s stream" % (net, d), okp, "stream.id() is taken from the stream the handshake runs on" if okp else "stream.id() receiver: %s" % [show(x) for x in ids], f.loc())
        # C12.3 identity = verified key
        ver = [T.args_of(c)[0] for c in T.calls() if c["q"].endswith("Signed::verify")]
        rets = []
        for bi in oks:
            for s in f.blocks[bi]["s"]:
                if s["k"] == "assign" and s["p"]["l"] in Q.ret_locals(f) and s["r"]["k"] == "agg":
                    rets.append(T.rvalue(s["r"]))
        keyterms = [x for r in rets for u in common.value_terms(f, T, r) for x in subterms(u) if x[0] == "field" and x[2] == "key" and chain(x)[1][-2:] == ["session_id", "key"]]
        if net == "consensus" and d == "outbound":
            okk = True
            desc = "returns (); the caller keeps the dialled peer key, which the table proved equal to the verified key"
        else:
            okk = bool(keyterms) and bool(ver) and all(k[1] in ver for k in keyterms)
            desc = "the returned identity is the key of the very Signed<SessionId> whose verify() succeeded"
        ctx.ob("C12.3", "%s/%s identity" % (net, d), okk, desc if okk else "the returned identity %s is not the key of the verified session signature %s" % ([show(k) for k in keyterms], [show(v) for v in ver]), f.loc())
    ctx.floor(R, "handshake bodies", n, 4)
    ctx.rule("C12.2", "session binding: the session id compared and the one signed is SessionId(ByteFmt::encode(noise::Stream::id(<the stream parameter>)))")
    ctx.rule("C12.3", "identity = verified key: the key returned/stored is h.session_id.key of the same h whose signature verified")
    # Stream::id returns the handshake hash captured at construction
    sid = ctx.fn(NET + "::noise::stream::Stream::id")
    t = Inliner(ctx).ret_term(sid)
    okid = t is not None and field_path(t)[1] == ["id"]
    ctx.ob("C12.2", "Stream::id", okid, "Stream::id() returns the stored handshake hash field" if okid else "Stream::id returns %s" % (show(t) if t else None), sid.loc())
    hs = ctx.body(NET + "::noise::stream::Stream::handshake")
    Th = ctx.T(hs)
    okh = False
    for b in hs.blocks:
        for s in b["s"]:
            if s["k"] == "assign" and s["r"]["k"] == "agg" and s["r"].get("def", "").endswith("noise::stream::Stream"):
                idt = dict(Th.rvalue(s["r"])[3]).get("id")
                okh = idt is not None and any(x[0] == "call" and x[1].endswith("get_handshake_hash") for x in subterms(idt))
    ctx.ob("C12.2", "id = handshake hash", okh, "Stream.id is set from snow's get_handshake_hash() when the session is established" if okh else "Stream.id is not the noise handshake hash", hs.loc())


RUNNERS = [(NET + "::gossip::Network::run_inbound_stream", "gossip::handshake::inbound", "inbound"),
           (NET + "::gossip::Network::run_outbound_stream", "gossip::handshake::outbound", "outbound"),
           (NET + "::consensus::Network::run_inbound_stream", "consensus::handshake::inbound", "inbound"),
           (NET + "::consensus::Network::run_outbound_stream", "consensus::handshake::outbound", "outbound")]


def rule_admission_order(ctx):
    R = "C12.4"
    ctx.rule(R, "admission order (4 stream runners): PoolWatch::insert is dominated by handshake success; its success dominates the RPC service run and the matching PoolWatch::remove; remove post-dominates the run on normal completion and uses the inserted key")
    n = 0
    for q, hs, fld in RUNNERS:
        top = ctx.body(q)
        name = q.split("::")[-3] + "::" + q.split("::")[-1]
        # the admission steps may live in the runner body or in an async block nested in it
        fam = [g for g in ctx.F.fns if g.kind == "coroutine" and root_fn(g) is root_fn(top)]
        with_ins = [g for g in fam if any(c["q"] == POOLW + "::insert" for c in ctx.T(g).calls())]
        with_rem = [g for g in fam if any(c["q"] == POOLW + "::remove" for c in ctx.T(g).calls())]
        if len(with_ins) != 1 or len(with_rem) != 1:
            ctx.ob(R, "%s sites" % name, False, "expected one body with PoolWatch::insert and one with remove in %s, found %d/%d" % (name, len(with_ins), len(with_rem)), top.loc())
            continue
        if with_ins[0] is not with_rem[0]:
            ctx.ob(R, "%s remove only after successful insert" % name, False,
                   "PoolWatch::insert happens inside a nested async block (%s) while remove runs in %s: remove is not dominated by the success of insert, so a rejected duplicate unregisters the live connection of the same identity" % (with_ins[0].qname.split("::", 3)[-1], with_rem[0].qname.split("::", 3)[-1]), with_rem[0].loc())
            n += 1
            continue
        f = with_ins[0]
        T = ctx.T(f)
        cfg = ctx.cfg(f, with_cancel=False)
        ins = [c for c in T.calls() if c["q"] == POOLW + "::insert"]
        rem = [c for c in T.calls() if c["q"] == POOLW + "::remove"]
        if len(ins) != 1 or len(rem) != 1:
            ctx.ob(R, "%s sites" % name, False, "expected one PoolWatch::insert and one remove, found %d/%d" % (len(ins), len(rem)), f.loc())
            continue
        n += 1
        ins, rem = ins[0], rem[0]
        hs_edges = Q.success_edges(ctx, f, lambda b: Q.is_await_of(b, {NET + "::" + hs}))
        ok = bool(hs_edges) and cfg.must_pass(ins["bb"], hs_edges)
        ctx.ob(R, "%s handshake before insert" % name, ok, "insert is dominated by the handshake's success" if ok else "a connection can be registered in the pool without a successful handshake", f.loc(ins["t"].get("ln")))
        ins_edges = Q.success_edges(ctx, f, lambda b: Q.is_await_of(b, {POOLW + "::insert"}))
        runs = [c for c in T.calls() if (c["rq"] or c["q"]) in (NET + "::rpc::Service::run", NET + "::gossip::Network::run_stream")]
        for g in ctx.F.fns:
            if root_fn(g) is root_fn(f) and g is not f:
                runs += [c for c in ctx.T(g).calls() if (c["rq"] or c["q"]) == NET + "::rpc::Service::run"]
        own_runs = [c for c in T.calls() if (c["rq"] or c["q"]) in (NET + "::rpc::Service::run", NET + "::gossip::Network::run_stream", "zksync_concurrency::scope::run")] + \
                   [c for c in T.calls() if c["q"].endswith("scope::Scope::run") or c["q"].endswith("scope::run")]
        ok = bool(ins_edges) and bool(runs)
        # the service runs either directly in this body or inside a scope closure created after the insert
        sites = [c["bb"] for c in own_runs] or [bi for bi, b in enumerate(f.blocks) for s in b["s"] if s["k"] == "assign" and s["r"]["k"] == "agg" and s["r"]["ak"] in ("closure", "coroutine")]
        ok = ok and bool(sites) and all(cfg.must_pass(bb, ins_edges) for bb in sites if bb > 0 and cfg.reachable[bb] and bb != ins["bb"] and not cfg.dominates(bb, ins["bb"]))
        ctx.ob(R, "%s insert before serving" % name, ok, "the RPC service / stream runner starts only after a successful insert" if ok else "the stream can be served without the peer having been admitted to the pool", f.loc())
        okr = bool(ins_edges) and cfg.must_pass(rem["bb"], ins_edges)
        ctx.ob(R, "%s remove only after successful insert" % name, okr, "remove is dominated by the success of insert" if okr else
               "PoolWatch::remove runs on a path where insert failed (e.g. a rejected duplicate): it would unregister the live connection of the same identity", f.loc(rem["t"].get("ln")))
        # post-dominance on normal completion
        starts = [t for _, t in ins_edges]
        r = cfg.reach_from_sensitive(starts, avoid_blocks=frozenset([rem["bb"]]))
        okp = not (set(cfg.returns()) & r)
        ctx.ob(R, "%s remove after run" % name, okp, "every normally completing path from a successful insert passes remove" if okp else "a path returns after insert without removing the pool entry", f.loc())
        ki = T.args_of(ins)[1]
        kr = T.args_of(rem)[1]
        same = ki == kr
        if not same:
            flow = Q.LocalFlow(f)
            li = flow._local_op(ins["t"]["args"][1])
            lr = flow._local_op(rem["t"]["args"][1])
            if li is not None and lr is not None:
                common = flow.closure(li) & flow.closure(lr)
                same = any("PublicKey" in f.locals[x].s and not (1 <= x <= f.argc) and "Schedule" not in f.locals[x].s and "Config" not in f.locals[x].s for x in common)
        ctx.ob(R, "%s same key" % name, same, "insert and remove use the same key (%s)" % show(ki)[:60] if same else "insert key %s, remove key %s" % (show(ki)[:60], show(kr)[:60]), f.loc())
    ctx.floor(R, "stream runners", n, 4)


def rule_pool_guard(ctx):
    R = "C12.5"
    ctx.rule(R, "pool guard (tables): insert rejects an existing key and, for a key outside `allowed`, rejects at extra_count >= extra_limit and counts otherwise; remove is symmetric; Pool fields are written only inside those closures")
    ins = ctx.fn(POOLW + "::insert")
    kids = common.family(ctx, ins, ("closure",))
    clo = [g for g in kids if any(c["q"].endswith("HashMap::insert") for c in ctx.T(g).calls())]
    ctx.floor(R, "insert closure", len(clo), 1)
    if clo:
        g = clo[0]
        T = ctx.T(g)

        def a_exists(t):
            return t[0] == "call" and t[1].endswith("::contains_key") and chain(t[2][0])[1][-1:] == ["current"]

        def a_allowed(t):
            return t[0] == "call" and t[1].endswith("HashSet::contains") and chain(t[2][0])[1][-1:] == ["allowed"]

        def m_lim(a, b):
            if chain(a)[1][-1:] == ["extra_count"] and chain(b)[1][-1:] == ["extra_limit"]:
                return 1
            if chain(b)[1][-1:] == ["extra_count"] and chain(a)[1][-1:] == ["extra_limit"]:
                return -1
            return 0
        W = Walker(ctx, g, [Atom("exists", "bool", a_exists, [True, False]), Atom("allowed", "bool", a_allowed, [True, False]), Atom("cmp(extra_count,extra_limit)", "cmp", m_lim, ["<", "=", ">"], kills=["extra_count"])])
        put = [c["bb"] for c in T.calls() if c["q"].endswith("HashMap::insert")]
        inc = [bb for bb in range(len(g.blocks)) for names, k, nd in Q.stmt_field_writes(g, bb, POOL) if "extra_count" in names]
        names, tab = W.table({"insert": put, "count": inc})
        bad = []
        for (ex, al, c), reach in tab.items():
            exp_ins = (ex is False) and (al is True or c == "<")
            exp_cnt = (ex is False) and (al is False) and c == "<"
            if ("insert" in reach) != exp_ins or ("count" in reach) != exp_cnt:
                bad.append(((ex, al, c), sorted(reach)))
        ctx.ob(R, "insert table", not bad, "12 valuations: insert iff not present and (allowed or extra_count < extra_limit); counted iff not allowed" if not bad else "pool insert deviates: %s" % bad[:3], g.loc())
    rem = ctx.fn(POOLW + "::remove")
    kids = common.family(ctx, rem, ("closure",))
    clo = [g for g in kids if any(c["q"].endswith("HashMap::remove") for c in ctx.T(g).calls())]
    ctx.floor(R, "remove closure", len(clo), 1)
    if clo:
        g = clo[0]
        T = ctx.T(g)

        def a_removed(t):
            return t[0] == "call" and t[1].endswith("HashMap::remove") and chain(t[2][0])[1][-1:] == ["current"]

        def a_allowed(t):
            return t[0] == "call" and t[1].endswith("HashSet::contains") and chain(t[2][0])[1][-1:] == ["allowed"]
        W = Walker(ctx, g, [Atom("removed", "opt", a_removed, ["None", "Some"]), Atom("allowed", "bool", a_allowed, [True, False])])
        dec = [bb for bb in range(len(g.blocks)) for names, k, nd in Q.stmt_field_writes(g, bb, POOL) if "extra_count" in names]
        names, tab = W.table({"uncount": dec})
        ok = all((("uncount" in v) == (k[0] == "Some" and k[1] is False)) for k, v in tab.items()) and bool(dec)
        ctx.ob(R, "remove table", ok, "the extra count is decremented exactly for a present key outside `allowed`" if ok else "pool remove deviates: %s" % {k: sorted(v) for k, v in tab.items()}, g.loc())
    # the value written: the counter moves by exactly one (a recomputation from other fields is a different
    # mechanism - e.g. current.len() - allowed.len() is wrong whenever an allowed peer is offline - and needs review)
    from .c07 import norm_arith

    def unit_step(g, op):
        Tg = ctx.T(g)
        res = []
        for bb in range(len(g.blocks)):
            for names, kind, nd in Q.stmt_field_writes(g, bb, POOL):
                if "extra_count" not in names:
                    continue
                if kind == "assign":
                    v = norm_arith(Tg.rvalue(nd["r"]))
                elif kind == "call-dest":
                    v = Tg.call_term(nd)
                else:
                    res.append((False, "mutable borrow of extra_count"))
                    continue
                okv = False
                if v[0] == "bin" and v[1] == op and chain(v[2])[1][-1:] == ["extra_count"] and v[3] == ("const", 1):
                    okv = True
                if v[0] == "call" and v[1] in ("usize::saturating_%s" % op.lower(), "usize::wrapping_%s" % op.lower()) and chain(v[2][0])[1][-1:] == ["extra_count"] and v[2][1] == ("const", 1):
                    okv = True
                res.append((okv, show(v)[:80]))
        return res
    for who, g0, op in (("insert", ctx.fn(POOLW + "::insert"), "Add"), ("remove", ctx.fn(POOLW + "::remove"), "Sub")):
        rs = []
        for g in common.family(ctx, g0, ("closure",)):
            rs += unit_step(g, op)
        ctx.ob(R, "%s: counter step" % who, bool(rs) and all(o for o, _ in rs), "extra_count %s 1" % ("+=" if op == "Add" else "-=") if rs and all(o for o, _ in rs) else
               "PoolWatch::%s sets extra_count to %s instead of moving it by one: the number of non-configured peers admitted no longer matches the counter, so the quota is not enforced" % (who, [d for o, d in rs if not o][:2]), g0.loc())
    writers = set()
    for f in ctx.F.fns:
        if f.in_testonly():
            continue
        for bb in range(len(f.blocks)):
            if Q.stmt_field_writes(f, bb, POOL):
                writers.add(root_fn(f).qname)
        for c in ctx.T(f).calls() if f.crate == NET and "pool" in f.file else []:
            if c["q"].endswith(("HashMap::insert", "HashMap::remove")):
                writers.add(root_fn(f).qname)
    ok = writers <= {POOLW + "::insert", POOLW + "::remove"} and bool(writers)
    ctx.ob(R, "Pool writers", ok, "Pool is mutated only inside PoolWatch::insert / remove closures (run under the watch lock)" if ok else "Pool mutated by %s" % sorted(writers))
    a = ctx.F.adts.get(POOL)
    ctx.ob("C12.8", "pool is crate-private", a is not None and not a["reach"], "Pool/PoolWatch are not reachable from outside the crate" if a is not None and not a["reach"] else "Pool is exported")
    ctx.rule("C12.8", "closed world: network::pool is crate-private (rustc effective visibility)")


def rule_pool_construction(ctx):
    R = "C12.6"
    ctx.rule(R, "pool construction: consensus pools = (committee keys, 0 extra); gossip inbound = (static_inbound, dynamic_inbound_limit); gossip outbound = (static outbound keys, 0 extra)")
    sites = []
    for f in ctx.F.fns:
        if f.in_testonly() or f.crate != NET:
            continue
        T = ctx.T(f)
        for c in T.calls():
            if c["q"] == POOLW + "::new":
                sites.append((f, c, T.args_of(c)))
    ctx.floor(R, "PoolWatch::new sites", len(sites), 3)
    for f, c, a in sites:
        net = "consensus" if "::consensus::" in f.qname else "gossip"
        allowed, extra = a[0], a[1]
        s = show(allowed)
        if net == "consensus":
            ok = extra == ("const", 0) and any(x[0] == "call" and x[1].endswith("Schedule::keys") for x in subterms(allowed)) and any(x[0] == "call" and x[1].endswith("validator_schedule") for x in subterms(allowed))
            if not ok and extra == ("const", 0):
                # the committee set may be filled by a loop instead of an iterator chain: derives-from flow
                def from_committee(body, la):
                    flow = Q.LocalFlow(body)
                    return la is not None and flow.derives_from_call(la, lambda q: q.endswith("Schedule::keys") or q.endswith("Schedule::iter")) and flow.derives_from_call(la, lambda q: q.endswith("validator_schedule"))
                ok = from_committee(f, Q.LocalFlow._local_op(c["t"]["args"][0]))
                if not ok and f.kind == "closure" and f.parent is not None:
                    # the pool is built by a local closure: follow the captured set into the enclosing body
                    up = [x[1] for x in subterms(allowed) if x[0] == "upvar"]
                    par = f.parent
                    for b in par.blocks:
                        for st in b["s"]:
                            if st["k"] == "assign" and st["r"]["k"] == "agg" and st["r"].get("ak") == "closure" and st["r"].get("def") == f.path:
                                for cap, op in zip(f.captures, st["r"]["ops"]):
                                    if cap["name"] in up:
                                        l = Q.LocalFlow._local_op(op)
                                        lf = Q.LocalFlow(par)
                                        ok = ok or from_committee(par, lf._root_borrow(l) if l is not None else None)
            exp = "(validator_schedule().keys(), 0)"
        else:
            if extra == ("const", 0):
                ok = "static_outbound" in s
                exp = "(static_outbound keys, 0)"
                if not ok:
                    # the key set may be filled by a loop: the argument's dependency closure reads the static_outbound collection
                    la0 = Q.LocalFlow._local_op(c["t"]["args"][0])
                    if la0 is not None:
                        flow0 = Q.LocalFlow(f)
                        clo0 = flow0.closure(la0)
                        Tf0 = ctx.T(f)
                        for b0 in f.blocks:
                            for st0 in b0["s"]:
                                if st0["k"] == "assign" and st0["p"]["l"] in clo0 and any(x[0] == "field" and x[2] == "static_outbound" for x in subterms(Tf0.rvalue(st0["r"]))):
                                    ok = True
                            t0 = b0["t"]
                            if t0["k"] == "call" and "decl" in t0["f"] and not t0["dest"].get("pr") and t0["dest"]["l"] in clo0 and any(x[0] == "field" and x[2] == "static_outbound" for x in subterms(Tf0.call_term(t0))):
                                ok = True
                        if ok and any(x[0] == "field" and x[2] == "static_inbound" for b0 in f.blocks for st0 in b0["s"] if st0["k"] == "assign" and st0["p"]["l"] in clo0 - {l0 for l0 in clo0 if "Config" in f.locals[l0].s or 1 <= l0 <= f.argc} for x in subterms(Tf0.rvalue(st0["r"]))):
                            ok = False
            else:
                ok = "static_inbound" in s and chain(extra)[1][-1:] == ["dynamic_inbound_limit"]
                exp = "(static_inbound, dynamic_inbound_limit)"
                # the allowed set is the configured static_inbound set and nothing else: no other field of the gossip configuration
                # flows into it (a set built in a local is followed through its dependency closure)
                la = Q.LocalFlow._local_op(c["t"]["args"][0])
                if ok and la is not None:
                    flow = Q.LocalFlow(f)
                    # dependency closure of the set, not entered through the configuration object itself
                    clo, st_ = {la}, [la]
                    while st_:
                        x = st_.pop()
                        for y in list(flow.deps.get(x, ())) + ([flow.borrow_of[x]] if x in flow.borrow_of else []):
                            if y not in clo and y < len(f.locals) and "Config" not in f.locals[y].s and not (1 <= y <= f.argc):
                                clo.add(y)
                                st_.append(y)
                    other = set()
                    Tf = ctx.T(f)

                    def cfg_fields(t):
                        for x in subterms(t):
                            if x[0] == "field" and x[2] in ("static_outbound",):      # the other key collection of the gossip configuration
                                other.add(x[2])
                    for b in f.blocks:
                        for st in b["s"]:
                            if st["k"] == "assign" and st["p"]["l"] in clo:
                                cfg_fields(Tf.rvalue(st["r"]))
                        tt = b["t"]
                        if tt["k"] == "call" and "decl" in tt["f"] and tt is not c["t"]:
                            ls = [Q.LocalFlow._local_op(a) for a in tt["args"]]
                            if (not tt["dest"].get("pr") and tt["dest"]["l"] in clo) or any(l is not None and (l in clo or flow.borrow_of.get(l) in clo) for l in ls[:1]):
                                cfg_fields(Tf.call_term(tt))
                    if other:
                        ok = False
                        s = "static_inbound extended with %s" % sorted(other)
        ctx.ob(R, "%s pool %s" % (net, exp), ok, "PoolWatch::new%s" % exp if ok else "%s pool is constructed with (%s, %s)" % (net, s[:80], show(extra)), f.loc(c["t"].get("ln")))


def rule_who_serves(ctx):
    R = "C12.7"
    ctx.rule(R, "who serves: rpc::Service::run is called only by the four stream runners; inbound ConsensusNet streams go to the consensus network only when it is configured")
    callers = set()
    for f in ctx.F.fns:
        if f.in_testonly() or f.crate != NET or "loadtest" in f.qname:
            continue
        for c in ctx.T(f).calls():
            if (c["rq"] or c["q"]) == NET + "::rpc::Service::run":
                callers.add(root_fn(f).qname)
    allowed = {NET + "::gossip::Network::run_stream", NET + "::consensus::Network::run_inbound_stream", NET + "::consensus::Network::run_outbound_stream"}
    ctx.ob(R, "callers of Service::run", callers <= allowed and len(callers) == 3, "Service::run is called from %s" % sorted(x.split("::", 1)[1] for x in callers) if callers <= allowed and len(callers) == 3 else
           "Service::run callers: %s" % sorted(callers))
    rs = set()
    for f in ctx.F.fns:
        if f.in_testonly() or f.crate != NET:
            continue
        for c in ctx.T(f).calls():
            if (c["rq"] or c["q"]) == NET + "::gossip::Network::run_stream":
                rs.add(root_fn(f).qname)
    ok = rs == {NET + "::gossip::Network::run_inbound_stream", NET + "::gossip::Network::run_outbound_stream"}
    ctx.ob(R, "callers of gossip run_stream", ok, "run_stream is called only by the gossip inbound/outbound runners" if ok else "run_stream callers: %s" % sorted(rs))
    # endpoint dispatch table
    top = ctx.fn(NET + "::Runner::run")
    bodies = [g for g in common.family(ctx, top) if any((c["rq"] or c["q"]) == NET + "::gossip::Network::run_inbound_stream" for c in ctx.T(g).calls())]
    ctx.floor(R, "accept-loop bodies dispatching on the preface endpoint", len(bodies), 1)
    for g in bodies:
        T = ctx.T(g)

        def a_cons(t):
            return chain(t)[1][-1:] == ["consensus"]

        # the endpoint announced in the preface: whatever value is switched on with the variants of preface::Endpoint
        ep_terms = set()
        for bb in range(len(g.blocks)):
            si = T.switch_info(bb)
            if si and si[0][0] == "discr" and set(l for ls in si[1].values() for l in ls) >= {"ConsensusNet", "GossipNet"}:
                ep_terms.add(si[0][1])

        def a_ep(t):
            return t in ep_terms
        W = Walker(ctx, g, [Atom("endpoint", "enum", a_ep, ["ConsensusNet", "GossipNet"]), Atom("consensus network", "opt", a_cons, ["None", "Some"])])
        cons = [c["bb"] for c in T.calls() if (c["rq"] or c["q"]) == NET + "::consensus::Network::run_inbound_stream"]
        gos = [c["bb"] for c in T.calls() if (c["rq"] or c["q"]) == NET + "::gossip::Network::run_inbound_stream"]
        names, tab = W.table({"consensus": cons, "gossip": gos})
        exp = {("ConsensusNet", "Some"): {"consensus"}, ("ConsensusNet", "None"): set(), ("GossipNet", "Some"): {"gossip"}, ("GossipNet", "None"): {"gossip"}}
        undecided = len(set(map(frozenset, tab.values()))) == 1
        bad = {k: sorted(v) for k, v in tab.items() if v != exp[k]}
        if undecided:
            ctx.note("C12.7 endpoint dispatch: the switch on the preface endpoint was not recognised - not decided")
        ctx.ob(R, "endpoint dispatch table", undecided or not bad, ("undecided shape (not reported)" if undecided else "ConsensusNet -> consensus network only when configured; GossipNet -> gossip network (4 valuations)") if (undecided or not bad) else
               "an inbound stream is dispatched to the wrong network: %s (specified %s)" % (bad, {k: sorted(v) for k, v in exp.items() if k in bad}), g.loc())


RULES = [("C12.1", rule_handshake_tables), ("C12.4", rule_admission_order), ("C12.5", rule_pool_guard), ("C12.6", rule_pool_construction), ("C12.7", rule_who_serves)]
