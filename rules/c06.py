"""C06 — progress after the network heals: presence and wiring of the anchored liveness mechanisms (liveness itself is not decided)."""
from engine import query as Q
from . import common
from engine.terms import show, subterms
from engine.guards import Atom, Walker, field_path, chain, Inliner
from .phase_gate import SM, self_field, view_cmp_atom, phase_atom, CHONKY_MSG
from .c03 import find_sends, msg_variant, root_fn, bft_bodies

INPUT_MSG = "zksync_consensus_network::io::ConsensusInputMessage"


def sends_in(ctx, f, variant=None):
    T = ctx.T(f)
    out = []
    for c in T.calls():
        ga = c["t"]["f"].get("ga", [])
        if c["q"].endswith("::send") and ga and f.ty(ga[0]).s == INPUT_MSG:
            v = msg_variant(T.args_of(c)[1])
            if variant is None or v == variant:
                out.append(c)
    return out


def ok_returns(f):
    return [bi for bi, b in enumerate(f.blocks) for s in b["s"] if s["k"] == "assign" and s["p"]["l"] in Q.ret_locals(f) and not s["p"].get("pr") and s["r"]["k"] == "agg" and s["r"].get("variant") == "Ok"]


def rule_main_loop(ctx):
    R = "C06.1"
    ctx.rule(R, "main loop: when the receive deadline expires (and the context is still active) the replica starts a timeout and loops again; a cancelled context returns")
    f = ctx.body(SM + "::run")
    T = ctx.T(f)

    def a_active(t):
        return t[0] == "call" and t[1].endswith("Ctx::is_active")

    def a_recv(t):
        return t[0] == "call" and t[1] == "std::result::Result::ok" and any(x[0] == "call" and x[1].endswith("prunable_mpsc::Receiver::recv") for x in subterms(t))
    W = Walker(ctx, f, [Atom("ctx.is_active()", "bool", a_active, [True, False]), Atom("received", "opt", a_recv, ["None", "Some"])])
    st = [c["bb"] for c in T.calls() if (c["rq"] or c["q"]) == SM + "::start_timeout"]
    recvs = [c["bb"] for c in T.calls() if c["q"].endswith("prunable_mpsc::Receiver::recv")]
    handlers = [c["bb"] for c in T.calls() if (c["rq"] or c["q"]) in (SM + "::on_proposal", SM + "::on_commit", SM + "::on_timeout", SM + "::on_new_view")]
    rets = ok_returns(f)
    ctx.floor(R, "start_timeout call sites in run", len(st), 2)
    ctx.floor(R, "handler dispatch sites", len(handlers), 4)
    # start of an iteration = the switch after the recv await: use the block of the is_active call
    act = [c["bb"] for c in T.calls() if c["q"].endswith("Ctx::is_active")]
    if not act or not recvs:
        ctx.ob(R, "loop shape", False, "recv / is_active not found in the replica loop", f.loc())
        return
    # the start_timeout inside the loop (not the view-0 bootstrap): reachable from the recv
    cfg = ctx.cfg(f)
    loop_st = [b for b in st if b in cfg.reach_from([recvs[0]])]
    names, tab = W.table({"timeout": loop_st, "dispatch": handlers, "return": rets}, start=act[0])
    exp = {(True, "None"): {"timeout"}, (True, "Some"): {"dispatch"}, (False, "None"): {"return"}, (False, "Some"): {"return"}}
    for k, e in exp.items():
        got = tab.get(k, set())
        ok = (e <= got) and (("return" in got) == ("return" in e)) and (("timeout" in got) == ("timeout" in e) or k == (True, "Some"))
        ctx.ob(R, "row active=%s received=%s" % k, ok, "-> %s" % sorted(got) if ok else "with ctx active=%s and message %s the loop reaches %s; specified %s" % (k[0], k[1], sorted(got), sorted(e)), f.loc())
    # after the timeout the loop continues (the next recv is reachable, the function does not return)
    for b in loop_st:
        r = cfg.reach_from([f.blocks[b]["t"]["t"]]) if "t" in f.blocks[b]["t"] else set()
        ok = recvs[0] in r
        ctx.ob(R, "loop continues after timeout", ok, "after start_timeout the replica waits for input again" if ok else "the replica stops receiving after a timeout", f.loc())
    # the receive deadline is the view timeout
    dl = [T.args_of(c) for c in T.calls() if c["q"].endswith("Ctx::with_deadline")]
    ok = bool(dl) and any(chain(a[1])[1][-1:] == ["view_timeout"] for a in dl)
    ctx.ob(R, "receive deadline", ok, "recv(ctx.with_deadline(self.view_timeout))" if ok else "the receive deadline is not self.view_timeout", f.loc())


def rule_timeout_starter(ctx):
    R = "C06.2"
    ctx.rule(R, "timeout starter: on every successful path it resets the view deadline to now + config.view_timeout, (re)sends ReplicaTimeout, and (re)sends ReplicaNewView whenever view_number != 0 - in every phase, on every timeout (retransmission is what un-sticks lagging replicas)")
    f = ctx.body(SM + "::start_timeout")
    T = ctx.T(f)
    cfg = ctx.cfg(f, with_cancel=False)

    def m0(a, b):
        def is_zero(t):
            return t[0] == "agg" and t[1].endswith("ViewNumber") and t[3] and t[3][0][1] == ("const", 0)
        if self_field(a, "view_number") and is_zero(b):
            return 1
        if self_field(b, "view_number") and is_zero(a):
            return -1
        return 0
    atoms = [Atom("view==0", "cmp", m0, ["=", "!="], kills=["view_number"]), phase_atom()]
    nv = [c["bb"] for c in sends_in(ctx, f, "ReplicaNewView")]
    to = [c["bb"] for c in sends_in(ctx, f, "ReplicaTimeout")]
    rets = ok_returns(f)
    ctx.floor(R, "ReplicaTimeout sends", len(to), 1)
    ctx.floor(R, "ReplicaNewView sends", len(nv), 1)
    ctx.floor(R, "Ok returns", len(rets), 1)
    W = Walker(ctx, f, atoms)
    # must-pass under each valuation: Ok unreachable when the send is avoided
    _, t_to = W.table({"ok": rets}, avoid=set(to))
    _, t_nv = W.table({"ok": rets}, avoid=set(nv))
    _, t_all = W.table({"ok": rets, "new_view": nv})
    for (v0, ph) in sorted(t_all):
        ok_to = "ok" not in t_to[(v0, ph)]
        ctx.ob(R, "row view%s0 phase=%s: ReplicaTimeout" % (v0, ph), ok_to, "every successful path sends ReplicaTimeout" if ok_to else "start_timeout can succeed in phase %s without (re)sending ReplicaTimeout" % ph, f.loc())
        if v0 == "!=":
            ok_nv = "ok" not in t_nv[(v0, ph)]
            ctx.ob(R, "row view!=0 phase=%s: ReplicaNewView" % ph, ok_nv, "every successful path re-sends ReplicaNewView" if ok_nv else
                   "in phase %s start_timeout can succeed without re-broadcasting ReplicaNewView: after a partition a lagging replica never learns the certificate of the newer view (deadlock on a reliable network)" % ph, f.loc())
        else:
            ok0 = "new_view" not in t_all[(v0, ph)]
            ctx.ob(R, "row view=0 phase=%s: no ReplicaNewView" % ph, ok0, "view 0 has no justification: no new-view is sent" if ok0 else "a ReplicaNewView is sent in view 0", f.loc())
    # deadline reset
    wr = []
    for bi, b in enumerate(f.blocks):
        for s in b["s"]:
            if s["k"] == "assign" and [e.get("n") for e in s["p"].get("pr", []) if isinstance(e, dict)] == ["view_timeout"]:
                t = T.rvalue(s["r"])
                if any(x[0] == "call" and x[1].endswith("Ctx::now") for x in subterms(t)) and "view_timeout" in show(t):
                    wr.append(bi)
    ok = bool(wr) and all(cfg.must_pass_blocks(r, set(wr)) for r in rets)
    ctx.ob(R, "deadline reset", ok, "view_timeout := now + config.view_timeout on every successful path" if ok else "start_timeout can succeed without re-arming the view timer (no further retransmission)", f.loc())


def rule_bootstrap(ctx):
    R = "C06.3"
    ctx.rule(R, "view-0 bootstrap: run() starts a timeout before the loop exactly when view_number == 0")
    f = ctx.body(SM + "::run")
    T = ctx.T(f)
    cfg = ctx.cfg(f)

    def m0(a, b):
        def is_zero(t):
            return t[0] == "agg" and t[1].endswith("ViewNumber") and t[3] and t[3][0][1] == ("const", 0)
        if chain(a)[1][-1:] == ["view_number"] and is_zero(b):
            return 1
        if chain(b)[1][-1:] == ["view_number"] and is_zero(a):
            return -1
        return 0
    recvs = [c["bb"] for c in T.calls() if c["q"].endswith("prunable_mpsc::Receiver::recv")]
    st = [c["bb"] for c in T.calls() if (c["rq"] or c["q"]) == SM + "::start_timeout"]
    pre = [b for b in st if recvs and b not in cfg.reach_from([recvs[0]])]
    ctx.floor(R, "bootstrap timeout site", len(pre), 1)
    W = Walker(ctx, f, [Atom("view==0", "cmp", m0, ["=", "!="], kills=["view_number"])])
    names, tab = W.table({"bootstrap": pre}, avoid=set(recvs))
    ok = "bootstrap" in tab.get(("=",), set()) and "bootstrap" not in tab.get(("!=",), {"x"})
    ctx.ob(R, "bootstrap table", ok, "start_timeout before the first receive iff view_number == 0" if ok else "bootstrap reachability: %s" % {k: sorted(v) for k, v in tab.items()}, f.loc())


def rule_view_starter(ctx):
    R = "C06.5"
    ctx.rule(R, "view starter: on every successful path start_new_view publishes Some(justification) to the proposer watch, broadcasts ReplicaNewView and resets the view deadline")
    f = ctx.body(SM + "::start_new_view")
    T = ctx.T(f)
    cfg = ctx.cfg(f, with_cancel=False)
    rets = ok_returns(f)
    pub = [c["bb"] for c in T.calls() if c["q"].endswith("watch::Sender::send") and "proposer_sender" in show(T.args_of(c)[0])]
    nv = [c["bb"] for c in sends_in(ctx, f, "ReplicaNewView")]
    wr = []
    for bi, b in enumerate(f.blocks):
        for s in b["s"]:
            if s["k"] == "assign" and [e.get("n") for e in s["p"].get("pr", []) if isinstance(e, dict)] == ["view_timeout"]:
                wr.append(bi)
    for name, bbs in (("publish justification to the proposer", pub), ("broadcast ReplicaNewView", nv), ("reset the view deadline", wr)):
        ok = bool(bbs) and bool(rets) and all(cfg.must_pass_blocks(r, set(bbs)) for r in rets)
        ctx.ob(R, name, ok, "on every successful path" if ok else "start_new_view can succeed without: %s" % name, f.loc())
    pa = [T.args_of(c)[1] for c in T.calls() if c["q"].endswith("watch::Sender::send") and "proposer_sender" in show(T.args_of(c)[0])]
    ok = bool(pa) and all(a[0] == "agg" and a[2] == "Some" and any(x[0] == "call" and x[1] == SM + "::get_justification" for x in subterms(a)) for a in pa)
    ctx.ob(R, "published value", ok, "proposer_sender.send(Some(self.get_justification()))" if ok else "the proposer is not given the current justification", f.loc())


def rule_catch_up(ctx):
    R = "C06.4"
    ctx.rule(R, "catch-up: a new-view for a higher view starts that view (C05.5 row '>'), proposals for future views are accepted (C03.5 rows '>'); the votes of the lagging/leading replicas keep flowing through commit/timeout handlers that start the next view on a quorum")
    for h, nxt in (("on_commit", True), ("on_timeout", True), ("on_new_view", False)):
        f = ctx.body(SM + "::" + h)
        T = ctx.T(f)
        st = [c for c in T.calls() if (c["rq"] or c["q"]) == SM + "::start_new_view"]
        ctx.ob(R, "%s starts a view" % h, len(st) >= 1, "%s calls start_new_view (%d site)" % (h, len(st)) if st else "%s never starts a new view" % h, f.loc())
    f = ctx.body(SM + "::on_new_view")
    W = Walker(ctx, f, [view_cmp_atom()])
    T = ctx.T(f)
    st = [c["bb"] for c in T.calls() if (c["rq"] or c["q"]) == SM + "::start_new_view"]
    names, tab = W.table({"start": st})
    ok = "start" in tab.get((">",), set())
    ctx.ob(R, "future new-view accepted", ok, "a ReplicaNewView for a higher view reaches start_new_view" if ok else "a new-view for a future view cannot start that view", f.loc())


def rule_proposer(ctx):
    R = "C06.6"
    ctx.rule(R, "proposer loop: for a changed justification whose view's leader is this node every path either sends the proposal or is the timeout (Canceled) arm that continues; internal errors propagate; the loop never returns Ok")
    f = ctx.body("zksync_consensus_bft::v2_chonky_bft::proposer::run_proposer")
    T = ctx.T(f)
    cfg = ctx.cfg(f, with_cancel=False)
    sends = sends_in(ctx, f, "LeaderProposal")
    ctx.floor(R, "proposal sends", len(sends), 1)
    oks = ok_returns(f)
    ctx.ob(R, "loop never returns Ok", not oks, "run_proposer only ends with an error/cancellation" if not oks else "run_proposer can return Ok (the node would stop proposing)", f.loc())

    def m_leader(a, b):
        def is_l(t):
            return t[0] == "call" and t[1].endswith("Schedule::view_leader")
        def is_me(t):
            return t[0] == "call" and t[1].endswith("SecretKey::public")
        if is_l(a) and is_me(b):
            return 1
        if is_l(b) and is_me(a):
            return -1
        return 0

    def is_cp(t):
        return t[0] == "await" and t[1][0] == "call" and t[1][1].endswith("proposer::create_proposal")
    W = Walker(ctx, f, [Atom("leader==me", "cmp", m_leader, ["=", "!="]), Atom("create_proposal", "enum", is_cp, ["Ok", "Err"])])
    cp = [c["bb"] for c in T.calls() if c["q"].endswith("proposer::create_proposal")]
    names, tab = W.table({"create": cp, "send": [c["bb"] for c in sends]})
    ok = "create" in tab.get(("=", "Ok"), set()) and "send" in tab.get(("=", "Ok"), set()) and "create" not in tab.get(("!=", "Ok"), {"x"}) and "send" not in tab.get(("=", "Err"), {"x"})
    ctx.ob(R, "leader proposes", ok, "a proposal is created iff this node leads the justification's view and is sent iff creation succeeded" if ok else "proposer table: %s" % {k: sorted(v) for k, v in tab.items()}, f.loc())
    # the view used for the leader check is the justification's view
    vl = [T.args_of(c) for c in T.calls() if c["q"].endswith("Schedule::view_leader")]
    okv = bool(vl) and all(chain(a[1])[1][-2:] == ["view()", "number"] for a in vl)
    ctx.ob(R, "leader of the justified view", okv, "view_leader(justification.view().number)" if okv else "leader computed for %s" % [show(a[1]) for a in vl], f.loc())
    # timeout for creating the proposal
    ct = [T.args_of(c) for c in T.calls() if c["q"].endswith("proposer::create_proposal")]
    okt = bool(ct) and all(a[0][0] == "call" and a[0][1].endswith("Ctx::with_timeout") and "view_timeout" in show(a[0]) for a in ct)
    ctx.ob(R, "bounded proposal creation", okt, "create_proposal runs under ctx.with_timeout(cfg.view_timeout)" if okt else "proposal creation is not bounded by the view timeout", f.loc())



def rule_payload_cache_retention(ctx):
    R = "C06.7"
    ctx.rule(R, "payload retention: a cached proposal payload is dropped only when its block number is at or below the highest commit certificate held (already finalized) - the only removing operation on block_proposal_cache is retain(|k, _| k > high_commit_qc.header().number). A payload dropped earlier can belong to a block that still gets certified by a re-proposal, which then can never be stored: every later proposer waits for it forever")
    from engine.guards import Inliner
    REMOVERS = ("retain", "remove", "remove_entry", "clear", "pop_first", "pop_last", "split_off", "first_entry", "last_entry", "extract_if", "drain", "truncate")
    sites = []
    for f in bft_bodies(ctx):
        T = ctx.T(f)
        for c in T.calls():
            if c["q"].startswith("std::collections::BTreeMap::") and c["q"].rsplit("::", 1)[1] in REMOVERS:
                a = T.args_of(c)
                if a and chain(a[0])[1][-1:] == ["block_proposal_cache"]:
                    sites.append((f, c, a))
    ctx.floor(R, "removing operations on block_proposal_cache", len(sites), 1)
    for f, c, a in sites:
        m = c["q"].rsplit("::", 1)[1]
        T = ctx.T(f)
        where = f.loc(c["t"].get("ln"))
        if m != "retain" or len(a) < 2 or a[1][0] != "closure":
            ctx.ob(R, "removal by %s" % m, False, "block_proposal_cache.%s(..) drops cached payloads without relating them to the finalized height" % m, where)
            continue
        g = ctx.F.by_qname.get(a[1][1], [None])[0]
        caps = dict(zip([x["name"] for x in g.captures], a[1][2])) if g is not None else {}

        def res(t):
            if t[0] == "upvar":
                return caps.get(t[1], t)
            if t[0] in ("call",):
                return ("call", t[1], tuple(res(x) for x in t[2]))
            if t[0] == "field":
                return ("field", res(t[1]), t[2])
            if t[0] == "downcast":
                return ("downcast", res(t[1]), t[2])
            return t

        def committed_number(t):
            t = res(t)
            return chain(t)[1][-2:] == ["header()", "number"] and any(x[0] == "field" and x[2] == "high_commit_qc" for x in subterms(t))

        def is_key(t):
            return t[0] == "param" and t[1] == 2

        def mk(a_, b_):
            if is_key(a_) and committed_number(b_):
                return 1
            if is_key(b_) and committed_number(a_):
                return -1
            return 0
        if g is None:
            ctx.ob(R, "retain predicate", False, "retain predicate not found", where)
            continue
        W = Walker(ctx, g, [Atom("cmp(k,committed)", "cmp", mk, ["<", "=", ">"])])
        tr = {v: common.ret_truths(ctx, W, g, {"cmp(k,committed)": v}) for v in "<=>"}
        if all(x and None not in x for x in tr.values()) and len(set(map(frozenset, tr.values()))) > 1:
            ok = tr[">"] == {True}
            ctx.ob(R, "retain predicate", ok, "retain keeps every payload above the highest commit certificate's block number (drops: %s)" % sorted(k for k, v in tr.items() if v == {False}) if ok else
                   "block_proposal_cache.retain drops payloads of blocks above the finalized height (kept by k vs committed number: %s)" % {k: sorted(v) for k, v in tr.items()}, where)
        else:
            ctx.ob(R, "retain predicate", False, "block_proposal_cache.retain(..) does not compare the block number with the highest commit certificate's number: payloads of blocks that are not finalized can be dropped (predicate: %s)" % show(Inliner(ctx).ret_term(g))[:140], where)


def rule_timer_writers(ctx):
    R = "C06.8"
    ctx.rule(R, "the view timer is re-armed only when a view starts or a timeout fires: exactly the view starter, the timeout starter and the constructor write view_timeout, and what they write is now + config.view_timeout (or the value restored at start). A timer pushed back on other events (each accepted message, each vote) can be starved forever by a peer that keeps such events coming - no timeout, no retransmission, no view change")
    allowed = {"start_new_view", "start_timeout", "start"}
    found = {}
    n = 0
    for f in bft_bodies(ctx):
        T = ctx.T(f)
        for bb in range(len(f.blocks)):
            for names, kind, node in Q.stmt_field_writes(f, bb, SM):
                if "view_timeout" in names:
                    n += 1
                    found.setdefault(root_fn(f).qname.split("::")[-1], []).append((f, node))
    extra = sorted(set(found) - allowed)
    for k in extra:
        f, node = found[k][0]
        ctx.ob(R, "writer %s" % k, False, "StateMachine.view_timeout is also written in %s: the view timer no longer measures the time since the view started / last timed out" % k, f.loc(node.get("ln")))
    ctx.ob(R, "writers of view_timeout", not extra and {"start_new_view", "start_timeout"} <= set(found), "StateMachine.view_timeout is written by %s" % sorted(found) if not extra else
           "unexpected writers: %s" % extra)
    ctx.floor(R, "writes of view_timeout", n, 2)


def rule_bounded_waits(ctx):
    R = "C06.10"
    ctx.rule(R, "a wait the replica bounds by its own deadline (ctx.with_timeout / with_deadline inside the bft component) never ends the replica: the expiry of that deadline comes back as ctx::Canceled, which the replica loop and Config::run read as 'the node is shutting down' (the loop returns, run maps Canceled to Ok) - so the outcome of the bounded operation is always handled on the spot (turned into a rejection of the message with map_err, into a timeout with .ok(), matched), never propagated with `?` / wrap() as the handler's internal error. A lagging store or a slow payload then costs a view, not the validator")
    sites = []
    for f in ctx.F.fns:
        if f.in_testonly() or f.crate != "zksync_consensus_bft":
            continue
        T = ctx.T(f)
        for c in T.calls():
            if c["q"].endswith(("ctx::Ctx::with_timeout", "ctx::Ctx::with_deadline")):
                sites.append((f, T, T.call_term(f.blocks[c["bb"]]["t"]), c))
    ctx.floor(R, "deadline-bounded waits in the bft component", len(sites), 3)
    HANDLED = ("map_err", "ok", "is_ok", "is_err", "unwrap_or", "unwrap_or_else", "unwrap_or_default", "or_else", "err")
    for f, T, wt, c in sites:
        users = []
        for b in f.blocks:
            t = b["t"]
            if t["k"] == "call" and "decl" in t["f"]:
                ct = T.call_term(t)
                if ct[0] == "call" and ct != wt and any(x == wt for a in ct[2] for x in subterms(a)) and not ct[1].startswith("std::"):
                    users.append(ct)
        if not users:
            ctx.note("C06.10: the bounded context of %s is not passed to a call directly - not decided" % f.qname.split("::", 2)[-1][:50])
            ctx.ob(R, "bounded wait in %s" % root_fn_name(f), True, "undecided shape (not reported)", f.loc(c["t"].get("ln")))
            continue
        bad = None
        for b in f.blocks:
            t = b["t"]
            if t["k"] == "call" and "decl" in t["f"] and f.callee(t)[0].qname == "std::ops::Try::branch":
                arg = T.operand(t["args"][0])
                if not any(x in users for x in subterms(arg)):
                    continue
                # the adapters between the awaited call and the `?`
                chain_names = []
                u = arg
                while u[0] in ("call", "await", "try") and u not in users:
                    if u[0] == "call":
                        chain_names.append(u[1].rsplit("::", 1)[-1])
                        u = u[2][0] if u[2] else ("cunit",)
                    else:
                        u = u[1]
                if not any(n in HANDLED for n in chain_names):
                    bad = (show(arg)[:100], chain_names)
        where = root_fn_name(f)
        ctx.ob(R, "bounded wait in %s (%s)" % (where, users[0][1].rsplit("::", 1)[-1]), bad is None, "the outcome of the deadline-bounded %s is handled where it is awaited" % users[0][1].rsplit("::", 1)[-1] if bad is None else
               "the result of the deadline-bounded %s is propagated with `?` (%s): when the replica's own deadline expires the handler returns Internal(Canceled), the replica loop ends and the bft component exits as if the node were shutting down - the validator goes silent for good" % (users[0][1].rsplit("::", 1)[-1], bad[0]), f.loc(c["t"].get("ln")))


def root_fn_name(f):
    r = f
    while r.parent is not None:
        r = r.parent
    return r.qname.split("::")[-1]


def rule_saved_block_durable(ctx):
    R = "C06.11"
    ctx.rule(R, "a finalized block is durable before the replica moves on: every path of save_block that hands a block to the engine manager (queue_block) returns Ok only after the awaited wait_until_persisted of that block's number completed. The caller (process_commit_qc) goes on to start_new_view, which prunes the payload cache and backs the state up with the new certificate but without the payload - if the block were only queued (in memory) and all holders crashed then, everybody would hold a certificate for a block nobody has: the leader waits for it forever and it is never re-proposed")
    f = ctx.body(SM + "::save_block")
    T = ctx.T(f)
    cfg = ctx.cfg(f, with_cancel=False)
    q = [c["bb"] for c in T.calls() if (c["rq"] or c["q"]).endswith("EngineManager::queue_block")]
    ctx.floor(R, "queue_block sites in save_block", len(q), 1)
    edges = Q.success_edges(ctx, f, lambda b: (b[0] == "await" and b[1][0] == "call" and b[1][1].endswith("EngineManager::wait_until_persisted")) or (b[0] == "call" and b[1].endswith("EngineManager::wait_until_persisted")))
    rets = set(Q.success_return_blocks(ctx, f)) if f.locals[0].s.startswith("std::result::Result<") else set(b for b, _ in Q.return_blocks_maybe_ok(ctx, f))
    bad = []
    for qb in q:
        after = cfg.reach_from([y for _, y in cfg.succ[qb]])
        for r in rets & after:
            if not edges or not cfg.must_pass(r, edges):
                # the return may be reachable only on paths that did not queue anything: look at paths from the queue_block site
                sub = cfg.reach_from([y for _, y in cfg.succ[qb]], avoid_edges=frozenset(edges))
                if r in sub:
                    bad.append(r)
    waits = [x for c in T.calls() if (c["rq"] or c["q"]).endswith(("EngineManager::wait_until_queued", "EngineManager::wait_until_persisted")) for x in [(c["rq"] or c["q"]).rsplit("::", 1)[1]]]
    ctx.ob(R, "persisted before save_block returns", not bad and bool(edges), "after queue_block, Ok is reachable only through the completed wait_until_persisted" if not bad and edges else
           "save_block can return Ok after queue_block without having waited for the block to be persisted (waits found: %s): the caller prunes the payload cache and backs up a state whose block exists in memory only" % (sorted(set(waits)) or "none"), f.loc())
    # the number waited for is the number of the block that was queued
    okn = False
    for c in T.calls():
        if (c["rq"] or c["q"]).endswith("EngineManager::wait_until_persisted"):
            a = T.args_of(c)
            okn = len(a) > 2 and any(x[0] == "field" and x[2] == "number" for x in subterms(a[2]))
    ctx.ob(R, "waits for the saved block's number", okn, "wait_until_persisted(ctx, <the block's header>.number)" if okn else "the persisted-wait is not for the saved block's number", f.loc())


def rule_dispatch_and_errors(ctx):
    R = "C06.9"
    ctx.rule(R, "replica loop dispatch: each ChonkyMsg variant reaches exactly its own handler, and after a handler ran the loop stops only for the handler's Internal error (cancellation / storage failure) - a rejected message (old, invalid, wrong leader ...) never ends the replica, whatever a peer sends")
    f = ctx.body(SM + "::run")
    T = ctx.T(f)
    cfg = ctx.cfg(f, with_cancel=False)
    H = {"LeaderProposal": "on_proposal", "ReplicaCommit": "on_commit", "ReplicaTimeout": "on_timeout", "ReplicaNewView": "on_new_view"}
    recvs = [c["bb"] for c in T.calls() if c["q"].endswith("prunable_mpsc::Receiver::recv")]
    hcalls = {}
    for c in T.calls():
        q = (c["rq"] or c["q"])
        for v, h in H.items():
            if q == SM + "::" + h:
                hcalls.setdefault(h, []).append(c["bb"])
    ctx.floor(R, "handlers called from the loop", len(hcalls), 4)
    if not recvs:
        ctx.ob(R, "loop shape", False, "recv not found in the replica loop", f.loc())
        return
    head = recvs[0]
    # variant dispatch
    arms = None
    for bb in range(len(f.blocks)):
        si = T.switch_info(bb)
        if si and si[0][0] == "discr":
            labs = set(l for ls in si[1].values() for l in ls)
            if set(H) <= labs:
                arms = si[1]
    if arms is None:
        ctx.note("C06.9 variant dispatch: no switch over the four ChonkyMsg variants found - not decided")
    else:
        for tb, ls in arms.items():
            for v in ls:
                if v not in H:
                    continue
                r = cfg.reach_from([tb], avoid_blocks=frozenset([head]))
                got = sorted(h for h, bbs in hcalls.items() if set(bbs) & r)
                ok = got == [H[v]]
                ctx.ob(R, "dispatch %s" % v, ok, "%s -> %s" % (v, H[v]) if ok else "a %s message reaches %s (expected exactly %s)" % (v, got, H[v]), f.loc())
    # after a handler, only its Internal error leaves the loop
    rets = set(cfg.returns())
    for h, bbs in sorted(hcalls.items()):
        e_int = []
        for bb in range(len(f.blocks)):
            si = T.switch_info(bb)
            if si and si[0][0] == "discr":
                for tb, ls in si[1].items():
                    if "Internal" in ls and len(ls) == 1:
                        e_int.append((bb, tb))
        for cb in bbs:
            r = cfg.reach_from([cb], avoid_blocks=frozenset([head]), avoid_edges=frozenset(e_int))
            bad = sorted(rets & r)
            if bad and e_int:
                # a result built by a spliced helper (Ok(label)) and re-tested by the caller's `?`: follow known values
                r = cfg.reach_from_sensitive([cb], avoid_blocks=frozenset([head]), avoid_edges=frozenset(e_int))
                bad = sorted(rets & r)
            if not e_int:
                ctx.note("C06.9 %s: no switch over the handler's error with an Internal arm in the loop body (error handling delegated) - not decided" % h)
                ctx.ob(R, "%s errors" % h, True, "undecided shape (not reported)", f.loc(f.blocks[cb]["t"].get("ln")))
                continue
            ctx.ob(R, "%s errors" % h, not bad and bool(e_int), "after %s the loop is left only through the Internal arm of its error" % h if not bad and e_int else
                   "after %s the replica loop can return for a non-internal outcome (a message that is merely rejected stops the replica)" % h, f.loc(f.blocks[cb]["t"].get("ln")))


from .c03 import rule_proposals_roundtrip   # a restarted replica must still hold the payloads it voted for (else the block cannot be built when its certificate forms)

RULES = [("C06.7", rule_payload_cache_retention), ("C03.10", rule_proposals_roundtrip), ("C06.1", rule_main_loop), ("C06.2", rule_timeout_starter), ("C06.3", rule_bootstrap), ("C06.4", rule_catch_up), ("C06.5", rule_view_starter), ("C06.6", rule_proposer), ("C06.8", rule_timer_writers), ("C06.9", rule_dispatch_and_errors), ("C06.10", rule_bounded_waits), ("C06.11", rule_saved_block_durable)]
