"""Reference terms of small pure anchor functions ("pins").

Many anchors of the properties are one-line accessors (`BlockStoreState::next`, `Last::number`, `View::next_view`,
`TimeoutQC::weight` ...) that the big rules treat as opaque calls with their documented meaning. This module pins that
meaning: for every function listed in tables/pins.json the values it can return are read from the current MIR as
canonical terms over its parameters, one per *row* (the conjunction of enum-variant / boolean tests that dominate the
return), and compared with the reviewed reference terms.

Three outcomes per function (policy of DESIGN 11.5c):
 * conforms            - the rows and their terms equal the reference;
 * definitely deviates - every returned term is *closed* (parameters, fields, constants, constructors, builtin
                         arithmetic, casts and calls of functions that occur in some reference term of the table) and
                         the row -> term map differs from the reference: reported;
 * strict pins         - plain lookups / projections (`strict` in the table): a closed term over ANY vocabulary that
                         differs from the reference is reported (there is no second way to write `map.get(key)`);
 * closed-world pins   - (`closed_world`) the function must be written in the reference form or one of the reviewed
                         alternative forms (`alt`, e.g. the explicit accumulation loop); every other shape is reported;
 * undecided           - a returned term goes through a multiply-assigned local, a closure that cannot be read, or a
                         function outside the table's vocabulary (a rewrite with other means): evidence note, no alarm.
A missing function fails closed (anchor gone), unless engine/aliases re-matched it.
Parameter names never matter (p1, p2 ...); Clone/Deref/borrow plumbing is transparent in terms already.
"""
from . import common
from engine.terms import subterms
from engine.guards import Inliner

_PLUMB = ("std::clone::Clone::clone", "std::option::Option::cloned", "std::option::Option::copied", "std::option::Option::as_ref",
          "std::convert::Into::into", "std::convert::From::from", "std::ops::Deref::deref", "std::borrow::Borrow::borrow",
          "std::convert::AsRef::as_ref", "std::sync::Arc::new", "std::iter::IntoIterator::into_iter")


_MAPS = ("std::option::Option::map", "std::result::Result::map", "std::iter::Iterator::map")


def _short(q):
    if q.startswith("<") and " as " in q and ">::" in q:
        ty, rest = q[1:].split(" as ", 1)
        tr, m = rest.rsplit(">::", 1)
        return "<%s as %s>::%s" % (ty.split("::")[-1], tr.split("::")[-1], m)
    p = q.split("::")
    return "::".join(p[-2:]) if len(p) > 1 else q


class Canon:
    """canonical printer: parameters by position, closures by their (inlined) return term"""

    def __init__(self, ctx, f):
        self.ctx = ctx
        self.f = f
        self.open = False      # a leaf that is not determined by the parameters was met
        self.calls = set()

    def c(self, t, depth=0):
        h = t[0]
        if depth > 40:
            self.open = True
            return "..."
        if h == "param":
            return "p%d" % t[1]
        if h == "upvar":
            self.open = True
            return "up:%s" % t[1]
        if h == "var":
            self.open = True
            return "var"
        if h == "field":
            return "%s.%s" % (self.c(t[1], depth + 1), t[2])
        if h == "downcast":
            return "(%s as %s)" % (self.c(t[1], depth + 1), t[2])
        if h == "index":
            return "%s[%s]" % (self.c(t[1], depth + 1), self.c(t[2], depth + 1))
        if h == "call":
            if t[1] in _PLUMB and len(t[2]) == 1:
                return self.c(t[2][0], depth + 1)
            if t[1].endswith(("FnOnce::call_once", "FnMut::call_mut", "Fn::call")) and len(t[2]) == 2 and t[2][0][0] == "closure" and depth < 12:
                a = t[2][1]
                args = list(a[1]) if a[0] == "tuple" else [a]
                body = Inliner(self.ctx).inline_closure(t[2][0], args)      # a closure applied on the spot is its body
                if body is not None:
                    return self.c(body, depth + 1)
            if not _is_std(t[1]) and depth < 12:
                body = _read_through(self.ctx, t[1], t[2])       # a crate-private helper is read through
                if body is not None:
                    return self.c(body, depth + 1)
            if t[1] == "std::option::Option::take" and len(t[2]) == 1:
                t = ("call", "std::mem::take", t[2])          # the same operation on an Option
            if t[1] in _MAPS and len(t[2]) == 2 and t[2][1][0] == "closure":
                # `x.map(|v| v)` / `x.map(|v| v.clone())` is x
                l = self.ctx.F.by_qname.get(t[2][1][1], [])
                if len(l) == 1:
                    body = Inliner(self.ctx).inline_closure(t[2][1], [("param", 100, "a0")])
                    while body is not None and body[0] == "call" and body[1] in _PLUMB and len(body[2]) == 1:
                        body = body[2][0]
                    if body == ("param", 100, "a0"):
                        return self.c(t[2][0], depth + 1)
            self.calls.add(t[1])
            return "%s(%s)" % (_short(t[1]), ", ".join(self.c(a, depth + 1) for a in t[2]))
        if h == "try":
            return "%s?" % self.c(t[1], depth + 1)
        if h == "residual":
            return "residual(%s)" % self.c(t[1], depth + 1)
        if h == "const":
            return str(t[1])
        if h == "cstr":
            return repr(t[1])
        if h in ("cdef", "cfn"):
            self.calls.add(t[1])
            return _short(t[1])
        if h == "cunit":
            return "()"
        if h == "bin":
            return "%s(%s, %s)" % (t[1], self.c(t[2], depth + 1), self.c(t[3], depth + 1))
        if h == "un":
            return "%s(%s)" % (t[1], self.c(t[2], depth + 1))
        if h == "cast":
            return "(%s as %s)" % (self.c(t[1], depth + 1), t[2])
        if h == "agg" and t[2] == "Some" and len(t[3]) == 1 and t[3][0][1][0] == "try" and t[1].endswith("Option"):
            return self.c(t[3][0][1][1], depth + 1)        # `Some(x?)` in a function returning Option is x
        if h == "agg" and t[2] == "Err":
            return "Err(_)"        # which error is reported is not part of the reference meaning
        if h == "agg":
            return "%s::%s{%s}" % (t[1].split("::")[-1], t[2], ", ".join("%s: %s" % (n, self.c(x, depth + 1)) for n, x in t[3]))
        if h in ("tuple", "array"):
            return "(%s)" % ", ".join(self.c(x, depth + 1) for x in t[1])
        if h == "closure":
            l = self.ctx.F.by_qname.get(t[1], [])
            if len(l) == 1:
                g = l[0]
                n = max(0, g.argc - 1)
                body = Inliner(self.ctx).inline_closure(t, [("param", 100 + i, "a%d" % i) for i in range(n)])
                if body is not None:
                    return "|%d| %s" % (n, self.c(body, depth + 1))
            self.open = True
            return "closure?"
        if h == "discr":
            return "discr(%s)" % self.c(t[1], depth + 1)
        if h == "await":
            return "%s.await" % self.c(t[1], depth + 1)
        self.open = True
        return str(h)


_PRIMS = ("u8", "u16", "u32", "u64", "u128", "usize", "i8", "i16", "i32", "i64", "i128", "isize", "bool", "char", "str", "[T]", "f32", "f64")
_ORDER_SELECT = ("range", "range_mut", "first", "last", "first_key_value", "last_key_value", "next_back", "nth", "nth_back", "rev", "skip", "skip_while", "take", "take_while",
                 "min", "max", "min_by", "max_by", "min_by_key", "max_by_key", "find", "find_map", "rfind", "position", "rposition", "binary_search", "binary_search_by",
                 "binary_search_by_key", "partition_point", "pop_first", "pop_last", "lower_bound", "upper_bound", "split_off", "truncate", "retain", "filter", "step_by",
                 "saturating_sub", "saturating_add", "wrapping_add", "wrapping_sub", "checked_rem", "rem_euclid", "clamp", "abs_diff")
_ARITH = {"Add": "Add", "AddWithOverflow": "Add", "AddUnchecked": "Add", "Sub": "Sub", "SubWithOverflow": "Sub", "SubUnchecked": "Sub", "Mul": "Mul", "MulWithOverflow": "Mul", "Div": "Div", "Rem": "Rem",
          "BitAnd": "BitAnd", "BitOr": "BitOr", "BitXor": "BitXor", "Shl": "Shl", "Shr": "Shr"}


def _read_through(ctx, q, args, pinned_ok=False):
    """the value of a call of a workspace function that is read through when terms / ingredients are compared: a crate-private helper
    (however many callers it has) or - for ingredients - a function that is itself a value pin (its meaning is fixed by its own
    reference: `with_timeout` written as `with_deadline(now + d)` instead of `child(now + d)`). Async callees are read from their
    coroutine body (parameters are its captures)."""
    g = ctx.F.by_qname.get(q, [])
    if len(g) != 1 or g[0].in_testonly():
        return None
    fn = g[0]
    tab = load()
    if q in tab:
        if not pinned_ok or "census" in tab[q]:
            return None
    elif fn.reach:
        return None
    if not fn.is_async:
        return Inliner(ctx).inline_fn(q, list(args))
    body = ctx.F.body_of(fn)
    if body is fn or len(body.blocks) > 80:
        return None
    rt = Inliner(ctx).ret_term(body)
    if rt is None:
        return None
    from engine.guards import subst
    vn = fn.var_names()
    m = {}
    for i, a in enumerate(args):
        n = vn.get(1 + i)
        if n is not None:
            m[("upvar", n)] = a
    return subst(rt, m)


def _is_std(q):
    h = q.lstrip("<&").split("::", 1)[0]
    return h in ("std", "core", "alloc") or h in _PRIMS or q.startswith(("<std::", "<core::", "<alloc::"))


class Skel:
    """the ingredients of a term that are NOT standard-library plumbing: calls of workspace / third-party functions,
    maximal field paths over the parameters, workspace constructors and their variants, arithmetic operators, and the
    constants that are direct operands of those. Two ways of writing the same accessor with different std APIs
    (`get(i)` vs a bounds check and `[i]`, `contains_key` vs `get().is_some()`, `match` vs `map_or`) have the same
    ingredients; a changed meaning (another field, a dropped `.next()`, another variant, `+ 1`) does not."""

    def __init__(self, ctx):
        self.ctx = ctx
        self.items = set()
        self.std = set()
        self.open = False

    def _const_operands(self, args):
        for a in args:
            if a[0] == "const":
                self.items.add("const:%s" % (a[1],))

    def walk(self, t, depth=0):
        if not isinstance(t, tuple) or not t or depth > 40:
            return
        h = t[0]
        if h == "param":
            self.items.add("param:p%d" % t[1])
        elif h in ("var", "upvar"):
            self.open = True
        elif h in ("field", "downcast"):
            names = []
            u = t
            while u[0] in ("field", "downcast") or (u[0] == "call" and u[1] in _PLUMB and len(u[2]) == 1):
                if u[0] == "field":
                    names.append(u[2])
                    u = u[1]
                elif u[0] == "downcast":
                    names.append("as " + u[2])
                    u = u[1]
                else:
                    u = u[2][0]
            if u[0] == "param":
                self.items.add("path:p%d.%s" % (u[1], ".".join(reversed(names))))
            else:
                for n in names:
                    if not n.startswith("as ") and not n.isdigit():
                        self.items.add("field:%s" % n)
                self.walk(u, depth + 1)
        elif h == "call":
            q = t[1]
            if q in _PLUMB and len(t[2]) == 1:
                self.walk(t[2][0], depth + 1)
                return
            if q.endswith(("FnOnce::call_once", "FnMut::call_mut", "Fn::call")) and len(t[2]) == 2 and t[2][0][0] == "closure" and depth < 12:
                a = t[2][1]
                body = Inliner(self.ctx).inline_closure(t[2][0], list(a[1]) if a[0] == "tuple" else [a])
                if body is not None:
                    self.walk(body, depth + 1)
                    return
            if q == "std::default::Default::default" or (not t[2] and q.rsplit("::", 1)[-1] in ("new", "default") and not _is_std(q)):
                self.items.add("fresh()")        # a no-argument constructor and Default::default() are the same ingredient
            elif _is_std(q):
                self.std.add(q.rsplit("::", 1)[-1])
            else:
                if depth < 8:
                    # a crate-private helper (however many callers it has) and a callee that is itself a value pin are read through:
                    # their ingredients are the caller's
                    body = _read_through(self.ctx, q, t[2], pinned_ok=True)
                    if body is not None:
                        sub = Skel(self.ctx)
                        sub.walk(body, depth + 1)
                        if sub.items - {i for i in sub.items if i.startswith(("param:", "path:"))} and not sub.open:
                            self.items |= sub.items
                            self.std |= sub.std
                            return
                        # nothing readable inside (it awaits / loops): the call itself is the ingredient
                self.items.add("call:%s" % _short(q))
                self._const_operands(t[2])
            for a in t[2]:
                self.walk(a, depth + 1)
        elif h in ("cdef", "cfn"):
            if not _is_std(t[1]):
                adts = self.ctx.F.adts
                par = t[1].rsplit("::", 1)[0]
                if t[1] in adts:          # a tuple-struct constructor used as a function (`.map(BlockNumber)`) builds the struct
                    self.items.add("agg:%s::%s" % (t[1].split("::")[-1], t[1].split("::")[-1]))
                elif par in adts and adts[par]["kind"] == "enum":
                    self.items.add("agg:%s::%s" % (par.split("::")[-1], t[1].split("::")[-1]))
                else:
                    self.items.add("call:%s" % _short(t[1]))      # a function handed to map / and_then is called
        elif h == "agg":
            if not (t[1].startswith(("std::option::Option", "std::result::Result", "std::ops::", "std::task::Poll")) or t[1] in ("tuple", "array")):
                self.items.add("agg:%s::%s" % (t[1].split("::")[-1], t[2]))
                self._const_operands([x for _, x in t[3]])
            elif t[1].startswith("std::ops::Range"):
                # a range value is a selection of part of a sequence (slicing, sub-range iteration): an ingredient with its constant bounds
                self.items.add("range:%s" % t[1].split("::")[-1])
                self._const_operands([x for _, x in t[3]])
            elif t[2] in ("Some", "Ok", "Err", "None"):
                self.items.add("wrap:%s" % t[2]) if t[2] in ("Err",) else None
            for _, x in t[3]:
                self.walk(x, depth + 1)
        elif h == "bin":
            if t[1] in _ARITH:
                self.items.add("bin:%s" % _ARITH[t[1]])
                self._const_operands([t[2], t[3]])
            self.walk(t[2], depth + 1)
            self.walk(t[3], depth + 1)
        elif h in ("un", "cast", "try", "residual", "discr", "await"):
            self.walk(t[2] if h == "un" else t[1], depth + 1)
        elif h in ("tuple", "array"):
            for x in t[1]:
                self.walk(x, depth + 1)
        elif h == "index":
            self.walk(t[1], depth + 1)
            self.walk(t[2], depth + 1)
        elif h == "closure":
            l = self.ctx.F.by_qname.get(t[1], [])
            body = None
            if len(l) == 1:
                n = max(0, l[0].argc - 1)
                body = Inliner(self.ctx).inline_closure(t, [("param", 100 + i, "a%d" % i) for i in range(n)])
            if body is None:
                self.open = True
            else:
                self.walk(body, depth + 1)
        elif h == "icall":
            self.walk(t[1], depth + 1)
            for a in t[2]:
                self.walk(a, depth + 1)


def _walk_fields(ctx, S, u, prefix):
    """ingredients of a returned value; for a workspace constructor they are recorded per field ("@<path>=<item>"), so that
    an ADDED field (a gauge, a copy of a parameter kept for Debug) is told apart from a changed one"""
    v = _unplumb(u) if u[0] == "call" else u
    if v[0] == "agg" and not (v[1].startswith(("std::option::Option", "std::result::Result", "std::ops::", "std::task::Poll")) or v[1] in ("tuple", "array")) and v[3]:
        S.items.add("agg:%s%s::%s" % (("@" + prefix) if prefix else "", v[1].split("::")[-1], v[2]))
        for n, x in v[3]:
            _walk_fields(ctx, S, x, prefix + str(n) + ".")
        return
    if not prefix:
        S.walk(u)
        return
    S2 = Skel(ctx)
    S2.walk(u)
    S.open = S.open or S2.open
    S.std |= S2.std
    tag = "@" + prefix.rstrip(".")
    if not S2.items:
        S.items.add(tag + "=")
    for it in S2.items:
        S.items.add("%s=%s" % (tag, it))


def _drop_added_fields(actual, ref):
    """items of fields the reference constructor does not have are not a deviation"""
    rf = set(x.split("=", 1)[0] for x in ref if x.startswith("@"))
    return set(x for x in actual if not (x.startswith("@") and "=" in x and x.split("=", 1)[0] not in rf and any(r.startswith("@") for r in ref)))


def _label_is_ws(sc):
    """a test that is about the meaning (a variant of a parameter path, or the outcome of a workspace call) rather than
    about how a std container is probed"""
    cs = [x[1] for x in subterms(sc) if x[0] == "call" and x[1] not in _PLUMB]
    if not cs:
        return True
    return any(not _is_std(q) for q in cs)


_CMP = {"lt": "<", "le": "<=", "gt": ">", "ge": ">=", "eq": "==", "ne": "!=", "Lt": "<", "Le": "<=", "Gt": ">", "Ge": ">=", "Eq": "==", "Ne": "!="}
_NEG = {"<": ">=", "<=": ">", ">": "<=", ">=": "<", "==": "!=", "!=": "=="}
_SWAP = {"<": ">", "<=": ">=", ">": "<", ">=": "<=", "==": "==", "!=": "!="}


def test_label(K, sc, labels):
    """canonical text of "the test sc took the edge labelled `labels`": negations folded into the truth value,
    comparisons written with their operands in lexicographic order (so `!(a <= b)`, `a > b` and `b < a` are one label)"""
    if len(labels) == 1 and isinstance(labels[0], bool):
        val = labels[0]
        while True:
            if sc[0] == "un" and sc[1] == "Not":
                sc, val = sc[2], not val
            elif sc[0] == "call" and sc[1].endswith("::not") and len(sc[2]) == 1:
                sc, val = sc[2][0], not val
            else:
                break
        op = None
        if sc[0] == "call" and len(sc[2]) == 2 and sc[1].rsplit("::", 1)[-1] in _CMP and ("PartialOrd" in sc[1] or "PartialEq" in sc[1] or "Ord::" in sc[1]):
            op, a, b = _CMP[sc[1].rsplit("::", 1)[-1]], sc[2][0], sc[2][1]
        elif sc[0] == "bin" and sc[1] in _CMP:
            op, a, b = _CMP[sc[1]], sc[2], sc[3]
        if op is not None:
            if not val:
                op = _NEG[op]
            ca, cb = K.c(a), K.c(b)
            if cb < ca:
                ca, cb, op = cb, ca, _SWAP[op]
            return "%s %s %s" % (ca, op, cb)
        return "%s%s" % ("" if val else "!", K.c(sc))
    return "%s=%s" % (K.c(sc), "|".join(str(x) for x in labels))


def _unplumb(t):
    while t[0] == "call" and t[1] in _PLUMB and len(t[2]) == 1:
        t = t[2][0]
    return t


def _split_option(ctx, t, depth=0):
    """`opt.map_or(d, |x| e)` / `opt.map(|x| e).unwrap_or(d)` / `opt.map_or_else(|| d, |x| e)` are the two rows of the
    `match opt { None => d, Some(x) => e }` they abbreviate: [( [(opt, "None")], d ), ( [(opt, "Some")], e[x := payload] )]"""
    t = _unplumb(t)
    opt = dflt = clos = None
    if t[0] == "call" and t[1] == "std::option::Option::map_or" and len(t[2]) == 3:
        opt, dflt, clos = t[2]
    elif t[0] == "call" and t[1] == "std::option::Option::unwrap_or" and len(t[2]) == 2:
        m = _unplumb(t[2][0])
        if m[0] == "call" and m[1] == "std::option::Option::map" and len(m[2]) == 2:
            opt, clos, dflt = m[2][0], m[2][1], t[2][1]
    elif t[0] == "call" and t[1] == "std::option::Option::map_or_else" and len(t[2]) == 3 and t[2][1][0] == "closure":
        d = Inliner(ctx).inline_closure(t[2][1], [])
        if d is not None:
            opt, dflt, clos = t[2][0], d, t[2][2]
    if opt is None or clos is None or clos[0] != "closure" or depth > 3:
        return [([], t)]
    opt = _unplumb(opt)
    body = Inliner(ctx).inline_closure(clos, [("field", ("downcast", opt, "Some"), "0")])
    if body is None:
        return [([], t)]
    out = [([(opt, "None")] + e, u) for e, u in _split_option(ctx, dflt, depth + 1)]
    out += [([(opt, "Some")] + e, u) for e, u in _split_option(ctx, body, depth + 1)]
    return out


def rows_of(ctx, f):
    """{row label: set(canonical term)}, open?, calls - over every non-propagating value stored into the return place"""
    T = ctx.T(f)
    cfg = ctx.cfg(f, with_cancel=False)
    K = Canon(ctx, f)
    sw = []
    for bb in range(len(f.blocks)):
        si = T.switch_info(bb)
        if si is not None and cfg.reachable[bb]:
            sw.append((bb, si))
    out = {}
    skel = {}
    stdcalls = set()
    sk_open = False
    is_bool = f.locals[0].s == "bool"
    for bb, t in common.ret_values(ctx, f):
        if not cfg.reachable[bb]:
            continue
        if t[0] == "call" and t[1] == "std::ops::FromResidual::from_residual":
            continue        # `?` propagation: the failure of the tested operand, not a value of this function
        labs = []
        wslabs = []
        for sb, (scrut, edges) in sw:
            if sb == bb:
                continue
            took = [(tgt, ls) for tgt, ls in edges.items() if cfg.edge_dominates(sb, tgt, bb)]
            if len(took) == 1:
                sc = scrut
                if sc[0] == "discr":
                    sc = sc[1]
                if sc[0] == "call" and sc[1] == "std::ops::Try::branch":
                    continue        # the success edge of a `?` - already visible as `x?` in the term
                labs.append(test_label(K, sc, took[0][1]))
                if _label_is_ws(sc):
                    pure = not any(x[0] == "call" and x[1] not in _PLUMB for x in subterms(sc))
                    wslabs.append((labs[-1], pure, sc))
                else:
                    S0 = Skel(ctx)
                    S0.walk(sc)
                    stdcalls |= S0.std
        for extra, u in _split_option(ctx, t):
            ls = labs + [K.c(x) + "=" + v for x, v in extra]
            S1 = Skel(ctx)
            _walk_fields(ctx, S1, u, "")
            ex = [(K.c(x) + "=" + v, not any(y[0] == "call" and y[1] not in _PLUMB for y in subterms(x)), x) for x, v in extra if _label_is_ws(x)]
            wkey = " & ".join(sorted(l for l, pure, _ in wslabs + ex if pure))
            conds = sorted(l for l, pure, _ in wslabs + ex if not pure)
            for _, pure, sc_ in wslabs + ex:
                if not pure:
                    S1.walk(sc_)
            its = skel.setdefault(wkey, set())
            if is_bool:
                S1.items -= {"const:0", "const:1"}
                if u[0] == "const":
                    its.add("when:%s -> %s" % (" & ".join(conds), u[1]))
                elif _label_is_ws(u):
                    its.add("when:%s -> 1" % " & ".join(sorted(conds + [test_label(K, u, [True])])))
                    its.add("when:%s -> 0" % " & ".join(sorted(conds + [test_label(K, u, [False])])))
            elif conds:
                its.add("when:%s" % " & ".join(conds))
            its.update(S1.items)
            stdcalls |= S1.std
            sk_open = sk_open or S1.open
            if is_bool and not (u[0] == "const"):
                # a bool function returning a test: the two rows of `if test { true } else { false }`
                out.setdefault(" & ".join(sorted(ls + [test_label(K, u, [True])])), set()).add("1")
                out.setdefault(" & ".join(sorted(ls + [test_label(K, u, [False])])), set()).add("0")
            else:
                out.setdefault(" & ".join(sorted(ls)), set()).add(K.c(u))
    rows_of.last = {"skeleton": {k: sorted(v) for k, v in skel.items()}, "std": sorted(stdcalls), "open": sk_open}
    return out, K.open, K.calls


def effects_of(ctx, f):
    """sorted canonical terms of the outermost calls the body makes on its normal paths (a call whose result only feeds
    another listed call is not repeated) - the observable effects of a unit-returning function"""
    T = ctx.T(f)
    cfg = ctx.cfg(f, with_cancel=False)
    K = Canon(ctx, f)
    out = []
    for bi, b in enumerate(f.blocks):
        t = b["t"]
        if not cfg.reachable[bi] or t["k"] != "call" or "decl" not in t["f"]:
            continue
        ct = T.call_term(t)
        if ct[0] == "call" and ct[1] in _PLUMB:
            continue
        out.append(K.c(ct))
    keep = [x for x in out if not any(x != y and x in y for y in out)]
    return sorted(keep), K.open, K.calls


def decl_order(ctx, q):
    """variant names (enum) or field names (struct) of the Self type of `<T as Trait>::m`, in declaration order"""
    if not q.startswith("<") or " as " not in q:
        return None
    a = ctx.F.adts.get(q[1:].split(" as ", 1)[0])
    if a is None:
        return None
    if a["kind"] == "enum":
        return [v["name"] for v in a["variants"]]
    vs = a.get("variants") or []
    return [fl["name"] for fl in vs[0]["fields"]] if vs else None


_CENSUS_IGNORE = ("tracing", "tracing_core", "vise", "std::fmt", "core::fmt", "alloc::fmt")


def census_of(ctx, f0):
    """non-std ingredients (calls of workspace / third-party functions with their constant operands, workspace constructors)
    of every call in a function and in the closures / coroutines nested in it; logging and metrics excluded"""
    items = set()
    st = [f0]
    seen = set()
    tab = load()
    through = set()
    while st:
        g = st.pop()
        if id(g) in seen:
            continue
        seen.add(id(g))
        st.extend(g.children)
        # crate-private, unpinned workspace callees belong to the primitive (an extracted helper, a moved loop)
        for c in ctx.T(g).calls():
            for rq in (c.get("rq"), c.get("q")):
                hs = ctx.F.by_qname.get(rq, []) if rq else []
                if not hs and rq and rq in getattr(ctx.F, "helpers", {}):
                    hs = [ctx.F.helpers[rq]]          # a helper the virtual inliner spliced away still has its own body
                if len(hs) == 1 and not hs[0].reach and not hs[0].in_testonly() and rq not in tab and len(seen) < 12:
                    through.add(_short(rq))
                    st.append(hs[0])
                    break
        T = ctx.T(g)
        SE = Skel(ctx)
        for b in g.blocks:
            t = b["t"]
            if t["k"] == "call" and "decl" in t["f"]:
                if t.get("exp") and str(t.get("exp")).startswith(_CENSUS_IGNORE):
                    continue
                try:
                    SE.walk(T.call_term(t))
                except Exception:
                    continue
        items |= {i for i in SE.items if i.startswith("call:") and not i.startswith("call:support::")}   # support:: = internals of tokio's select!
        for c in T.calls():
            rq = c.get("rq")
            if (rq and rq.startswith("<") and rq in ctx.F.by_qname and "::proto::" not in rq
                    and not any(x in rq for x in (" as std::clone::Clone>", " as std::fmt::", " as std::ops::Deref", " as std::ops::Drop>", " as std::default::Default>", " as std::future::", " as std::convert::"))):
                items.add("call:%s" % _short(rq))          # an operator / trait call resolved to a workspace impl
    items = {i for i in items if not (i.startswith("call:") and i[5:] in through)}

    return sorted(i for i in items if not i.split(":", 1)[1].startswith(("tracing", "level_filters::", "Span::", "Metrics", "Level", "Callsite", "DefaultCallsite", "ValueSet", "FieldSet", "Interest", "Event::", "Identifier", "Metadata", "Kind", "__macro", "Field::")))


import re as _re
_CMP_OK_CALLS = {"Ord::cmp", "PartialOrd::partial_cmp", "PartialEq::eq", "PartialEq::ne", "Option::Some", "Ordering::Equal", "Ordering::Less", "Ordering::Greater",
                 "Ordering::then", "Ordering::then_with", "Option::map", "intrinsics::discriminant_value"}


def _cmp_paths(rows):
    """for a comparison impl: the field paths of each operand in the order in which they are compared (rows ordered by the length of
    their condition = position in the chain; within a row by appearance), and the calls it makes"""
    order = {"1": [], "2": []}
    calls = set()
    for label, vals in sorted(rows.items(), key=lambda kv: (len(kv[0]), kv[0])):
        text = " ".join(sorted(vals)) + " " + label          # the value of a row is what is compared next; its condition repeats earlier fields
        for m in _re.finditer(r"\bp([12])((?:\.[A-Za-z_0-9]+|\.as [A-Za-z_0-9]+)*)", text):
            if m.group(2) and m.group(2) not in order[m.group(1)]:
                order[m.group(1)].append(m.group(2))
        calls.update(_re.findall(r"([A-Za-z_][A-Za-z_0-9]*::[A-Za-z_][A-Za-z_0-9]*)[({]", text))
        if _re.search(r"\[|Range|Wrapping|wrapping| as [iu]\d|WithOverflow|Shl|Shr|BitXor|BitAnd|BitOr", text):
            calls.add("<arithmetic / slicing>")
    return order, calls


def cmp_equivalent(rows, ref_rows, ordered=True):
    """another way of writing the same structural comparison: the same fields of both operands compared in the same order, and no call,
    arithmetic or slicing the reference does not have (tuple-of-fields comparison, explicit chain, then_with ...)"""
    o1, c1 = _cmp_paths(rows)
    o2, c2 = _cmp_paths(ref_rows)
    def prefixes_closed(o):
        # `p1.message.view` after `p1.message` adds nothing: keep maximal-information order of top-level fields
        return {k: [x for x in v] for k, v in o.items()}
    if not ordered:
        o1 = {k: sorted(v) for k, v in o1.items()}
        o2 = {k: sorted(v) for k, v in o2.items()}
    return o1 == o2 and o1["1"] == o1["2"] and bool(o1["1"]) and c1 <= (c2 | _CMP_OK_CALLS)


def resolve(ctx, q):
    """bodies of a pinned name; `name@T` selects, among several impls with one name (Sub<Duration> / Sub<Utc> for Utc), the one
    whose second parameter's type contains T"""
    base, _, sel = q.partition("@")
    fs = [g for g in ctx.F.by_qname.get(base, []) if not g.in_testonly()]
    if sel:
        fs = [g for g in fs if len(g.locals) > 2 and sel in g.locals[2].s]
    return fs


def load():
    return common.load_table("pins.json")


def vocabulary(table):
    v = set()
    for q, e in table.items():
        v.update(e.get("vocab", []))
    return v


def run(ctx, prop):
    """Check every pin of tables/pins.json that lists property `prop`."""
    table = load()
    mine = {q: e for q, e in table.items() if prop in e["props"]}
    R = "%s.P" % prop
    ctx.rule(R, "reference terms of the small pure anchor functions (tables/pins.json, %d functions for this property): per row of dominating variant / boolean tests the returned value, as a canonical term over the parameters, equals the reviewed reference; a different closed term over the same vocabulary is reported, any other shape is undecided" % len(mine))
    vocab = set()
    for e in table.values():
        vocab.update(e.get("calls", []))
    if not mine:
        ctx.note("%s: no pinned function is listed for this property" % R)
        return
    ctx.floor(R, "pinned functions", len(mine), 1)
    for q in sorted(mine):
        e = mine[q]
        fs = resolve(ctx, q)
        key = "pin %s" % (_short(q.partition("@")[0]) + (("@" + q.partition("@")[2]) if "@" in q else ""))
        if len(fs) != 1:
            h = getattr(ctx.F, "helpers", {}).get(q)
            if h is not None:
                fs = [h]
        if len(fs) != 1:
            # renamed? the unique sibling (same impl / module, not itself pinned) that has exactly the reference meaning
            parent = q.rsplit("::", 1)[0]
            ref0 = {k: set(v) for k, v in e["rows"].items()}
            cands = []
            for g in ctx.F.fns:
                if g.in_testonly() or g.kind not in ("fn", "method") or g.qname in table or g.qname.rsplit("::", 1)[0] != parent or len(g.blocks) > 80:
                    continue
                try:
                    r2, _, _ = rows_of(ctx, ctx.F.body_of(g))
                except Exception:
                    continue
                if "effects" in e:
                    r2["<effects>"] = set(effects_of(ctx, ctx.F.body_of(g))[0])
                    ref0["<effects>"] = set(e["effects"])
                if r2 == ref0:
                    cands.append(g)
            if len(cands) == 1:
                ctx.note("%s: %s is %s in this tree (same reference meaning)" % (R, q, cands[0].qname))
                ctx.ob(R, key, True, "renamed to %s; %s" % (cands[0].name, e["why"]), cands[0].loc())
            else:
                ctx.ob(R, key, False, "pinned function %s not found (anchor missing)" % q)
            continue
        if "census" in e:
            # a primitive whose result cannot be read as a term (it waits, loops or locks): pinned by its ingredients - every
            # workspace / third-party call the reviewed body makes (with constant operands) must still be made somewhere in it
            cur = set(census_of(ctx, fs[0]))
            ref_c = set(e["census"])
            for alt_c in e.get("census_alt", []):          # reviewed alternative ways of writing the primitive
                if cur == set(alt_c):
                    ref_c = set(alt_c)
            gone = sorted(ref_c - cur)
            came = sorted(cur - ref_c)
            msg = []
            if gone:
                msg.append("no longer makes the calls %s that its reviewed body makes" % gone)
            if came:
                msg.append("makes the new calls %s (a primitive this small has no room for a second way of doing its job: a fast path, a clamp or a second acquisition changes what its callers can rely on)" % came)
            ctx.ob(R, key, not msg, ("%s %s (%s)" % (_short(q), " and ".join(msg), e["why"])) if msg
                   else "%s: exactly the %d reviewed ingredients" % (e["why"], len(e["census"])), fs[0].loc())
            continue
        f = ctx.F.body_of(fs[0]) if hasattr(ctx.F, "body_of") else fs[0]
        rows, is_open, calls = rows_of(ctx, f)
        last = rows_of.last
        ref = {k: set(v) for k, v in e["rows"].items()}
        if "effects" in e and f.locals[0].s == "()":
            rows, ref, is_open, calls = {}, {}, False, set()      # a unit function is its effects
        if "effects" in e:
            eff, eo, ec = effects_of(ctx, f)
            rows["<effects>"] = set(eff)
            ref["<effects>"] = set(e["effects"])
            is_open = is_open or eo
            calls = calls | ec
        if "decl_order" in e:
            # a derived Ord / PartialOrd compares variants by declaration order and fields lexicographically in declaration order:
            # the order of the type's declaration is part of the meaning of the comparison
            cur = decl_order(ctx, q)
            if cur is not None and cur != e["decl_order"] and set(cur) == set(e["decl_order"]):
                ctx.ob(R, key, False, "%s: the declaration order of the compared type changed (%s -> %s); the derived ordering follows it (%s)" % (_short(q), e["decl_order"], cur, e["why"]), f.loc())
                continue
        if e.get("distinct"):
            # the meaning is injectivity (one value per row, no value shared by two rows), not the values themselves
            vals = {}
            bad = None
            for k, v in sorted(rows.items()):
                if k == "<effects>":
                    continue
                if len(v) != 1:
                    bad = "[%s] returns %d values" % (k, len(v))
                    break
                x = next(iter(v))
                if x in vals:
                    bad = "[%s] and [%s] both return %s" % (vals[x], k, x)
                    break
                vals[x] = k
            if bad or len(vals) < len(e["rows"]):
                ctx.ob(R, key, False, "%s must return a distinct value per case (%s): %s" % (_short(q), e["why"], bad or "%d cases, the reference has %d" % (len(vals), len(e["rows"]))), f.loc())
                continue
        alts = [ref] + [{k: set(v) for k, v in a.items()} for a in e.get("alt", [])]
        if rows in alts:
            ctx.ob(R, key, True, "%s: %s" % (e["why"], "; ".join("%s -> %s" % (k or "always", " | ".join(sorted(v))) for k, v in sorted(rows.items())))[:400], f.loc())
            continue
        if q.endswith(("std::cmp::Ord>::cmp", "std::cmp::PartialOrd>::partial_cmp", "std::cmp::PartialEq>::eq")) and not last["open"]:
            if any(cmp_equivalent({k: v for k, v in rows.items() if k != "<effects>"}, a, ordered=not q.endswith("PartialEq>::eq")) for a in alts[:1]):
                ctx.note("%s %s: written differently from the reference; the same fields of both operands are compared in the same order - accepted" % (R, _short(q)))
                ctx.ob(R, key, True, "same fields compared in the same order as the reference (%s)" % e["why"], f.loc())
                continue
        if e.get("closed_world") and rows:
            # a function whose every accepted way of writing it is listed (reference + reviewed alternatives): anything
            # else is reported - its meaning cannot be re-derived from an arbitrary rewrite, and everything that counts
            # weight / membership rests on it
            diff = ["[%s] returns %s" % (k or "always", " | ".join(sorted(v))[:200]) for k, v in sorted(rows.items()) if ref.get(k) != v]
            ctx.ob(R, key, False, "%s is written in none of its reviewed forms (%s): %s" % (_short(q), e["why"], "; ".join(diff)[:500]), f.loc())
            continue
        sk = dict(last["skeleton"])
        rsk = {k: list(v) for k, v in e.get("skeleton", {}).items()}
        if "effects" in e:
            SE = Skel(ctx)
            T = ctx.T(f)
            for b in f.blocks:
                if b["t"]["k"] == "call" and "decl" in b["t"]["f"]:
                    SE.walk(T.call_term(b["t"]))
            if f.locals[0].s == "()":
                sk = {}
                rsk = {}
            sk["<effects>"] = sorted(SE.items)
            rsk["<effects>"] = list(e.get("effects_skeleton", []))
            last = dict(last, open=last["open"] or SE.open, std=sorted(set(last["std"]) | SE.std))
        newsel = sorted(c for c in set(last["std"]) - set(e.get("std", [])) if c in _ORDER_SELECT)
        def _implicit(i):
            j = i.split("=", 1)[-1] if i.startswith("@") else i
            return j == "wrap:Err" or (j.startswith("when:") and _re.search(r"=(Ok|Err|Some|None|Ready|Pending)(\b|$)", j) is not None and not _re.search(r"(==|!=|<|>)", j.split("when:", 1)[1].split("=")[0]))
        sk = {k: [i for i in v if not _implicit(i)] for k, v in sk.items()}
        rsk = {k: [i for i in v if not _implicit(i)] for k, v in rsk.items()}
        sk = {k: sorted(_drop_added_fields(set(v), set(rsk.get(k, [])))) for k, v in sk.items()}
        same = {k: set(v) for k, v in sk.items()} == {k: set(v) for k, v in rsk.items()}
        if not same and (set(sk) != set(rsk) or (e.get("decided_only") and not q.startswith("<") or "MeteredStream" in q)):
            # the control flow was restructured (other rows): compare what the function is made of as a whole - calls, constructors,
            # constants, arithmetic, ranges and the parameter paths it reads
            def whole(d):
                return {j for j in (i.split("=", 1)[-1] if i.startswith("@") else i for v in d.values() for i in v) if j.startswith(("call:", "agg:", "const:", "bin:", "range:", "fresh"))}
            same = whole(sk) == whole(rsk)
        if same and not newsel:
            ctx.note("%s %s: written differently from the reference but with the same ingredients (std-level rewrite) - accepted" % (R, _short(q)))
            ctx.ob(R, key, True, "same ingredients as the reference (%s), another std-level form" % e["why"], f.loc())
            continue
        if last["open"] and not newsel:
            # unreadable in part - but when workspace calls of the reference are gone from the WHOLE function and other workspace
            # calls took their place, the value is computed from other ingredients (not a std-level rewrite, not an extraction)
            # (direct calls, not read through: the table records the callees of the reference rows by their full names)
            ref_calls = {"call:%s" % _short(c) for c in e.get("calls", []) if not _is_std(c)}
            cur_all = set(census_of(ctx, fs[0]))
            cur_rows = {"call:%s" % _short(c) for c in calls if not _is_std(c)}
            gone = sorted(c for c in ref_calls if c not in cur_all and c not in cur_rows)
            came = sorted(c for c in cur_rows if c not in ref_calls)
            if gone and came:
                ctx.ob(R, key, False, "%s deviates from its reference meaning (%s): the calls %s of the reference are gone from the function and %s are used instead" % (_short(q), e["why"], gone, came), f.loc())
                continue
            if e.get("decided_only"):
                # comparison / equality / hash of a key or order type, pass-through wrappers, signature checks: the reviewed meaning has a
                # readable one-expression form; an implementation with loops or accumulators is another function until shown otherwise
                ctx.ob(R, key, False, "%s cannot be read as its reference meaning (%s): it computes its result through mutable locals / a loop that the reviewed one-expression form does not have" % (_short(q), e["why"]), f.loc())
                continue
            ctx.note("%s %s: a returned value goes through a local or a closure that cannot be read - not decided" % (R, _short(q)))
            ctx.ob(R, key, True, "undecided shape (not reported)", f.loc())
            continue
        diff = []
        for k in sorted(set(sk) | set(rsk)):
            a_, r_ = set(sk.get(k, [])), set(rsk.get(k, []))
            if a_ != r_:
                diff.append("[%s] %s%s" % (k or "always", ("extra: %s " % sorted(a_ - r_)) if a_ - r_ else "", ("missing: %s" % sorted(r_ - a_)) if r_ - a_ else ""))
        if newsel:
            diff.append("selects by position / order with %s where the reference is an exact lookup / projection" % newsel)
        shown = "; ".join("[%s] returns %s" % (k or "always", " | ".join(sorted(v))[:160]) for k, v in sorted(rows.items()) if ref.get(k) != v)
        ctx.ob(R, key, False, "%s deviates from its reference meaning (%s): %s -- %s" % (_short(q), e["why"], "; ".join(diff)[:400], shown[:300]), f.loc())


RULES = [("P", lambda ctx: run(ctx, ctx.prop))]
