"""C10 guard obligations: a reviewed may-panic site whose table reason relies on a check made elsewhere is only safe
while that check is in place. The rules that pin those checks belong to other properties; they are run with C10 as
well, so that removing a guard is reported as a C10 violation even though the panic site itself did not change."""
from .c04 import rule_commit_qc_verify, rule_timeout_qc_verify, rule_add
from .c07 import rule_domain
from .c11 import rule_eligible_only, rule_frequency_zero
from .c12 import rule_pool_guard
from .c13 import rule_buffer
from .c14 import rule_frame_kind_dispatch, rule_casts, rule_permit_before_buffer
from .c16 import rule_replica_caches, rule_selection, rule_channel
from .c06 import rule_dispatch_and_errors

RULES = [
    # Signers::weight / bit operations assert equal lengths: every verify path checks signers.len() == schedule.len() first
    ("C04.1", rule_commit_qc_verify), ("C04.2", rule_timeout_qc_verify),
    # CommitQC::add / TimeoutQC::add cannot fail in the replica: membership, duplicate, signature checks precede them
    ("C04.3", rule_add), ("C16.5", rule_replica_caches),
    # leaders non-empty, weights > 0, total weight >= 1 (indexing and modulus in view_leader)
    ("C07.3", rule_domain), ("C11.2", rule_eligible_only), ("C11.5", rule_frequency_zero),
    # PoolWatch::remove decrements only what insert counted
    ("C12.5", rule_pool_guard),
    # bytes::Buffer slicing relies on begin <= end <= inner.len()
    ("C13.5", rule_buffer),
    # transient_stream::ReadStream::read_exact `unreachable!("Bad FrameKind")`; StreamId::new assertion
    ("C14.4", rule_frame_kind_dispatch), ("C14.8", rule_casts),
    # "never buffers more than its configured limits": every frame the mux queues for a stream (DATA and OPEN/CLOSE)
    # holds a read_frame_count permit, DATA additionally read_buffer_size permits of its size
    ("C14.1", rule_permit_before_buffer),
    # ... and the queue of consensus messages waiting for the replica is a plain VecDeque bounded ONLY by the selection
    # function (one pending message per validator and kind, whatever else the message claims - seed S6C10) and the
    # channel's keep / discard semantics
    ("C16.1", rule_selection), ("C16.4", rule_channel),
    # "either processes it or rejects it": a rejected consensus message must not end the replica task (the node would shut down)
    ("C06.9", rule_dispatch_and_errors),
]
