// Minimal JSON writer (no dependencies).
pub struct J {
    buf: String,
    // stack of "needs comma" flags
    stack: Vec<bool>,
    after_key: bool,
}

impl J {
    pub fn new() -> Self {
        J { buf: String::with_capacity(1024), stack: vec![false], after_key: false }
    }
    fn sep(&mut self) {
        if self.after_key {
            self.after_key = false;
            return;
        }
        if let Some(top) = self.stack.last_mut() {
            if *top {
                self.buf.push(',');
            }
            *top = true;
        }
    }
    pub fn obj_begin(&mut self) -> &mut Self {
        self.sep();
        self.buf.push('{');
        self.stack.push(false);
        self
    }
    pub fn obj_end(&mut self) -> &mut Self {
        self.stack.pop();
        self.buf.push('}');
        self
    }
    pub fn arr_begin(&mut self) -> &mut Self {
        self.sep();
        self.buf.push('[');
        self.stack.push(false);
        self
    }
    pub fn arr_end(&mut self) -> &mut Self {
        self.stack.pop();
        self.buf.push(']');
        self
    }
    pub fn key(&mut self, k: &str) -> &mut Self {
        self.sep();
        self.esc(k);
        self.buf.push(':');
        self.after_key = true;
        self
    }
    pub fn str(&mut self, s: &str) -> &mut Self {
        self.sep();
        self.esc(s);
        self
    }
    pub fn num(&mut self, n: i128) -> &mut Self {
        self.sep();
        self.buf.push_str(&n.to_string());
        self
    }
    pub fn bool(&mut self, b: bool) -> &mut Self {
        self.sep();
        self.buf.push_str(if b { "true" } else { "false" });
        self
    }
    pub fn raw(&mut self, s: &str) -> &mut Self {
        self.sep();
        self.buf.push_str(s);
        self
    }
    fn esc(&mut self, s: &str) {
        self.buf.push('"');
        for c in s.chars() {
            match c {
                '"' => self.buf.push_str("\\\""),
                '\\' => self.buf.push_str("\\\\"),
                '\n' => self.buf.push_str("\\n"),
                '\r' => self.buf.push_str("\\r"),
                '\t' => self.buf.push_str("\\t"),
                c if (c as u32) < 0x20 => self.buf.push_str(&format!("\\u{:04x}", c as u32)),
                c => self.buf.push(c),
            }
        }
        self.buf.push('"');
    }
    pub fn finish(self) -> String {
        self.buf
    }
}
