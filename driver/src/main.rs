// vp-driver: rustc_private driver that dumps a fact base (MIR as built, before borrowck and
// the coroutine transform, with resolved callees, typed places, ADTs, impls, constants and
// documented-panic information of external callees) as one JSON file per crate.
//
// Invoked through RUSTC_WORKSPACE_WRAPPER: argv = [driver, rustc, <rustc args...>].
// Environment: VP_FACTS_DIR (output directory; extraction is skipped when unset).
#![feature(rustc_private)]
#![allow(clippy::all)]

extern crate rustc_abi;
extern crate rustc_data_structures;
extern crate rustc_driver;
extern crate rustc_hir;
extern crate rustc_index;
extern crate rustc_interface;
extern crate rustc_middle;
extern crate rustc_session;
extern crate rustc_span;

mod json;

use json::J;
use rustc_data_structures::steal::Steal;
use rustc_driver::{Callbacks, Compilation};
use rustc_hir::def::DefKind;
use rustc_hir::def_id::{DefId, LocalDefId, LOCAL_CRATE};
use rustc_interface::interface;
use rustc_middle::mir::{self, *};
use rustc_middle::ty::print::{with_no_trimmed_paths, with_no_visible_paths, with_resolve_crate_name};
use rustc_middle::ty::{self, GenericArgsRef, Instance, InstanceKind, Ty, TyCtxt, TypingEnv};
use rustc_middle::util::Providers;
use rustc_session::Session;
use rustc_span::{ExpnKind, Span};
use std::collections::{BTreeMap, HashMap};
use std::sync::{Mutex, OnceLock};

type MirBuiltFn = for<'tcx> fn(TyCtxt<'tcx>, LocalDefId) -> &'tcx Steal<Body<'tcx>>;
static DEFAULT_MIR_BUILT: OnceLock<MirBuiltFn> = OnceLock::new();
static BODIES: Mutex<Vec<(LocalDefId, usize)>> = Mutex::new(Vec::new());

fn my_mir_built<'tcx>(tcx: TyCtxt<'tcx>, def: LocalDefId) -> &'tcx Steal<Body<'tcx>> {
    let r = (DEFAULT_MIR_BUILT.get().expect("default provider"))(tcx, def);
    let body: Body<'tcx> = r.borrow().clone();
    let ptr = Box::leak(Box::new(body)) as *const Body<'tcx> as usize;
    BODIES.lock().unwrap().push((def, ptr));
    r
}

fn override_queries(_sess: &Session, providers: &mut Providers) {
    let _ = DEFAULT_MIR_BUILT.set(providers.queries.mir_built);
    providers.queries.mir_built = my_mir_built;
}

struct Cb {
    out_dir: String,
}

impl Callbacks for Cb {
    fn config(&mut self, config: &mut interface::Config) {
        config.override_queries = Some(override_queries);
    }
    fn after_analysis<'tcx>(&mut self, _c: &interface::Compiler, tcx: TyCtxt<'tcx>) -> Compilation {
        let name = tcx.crate_name(LOCAL_CRATE).to_string();
        if name == "build_script_build" {
            return Compilation::Continue;
        }
        extract(tcx, &name, &self.out_dir);
        Compilation::Continue
    }
}

fn main() {
    let mut args: Vec<String> = std::env::args().collect();
    // RUSTC_WORKSPACE_WRAPPER passes the path of rustc as argv[1].
    if args.len() > 1 && (args[1].ends_with("rustc") || args[1].contains("/rustc")) {
        args.remove(1);
    }
    let out_dir = std::env::var("VP_FACTS_DIR").ok();
    let is_real = args.iter().any(|a| a.ends_with(".rs")) && !args.iter().any(|a| a == "--print" || a.starts_with("--print=") || a == "-vV");
    match (out_dir, is_real) {
        (Some(out_dir), true) => {
            let mut cb = Cb { out_dir };
            rustc_driver::run_compiler(&args, &mut cb);
        }
        _ => {
            struct Nop;
            impl Callbacks for Nop {}
            rustc_driver::run_compiler(&args, &mut Nop);
        }
    }
}

// ---------------------------------------------------------------------------------------

struct Cx<'tcx> {
    tcx: TyCtxt<'tcx>,
    types: HashMap<String, usize>,
    type_list: Vec<String>,
    items: HashMap<DefId, usize>,
    item_list: Vec<String>,
    extern_fns: Vec<DefId>,
    sm_files: HashMap<u32, String>,
}

fn path_of(tcx: TyCtxt<'_>, d: DefId) -> String {
    with_resolve_crate_name!(with_no_visible_paths!(with_no_trimmed_paths!(tcx.def_path_str(d))))
}
fn ty_str<'tcx>(t: Ty<'tcx>) -> String {
    with_resolve_crate_name!(with_no_visible_paths!(with_no_trimmed_paths!(t.to_string())))
}

impl<'tcx> Cx<'tcx> {
    fn ty(&mut self, t: Ty<'tcx>) -> usize {
        let s = ty_str(t);
        if let Some(i) = self.types.get(&s) {
            return *i;
        }
        let i = self.type_list.len();
        // head constructor (after peeling references / raw pointers / Box-less) for role matching
        let mut head = t;
        loop {
            match head.kind() {
                ty::Ref(_, inner, _) => head = *inner,
                ty::RawPtr(inner, _) => head = *inner,
                _ => break,
            }
        }
        let (hk, hd): (&str, Option<DefId>) = match head.kind() {
            ty::Adt(a, _) => ("adt", Some(a.did())),
            ty::Closure(d, _) => ("closure", Some(*d)),
            ty::Coroutine(d, _) => ("coroutine", Some(*d)),
            ty::CoroutineClosure(d, _) => ("coroutine_closure", Some(*d)),
            ty::FnDef(d, _) => ("fndef", Some(*d)),
            ty::Alias(..) => ("alias", None),
            ty::Param(_) => ("param", None),
            ty::Dynamic(..) => ("dyn", None),
            ty::Tuple(_) => ("tuple", None),
            ty::Slice(_) => ("slice", None),
            ty::Array(..) => ("array", None),
            ty::Str => ("str", None),
            ty::Bool => ("bool", None),
            ty::Int(_) | ty::Uint(_) => ("int", None),
            ty::FnPtr(..) => ("fnptr", None),
            ty::Never => ("never", None),
            _ => ("other", None),
        };
        let mut j = J::new();
        j.obj_begin();
        j.key("s").str(&s);
        j.key("hk").str(hk);
        if let Some(d) = hd {
            j.key("hd").str(&path_of(self.tcx, d));
        }
        // first-level generic args of ADT heads (for role matching: Sender<T>, Option<T>...)
        if let ty::Adt(_, args) = head.kind() {
            j.key("ha").arr_begin();
            for a in args.iter() {
                if let Some(t) = a.as_type() {
                    j.str(&ty_str(t));
                }
            }
            j.arr_end();
        }
        j.obj_end();
        self.types.insert(s, i);
        self.type_list.push(j.finish());
        i
    }

    fn item(&mut self, d: DefId) -> usize {
        if let Some(i) = self.items.get(&d) {
            return *i;
        }
        let tcx = self.tcx;
        let mut j = J::new();
        j.obj_begin();
        j.key("path").str(&path_of(tcx, d));
        j.key("crate").str(tcx.crate_name(d.krate).as_str());
        j.key("local").bool(d.is_local());
        let dk = tcx.def_kind(d);
        j.key("dk").str(&format!("{:?}", dk));
        if let Some(n) = tcx.opt_item_name(d) {
            j.key("name").str(n.as_str());
        }
        // closure owner chain
        if tcx.is_closure_like(d) {
            let root = tcx.typeck_root_def_id(d);
            j.key("root").str(&path_of(tcx, root));
            let ri = self.item(root);
            j.key("root_item").num(ri as i128);
        }
        if matches!(dk, DefKind::AssocFn | DefKind::AssocConst { .. } | DefKind::AssocTy) {
            let parent = tcx.parent(d);
            match tcx.def_kind(parent) {
                DefKind::Impl { of_trait } => {
                    let self_ty = tcx.type_of(parent).instantiate_identity().skip_norm_wip();
                    j.key("impl_self").str(&ty_str(self_ty));
                    if let ty::Adt(a, _) = self_ty.kind() {
                        j.key("impl_self_def").str(&path_of(tcx, a.did()));
                    }
                    if of_trait {
                        let tr = tcx.impl_trait_ref(parent).instantiate_identity().skip_norm_wip();
                        j.key("impl_trait").str(&path_of(tcx, tr.def_id));
                        j.key("impl_trait_full").str(&with_resolve_crate_name!(with_no_visible_paths!(with_no_trimmed_paths!(tr.to_string()))));
                    }
                }
                DefKind::Trait => {
                    j.key("trait").str(&path_of(tcx, parent));
                }
                _ => {}
            }
        }
        j.obj_end();
        let i = self.item_list.len();
        self.items.insert(d, i);
        self.item_list.push(j.finish());
        if !d.is_local() && matches!(dk, DefKind::Fn | DefKind::AssocFn) {
            self.extern_fns.push(d);
        }
        i
    }

    fn span(&mut self, j: &mut J, sp: Span) {
        let tcx = self.tcx;
        let sm = tcx.sess.source_map();
        // outermost call site (the user-written location)
        let mut macros: Vec<String> = Vec::new();
        let mut cur = sp;
        let mut guard = 0;
        while cur.from_expansion() && guard < 32 {
            let ed = cur.ctxt().outer_expn_data();
            match ed.kind {
                ExpnKind::Macro(mk, name) => {
                    let krate = ed.macro_def_id.map(|d| tcx.crate_name(d.krate).to_string()).unwrap_or_default();
                    macros.push(format!("{}:{}:{}", krate, mk.descr(), name));
                }
                ExpnKind::Desugaring(k) => macros.push(format!("desugar:{:?}", k)),
                ExpnKind::AstPass(k) => macros.push(format!("astpass:{:?}", k)),
                ExpnKind::Root => {}
            }
            cur = ed.call_site;
            guard += 1;
        }
        let lo = sm.lookup_char_pos(cur.lo());
        let _ = &mut self.sm_files;
        j.key("ln").num(lo.line as i128);
        if !macros.is_empty() {
            j.key("mac").arr_begin();
            for m in &macros {
                j.str(m);
            }
            j.arr_end();
        }
    }
}

fn extract<'tcx>(tcx: TyCtxt<'tcx>, crate_name: &str, out_dir: &str) {
    let mut cx = Cx {
        tcx,
        types: HashMap::new(),
        type_list: Vec::new(),
        items: HashMap::new(),
        item_list: Vec::new(),
        extern_fns: Vec::new(),
        sm_files: HashMap::new(),
    };
    // Force MIR construction of bodies no query has asked for yet (never the case after a
    // full analysis without incremental compilation, but cheap to guarantee).
    {
        let have: std::collections::HashSet<LocalDefId> = BODIES.lock().unwrap().iter().map(|x| x.0).collect();
        for def in tcx.hir_body_owners() {
            if matches!(tcx.def_kind(def), DefKind::Fn | DefKind::AssocFn | DefKind::Closure) && !have.contains(&def) {
                let _ = std::panic::catch_unwind(std::panic::AssertUnwindSafe(|| {
                    let _ = tcx.mir_built(def);
                }));
            }
        }
    }
    let bodies: HashMap<LocalDefId, usize> = BODIES.lock().unwrap().iter().cloned().collect();
    let mut j = J::new();
    j.obj_begin();
    j.key("crate").str(crate_name);
    j.key("tree_hash").str(&std::env::var("VP_TREE_HASH").unwrap_or_default());

    // ---- function bodies
    let mut missing: Vec<String> = Vec::new();
    let mut nbodies = 0usize;
    j.key("fns").arr_begin();
    for def in tcx.hir_body_owners() {
        let dk = tcx.def_kind(def);
        if !matches!(dk, DefKind::Fn | DefKind::AssocFn | DefKind::Closure) {
            continue;
        }
        let Some(ptr) = bodies.get(&def) else {
            missing.push(path_of(tcx, def.to_def_id()));
            continue;
        };
        let body: &Body<'tcx> = unsafe { &*(*ptr as *const Body<'tcx>) };
        dump_fn(&mut cx, &mut j, def, body);
        nbodies += 1;
    }
    j.arr_end();
    j.key("nbodies").num(nbodies as i128);
    j.key("missing").arr_begin();
    for m in &missing {
        j.str(m);
    }
    j.arr_end();

    // ---- ADTs, impls, consts, traits
    dump_items(&mut cx, &mut j);

    // ---- extern docs (documented panics)
    j.key("extern").arr_begin();
    let ext: Vec<DefId> = cx.extern_fns.iter().cloned().collect();
    for d in ext {
        let mut doc = String::new();
        for a in tcx.get_all_attrs(d) {
            if let Some((s, _)) = a.doc_str_and_fragment_kind() {
                doc.push_str(s.as_str());
                doc.push('\n');
            }
        }
        let has_panics_section = doc.lines().any(|l| {
            let t = l.trim();
            t.starts_with('#') && t.trim_start_matches('#').trim().to_lowercase().starts_with("panic")
        });
        let mentions = doc.to_lowercase().contains("panic");
        j.obj_begin();
        j.key("path").str(&path_of(tcx, d));
        j.key("crate").str(tcx.crate_name(d.krate).as_str());
        j.key("panics_section").bool(has_panics_section);
        j.key("mentions_panic").bool(mentions);
        if has_panics_section || mentions {
            // keep the relevant excerpt for review
            let mut ex = String::new();
            let mut on = false;
            for l in doc.lines() {
                let t = l.trim();
                if t.starts_with('#') {
                    on = t.trim_start_matches('#').trim().to_lowercase().starts_with("panic");
                    continue;
                }
                if on || t.to_lowercase().contains("panic") {
                    ex.push_str(t);
                    ex.push(' ');
                }
                if ex.len() > 400 {
                    break;
                }
            }
            j.key("excerpt").str(&ex);
        }
        j.obj_end();
    }
    j.arr_end();

    j.key("types").arr_begin();
    for t in &cx.type_list {
        j.raw(t);
    }
    j.arr_end();
    j.key("items").arr_begin();
    for t in &cx.item_list {
        j.raw(t);
    }
    j.arr_end();
    j.obj_end();

    let s = j.finish();
    let tmp = format!("{}/.{}.{}.tmp", out_dir, crate_name, std::process::id());
    let fin = format!("{}/{}.json", out_dir, crate_name);
    std::fs::create_dir_all(out_dir).expect("mkdir facts");
    std::fs::write(&tmp, s).expect("write facts");
    std::fs::rename(&tmp, &fin).expect("rename facts");
    if !missing.is_empty() {
        eprintln!("vp-driver: COVERAGE GAP in {}: {} bodies missing: {:?}", crate_name, missing.len(), &missing[..missing.len().min(5)]);
        std::process::exit(3);
    }
}

fn vis_str(tcx: TyCtxt<'_>, d: DefId) -> String {
    match tcx.visibility(d) {
        ty::Visibility::Public => "pub".to_string(),
        ty::Visibility::Restricted(m) => {
            if m.is_crate_root() {
                "crate".to_string()
            } else {
                format!("in:{}", path_of(tcx, m))
            }
        }
    }
}

fn dump_fn<'tcx>(cx: &mut Cx<'tcx>, j: &mut J, def: LocalDefId, body: &Body<'tcx>) {
    let tcx = cx.tcx;
    let did = def.to_def_id();
    let dk = tcx.def_kind(def);
    j.obj_begin();
    let it = cx.item(did);
    j.key("item").num(it as i128);
    j.key("path").str(&path_of(tcx, did));
    let kind = if dk == DefKind::Closure {
        if tcx.coroutine_kind(did).is_some() {
            "coroutine"
        } else {
            "closure"
        }
    } else if dk == DefKind::AssocFn {
        "method"
    } else {
        "fn"
    };
    j.key("kind").str(kind);
    if dk == DefKind::Closure {
        j.key("parent").str(&path_of(tcx, tcx.local_parent(def).to_def_id()));
    } else {
        j.key("vis").str(&vis_str(tcx, did));
        let ev = tcx.effective_visibilities(());
        j.key("reach").bool(ev.is_reachable(def));
        j.key("asyncness").bool(tcx.asyncness(did).is_async());
    }
    let sm = tcx.sess.source_map();
    let lo = sm.lookup_char_pos(body.span.lo());
    let hi = sm.lookup_char_pos(body.span.hi());
    j.key("file").str(&format!("{}", lo.file.name.prefer_local_unconditionally()));
    j.key("lo").num(lo.line as i128);
    j.key("hi").num(hi.line as i128);
    j.key("argc").num(body.arg_count as i128);
    // locals
    j.key("locals").arr_begin();
    for (_l, decl) in body.local_decls.iter_enumerated() {
        let t = cx.ty(decl.ty);
        j.num(t as i128);
    }
    j.arr_end();
    // user variables
    j.key("vars").arr_begin();
    for v in &body.var_debug_info {
        j.obj_begin();
        j.key("name").str(v.name.as_str());
        match &v.value {
            VarDebugInfoContents::Place(p) => {
                j.key("p");
                place(cx, j, body, p);
            }
            VarDebugInfoContents::Const(_) => {
                j.key("const").bool(true);
            }
        }
        if let Some(a) = v.argument_index {
            j.key("arg").num(a as i128);
        }
        j.obj_end();
    }
    j.arr_end();
    // closure captures
    if dk == DefKind::Closure {
        j.key("captures").arr_begin();
        for c in tcx.closure_captures(def) {
            j.obj_begin();
            j.key("name").str(c.to_symbol().as_str());
            let t = cx.ty(c.place.ty());
            j.key("t").num(t as i128);
            j.key("byref").bool(matches!(c.info.capture_kind, ty::UpvarCapture::ByRef(_)));
            j.obj_end();
        }
        j.arr_end();
    }
    let tenv = TypingEnv::post_analysis(tcx, did);
    j.key("blocks").arr_begin();
    for (_bb, data) in body.basic_blocks.iter_enumerated() {
        j.obj_begin();
        if data.is_cleanup {
            j.key("cleanup").bool(true);
        }
        j.key("s").arr_begin();
        for st in &data.statements {
            match &st.kind {
                StatementKind::Assign(b) => {
                    let (p, r) = &**b;
                    j.obj_begin();
                    j.key("k").str("assign");
                    j.key("p");
                    place(cx, j, body, p);
                    j.key("r");
                    rvalue(cx, j, body, tenv, r);
                    cx.span(j, st.source_info.span);
                    j.obj_end();
                }
                StatementKind::SetDiscriminant { place: p, variant_index } => {
                    j.obj_begin();
                    j.key("k").str("setdiscr");
                    j.key("p");
                    place(cx, j, body, p);
                    j.key("variant").num(variant_index.as_u32() as i128);
                    j.obj_end();
                }
                StatementKind::StorageDead(l) => {
                    j.obj_begin();
                    j.key("k").str("dead");
                    j.key("l").num(l.as_u32() as i128);
                    j.obj_end();
                }
                _ => {}
            }
        }
        j.arr_end();
        j.key("t");
        terminator(cx, j, body, tenv, data.terminator());
        j.obj_end();
    }
    j.arr_end();
    j.obj_end();
}

fn field_name<'tcx>(tcx: TyCtxt<'tcx>, base: mir::PlaceTy<'tcx>, f: rustc_abi::FieldIdx) -> (String, String) {
    match base.ty.kind() {
        ty::Adt(adt, _) => {
            let v = match base.variant_index {
                Some(v) => adt.variant(v),
                None => {
                    if adt.is_enum() {
                        return (format!("{}", f.as_u32()), path_of(tcx, adt.did()));
                    }
                    adt.non_enum_variant()
                }
            };
            let name = v.fields.get(f).map(|fd| fd.name.to_string()).unwrap_or_else(|| format!("{}", f.as_u32()));
            (name, path_of(tcx, adt.did()))
        }
        ty::Closure(d, _) | ty::Coroutine(d, _) | ty::CoroutineClosure(d, _) => {
            let name = if let Some(ld) = d.as_local() {
                tcx.closure_captures(ld).get(f.as_usize()).map(|c| c.to_symbol().to_string()).unwrap_or_else(|| format!("{}", f.as_u32()))
            } else {
                format!("{}", f.as_u32())
            };
            (name, format!("{{closure}}{}", path_of(tcx, *d)))
        }
        ty::Tuple(_) => (format!("{}", f.as_u32()), "(tuple)".to_string()),
        _ => (format!("{}", f.as_u32()), "?".to_string()),
    }
}

fn place<'tcx>(cx: &mut Cx<'tcx>, j: &mut J, body: &Body<'tcx>, p: &Place<'tcx>) {
    let tcx = cx.tcx;
    j.obj_begin();
    j.key("l").num(p.local.as_u32() as i128);
    let mut pty = mir::PlaceTy::from_ty(body.local_decls[p.local].ty);
    if !p.projection.is_empty() {
        j.key("pr").arr_begin();
        for elem in p.projection.iter() {
            match elem {
                ProjectionElem::Deref => {
                    j.str("*");
                }
                ProjectionElem::Field(f, _) => {
                    let (n, o) = field_name(tcx, pty, f);
                    j.obj_begin();
                    j.key("f").num(f.as_u32() as i128);
                    j.key("n").str(&n);
                    j.key("o").str(&o);
                    j.obj_end();
                }
                ProjectionElem::Index(l) => {
                    j.obj_begin();
                    j.key("i").num(l.as_u32() as i128);
                    j.obj_end();
                }
                ProjectionElem::ConstantIndex { offset, from_end, .. } => {
                    j.obj_begin();
                    j.key("ci").num(offset as i128);
                    j.key("fe").bool(from_end);
                    j.obj_end();
                }
                ProjectionElem::Subslice { from, to, from_end } => {
                    j.obj_begin();
                    j.key("sub").num(from as i128);
                    j.key("to").num(to as i128);
                    j.key("fe").bool(from_end);
                    j.obj_end();
                }
                ProjectionElem::Downcast(name, vi) => {
                    j.obj_begin();
                    let n = match name {
                        Some(s) => s.to_string(),
                        None => match pty.ty.kind() {
                            ty::Adt(a, _) => a.variant(vi).name.to_string(),
                            _ => format!("{}", vi.as_u32()),
                        },
                    };
                    j.key("d").str(&n);
                    j.key("vi").num(vi.as_u32() as i128);
                    j.obj_end();
                }
                ProjectionElem::OpaqueCast(_) => {
                    j.str("opaque");
                }
                ProjectionElem::UnwrapUnsafeBinder(_) => {
                    j.str("unwrap_binder");
                }
            }
            pty = pty.projection_ty(tcx, elem);
        }
        j.arr_end();
    }
    let t = cx.ty(pty.ty);
    j.key("t").num(t as i128);
    j.obj_end();
}

fn scalar_of<'tcx>(tcx: TyCtxt<'tcx>, tenv: TypingEnv<'tcx>, c: &mir::Const<'tcx>) -> Option<i128> {
    let ty = c.ty();
    if !(ty.is_integral() || ty.is_bool() || ty.is_char()) {
        return None;
    }
    let si = c.try_eval_scalar_int(tcx, tenv)?;
    let size = si.size();
    if ty.is_signed() {
        Some(si.to_int(size))
    } else {
        let u = si.to_uint(size);
        if u > i128::MAX as u128 {
            None
        } else {
            Some(u as i128)
        }
    }
}

fn fn_const<'tcx>(cx: &mut Cx<'tcx>, j: &mut J, d: DefId, args: GenericArgsRef<'tcx>) {
    let it = cx.item(d);
    j.key("fn").num(it as i128);
    j.key("ga").arr_begin();
    for a in args.iter() {
        if let Some(t) = a.as_type() {
            let ti = cx.ty(t);
            j.num(ti as i128);
        }
    }
    j.arr_end();
}

fn operand<'tcx>(cx: &mut Cx<'tcx>, j: &mut J, body: &Body<'tcx>, tenv: TypingEnv<'tcx>, o: &Operand<'tcx>) {
    let tcx = cx.tcx;
    j.obj_begin();
    match o {
        Operand::Copy(p) => {
            j.key("c");
            place(cx, j, body, p);
        }
        Operand::Move(p) => {
            j.key("m");
            place(cx, j, body, p);
        }
        Operand::Constant(c) => {
            j.key("k").obj_begin();
            let ty = c.const_.ty();
            let t = cx.ty(ty);
            j.key("t").num(t as i128);
            match ty.kind() {
                ty::FnDef(d, args) => {
                    fn_const(cx, j, *d, args);
                }
                _ => {
                    if let Some(v) = scalar_of(tcx, tenv, &c.const_) {
                        j.key("v").num(v);
                    }
                    if let mir::Const::Unevaluated(u, _) = c.const_ {
                        if u.promoted.is_none() {
                            j.key("def").str(&path_of(tcx, u.def));
                        } else {
                            j.key("promoted").bool(true);
                        }
                    }
                    if ty.is_str() || matches!(ty.kind(), ty::Ref(_, t, _) if t.is_str()) {
                        if let mir::Const::Val(v, _) = c.const_ {
                            if let Some(bytes) = v.try_get_slice_bytes_for_diagnostics(tcx) {
                                let s = String::from_utf8_lossy(bytes);
                                let s: String = s.chars().take(120).collect();
                                j.key("str").str(&s);
                            }
                        }
                    }
                }
            }
            j.obj_end();
        }
        Operand::RuntimeChecks(_) => {
            j.key("rt").bool(true);
        }
    }
    j.obj_end();
}

fn rvalue<'tcx>(cx: &mut Cx<'tcx>, j: &mut J, body: &Body<'tcx>, tenv: TypingEnv<'tcx>, r: &Rvalue<'tcx>) {
    let tcx = cx.tcx;
    j.obj_begin();
    match r {
        Rvalue::Use(o, _) => {
            j.key("k").str("use");
            j.key("o");
            operand(cx, j, body, tenv, o);
        }
        Rvalue::Repeat(o, n) => {
            j.key("k").str("repeat");
            j.key("o");
            operand(cx, j, body, tenv, o);
            j.key("n").str(&format!("{}", n));
        }
        Rvalue::Ref(_, bk, p) => {
            j.key("k").str("ref");
            j.key("bk").str(match bk {
                BorrowKind::Shared => "shared",
                BorrowKind::Fake(_) => "fake",
                BorrowKind::Mut { .. } => "mut",
            });
            j.key("p");
            place(cx, j, body, p);
        }
        Rvalue::ThreadLocalRef(d) => {
            j.key("k").str("tls");
            j.key("def").str(&path_of(tcx, *d));
        }
        Rvalue::RawPtr(k, p) => {
            j.key("k").str("rawptr");
            j.key("mut").bool(matches!(k, RawPtrKind::Mut));
            j.key("p");
            place(cx, j, body, p);
        }
        Rvalue::Cast(ck, o, t) => {
            j.key("k").str("cast");
            j.key("ck").str(&format!("{:?}", ck).split('(').next().unwrap_or("").to_string());
            j.key("ckd").str(&format!("{:?}", ck));
            j.key("o");
            operand(cx, j, body, tenv, o);
            let from = o.ty(&body.local_decls, tcx);
            let fi = cx.ty(from);
            let ti = cx.ty(*t);
            j.key("from").num(fi as i128);
            j.key("to").num(ti as i128);
        }
        Rvalue::BinaryOp(op, b) => {
            j.key("k").str("bin");
            j.key("op").str(&format!("{:?}", op));
            j.key("a");
            operand(cx, j, body, tenv, &b.0);
            j.key("b");
            operand(cx, j, body, tenv, &b.1);
        }
        Rvalue::UnaryOp(op, o) => {
            j.key("k").str("un");
            j.key("op").str(&format!("{:?}", op));
            j.key("a");
            operand(cx, j, body, tenv, o);
        }
        Rvalue::Discriminant(p) => {
            j.key("k").str("discr");
            j.key("p");
            place(cx, j, body, p);
            let pt = p.ty(&body.local_decls, tcx).ty;
            if let ty::Adt(adt, _) = pt.kind() {
                if adt.is_enum() {
                    j.key("adt").str(&path_of(tcx, adt.did()));
                    j.key("variants").arr_begin();
                    for (vi, d) in adt.discriminants(tcx) {
                        j.arr_begin();
                        if d.val > i128::MAX as u128 {
                            j.str(&format!("{}", d.val));
                        } else {
                            j.num(d.val as i128);
                        }
                        j.str(adt.variant(vi).name.as_str());
                        j.arr_end();
                    }
                    j.arr_end();
                }
            }
        }
        Rvalue::Aggregate(ak, ops) => {
            j.key("k").str("agg");
            match &**ak {
                AggregateKind::Array(_) => {
                    j.key("ak").str("array");
                }
                AggregateKind::Tuple => {
                    j.key("ak").str("tuple");
                }
                AggregateKind::Adt(d, vi, _, _, active) => {
                    j.key("ak").str("adt");
                    j.key("def").str(&path_of(tcx, *d));
                    let adt = tcx.adt_def(*d);
                    let v = adt.variant(*vi);
                    j.key("variant").str(v.name.as_str());
                    j.key("vi").num(vi.as_u32() as i128);
                    j.key("fields").arr_begin();
                    if let Some(a) = active {
                        j.str(v.fields[*a].name.as_str());
                    } else {
                        for f in v.fields.iter() {
                            j.str(f.name.as_str());
                        }
                    }
                    j.arr_end();
                }
                AggregateKind::Closure(d, _) => {
                    j.key("ak").str("closure");
                    j.key("def").str(&path_of(tcx, *d));
                    let it = cx.item(*d);
                    j.key("item").num(it as i128);
                }
                AggregateKind::Coroutine(d, _) => {
                    j.key("ak").str("coroutine");
                    j.key("def").str(&path_of(tcx, *d));
                    let it = cx.item(*d);
                    j.key("item").num(it as i128);
                }
                AggregateKind::CoroutineClosure(d, _) => {
                    j.key("ak").str("coroutine_closure");
                    j.key("def").str(&path_of(tcx, *d));
                    let it = cx.item(*d);
                    j.key("item").num(it as i128);
                }
                AggregateKind::RawPtr(..) => {
                    j.key("ak").str("rawptr");
                }
            }
            j.key("ops").arr_begin();
            for o in ops.iter() {
                operand(cx, j, body, tenv, o);
            }
            j.arr_end();
        }
        Rvalue::CopyForDeref(p) => {
            j.key("k").str("copyderef");
            j.key("p");
            place(cx, j, body, p);
        }
        Rvalue::WrapUnsafeBinder(o, _) => {
            j.key("k").str("wrap_binder");
            j.key("o");
            operand(cx, j, body, tenv, o);
        }
    }
    j.obj_end();
}

fn callee<'tcx>(cx: &mut Cx<'tcx>, j: &mut J, body: &Body<'tcx>, tenv: TypingEnv<'tcx>, func: &Operand<'tcx>) {
    let tcx = cx.tcx;
    j.obj_begin();
    let fty = func.ty(&body.local_decls, tcx);
    match fty.kind() {
        ty::FnDef(d, args) => {
            let it = cx.item(*d);
            j.key("decl").num(it as i128);
            j.key("ga").arr_begin();
            for a in args.iter() {
                if let Some(t) = a.as_type() {
                    let ti = cx.ty(t);
                    j.num(ti as i128);
                }
            }
            j.arr_end();
            // resolution
            let args_e = tcx.erase_and_anonymize_regions(*args);
            let resolved = match tcx.try_normalize_erasing_regions(tenv, rustc_middle::ty::Unnormalized::new_wip(args_e)) {
                Ok(nargs) => std::panic::catch_unwind(std::panic::AssertUnwindSafe(|| Instance::try_resolve(tcx, tenv, *d, nargs))).ok().and_then(|r| r.ok()).flatten(),
                Err(_) => None,
            };
            match resolved {
                Some(inst) => {
                    let (rk, rd): (&str, Option<DefId>) = match inst.def {
                        InstanceKind::Item(d) => ("item", Some(d)),
                        InstanceKind::Intrinsic(d) => ("intrinsic", Some(d)),
                        InstanceKind::Virtual(d, _) => ("virtual", Some(d)),
                        InstanceKind::ClosureOnceShim { .. } => ("closure_once_shim", inst.args.get(0).and_then(|a| a.as_type()).and_then(|t| match t.kind() {
                            ty::Closure(d, _) => Some(*d),
                            _ => None,
                        })),
                        InstanceKind::FnPtrShim(d, _) => ("fnptr_shim", Some(d)),
                        InstanceKind::ReifyShim(d, _) => ("reify", Some(d)),
                        InstanceKind::VTableShim(d) => ("vtable_shim", Some(d)),
                        InstanceKind::DropGlue(d, _) => ("drop_glue", Some(d)),
                        InstanceKind::CloneShim(d, _) => ("clone_shim", Some(d)),
                        _ => ("other", None),
                    };
                    j.key("rk").str(rk);
                    if let Some(rd) = rd {
                        let ri = cx.item(rd);
                        j.key("res").num(ri as i128);
                    }
                    // self type of the resolved instance (first type arg) for trait calls
                    j.key("rga").arr_begin();
                    for a in inst.args.iter() {
                        if let Some(t) = a.as_type() {
                            let ti = cx.ty(t);
                            j.num(ti as i128);
                        }
                    }
                    j.arr_end();
                }
                None => {
                    j.key("rk").str("unresolved");
                }
            }
        }
        ty::FnPtr(..) => {
            j.key("indirect").str("fnptr");
            j.key("o");
            operand(cx, j, body, tenv, func);
        }
        _ => {
            j.key("indirect").str("other");
            j.key("o");
            operand(cx, j, body, tenv, func);
        }
    }
    j.obj_end();
}

fn terminator<'tcx>(cx: &mut Cx<'tcx>, j: &mut J, body: &Body<'tcx>, tenv: TypingEnv<'tcx>, t: &Terminator<'tcx>) {
    j.obj_begin();
    let bbn = |b: BasicBlock| b.as_u32() as i128;
    let unwind_bb = |u: &UnwindAction| match u {
        UnwindAction::Cleanup(b) => Some(b.as_u32() as i128),
        _ => None,
    };
    match &t.kind {
        TerminatorKind::Goto { target } => {
            j.key("k").str("goto");
            j.key("t").num(bbn(*target));
        }
        TerminatorKind::SwitchInt { discr, targets } => {
            j.key("k").str("switch");
            j.key("d");
            operand(cx, j, body, tenv, discr);
            j.key("vals").arr_begin();
            for (v, b) in targets.iter() {
                j.arr_begin();
                if v > i128::MAX as u128 {
                    j.str(&format!("{}", v));
                } else {
                    j.num(v as i128);
                }
                j.num(bbn(b));
                j.arr_end();
            }
            j.arr_end();
            j.key("else").num(bbn(targets.otherwise()));
        }
        TerminatorKind::UnwindResume => {
            j.key("k").str("resume");
        }
        TerminatorKind::UnwindTerminate(_) => {
            j.key("k").str("terminate");
        }
        TerminatorKind::Return => {
            j.key("k").str("return");
        }
        TerminatorKind::Unreachable => {
            j.key("k").str("unreachable");
        }
        TerminatorKind::Drop { place: p, target, unwind, .. } => {
            j.key("k").str("drop");
            j.key("p");
            place(cx, j, body, p);
            j.key("t").num(bbn(*target));
            if let Some(u) = unwind_bb(unwind) {
                j.key("u").num(u);
            }
        }
        TerminatorKind::Call { func, args, destination, target, unwind, fn_span, .. } => {
            j.key("k").str("call");
            j.key("f");
            callee(cx, j, body, tenv, func);
            j.key("args").arr_begin();
            for a in args.iter() {
                operand(cx, j, body, tenv, &a.node);
            }
            j.arr_end();
            j.key("dest");
            place(cx, j, body, destination);
            if let Some(b) = target {
                j.key("t").num(bbn(*b));
            }
            if let Some(u) = unwind_bb(unwind) {
                j.key("u").num(u);
            }
            let _ = fn_span;
        }
        TerminatorKind::TailCall { func, args, .. } => {
            j.key("k").str("tailcall");
            j.key("f");
            callee(cx, j, body, tenv, func);
            j.key("args").arr_begin();
            for a in args.iter() {
                operand(cx, j, body, tenv, &a.node);
            }
            j.arr_end();
        }
        TerminatorKind::Assert { cond, expected, msg, target, unwind } => {
            j.key("k").str("assert");
            j.key("cond");
            operand(cx, j, body, tenv, cond);
            j.key("exp").bool(*expected);
            j.key("msg").obj_begin();
            match &**msg {
                AssertKind::BoundsCheck { len, index } => {
                    j.key("k").str("BoundsCheck");
                    j.key("a");
                    operand(cx, j, body, tenv, len);
                    j.key("b");
                    operand(cx, j, body, tenv, index);
                }
                AssertKind::Overflow(op, a, b) => {
                    j.key("k").str("Overflow");
                    j.key("op").str(&format!("{:?}", op));
                    j.key("a");
                    operand(cx, j, body, tenv, a);
                    j.key("b");
                    operand(cx, j, body, tenv, b);
                }
                AssertKind::OverflowNeg(a) => {
                    j.key("k").str("OverflowNeg");
                    j.key("a");
                    operand(cx, j, body, tenv, a);
                }
                AssertKind::DivisionByZero(a) => {
                    j.key("k").str("DivisionByZero");
                    j.key("a");
                    operand(cx, j, body, tenv, a);
                }
                AssertKind::RemainderByZero(a) => {
                    j.key("k").str("RemainderByZero");
                    j.key("a");
                    operand(cx, j, body, tenv, a);
                }
                other => {
                    let s = format!("{:?}", other);
                    j.key("k").str(s.split(|c: char| !c.is_alphanumeric()).next().unwrap_or("Other"));
                }
            }
            j.obj_end();
            j.key("t").num(bbn(*target));
            if let Some(u) = unwind_bb(unwind) {
                j.key("u").num(u);
            }
        }
        TerminatorKind::Yield { value, resume, resume_arg, drop } => {
            j.key("k").str("yield");
            j.key("v");
            operand(cx, j, body, tenv, value);
            j.key("resume").num(bbn(*resume));
            j.key("ra");
            place(cx, j, body, resume_arg);
            if let Some(d) = drop {
                j.key("drop").num(bbn(*d));
            }
        }
        TerminatorKind::CoroutineDrop => {
            j.key("k").str("cdrop");
        }
        TerminatorKind::FalseEdge { real_target, imaginary_target } => {
            j.key("k").str("falseedge");
            j.key("t").num(bbn(*real_target));
            j.key("imag").num(bbn(*imaginary_target));
        }
        TerminatorKind::FalseUnwind { real_target, unwind } => {
            j.key("k").str("falseunwind");
            j.key("t").num(bbn(*real_target));
            if let Some(u) = unwind_bb(unwind) {
                j.key("u").num(u);
            }
        }
        TerminatorKind::InlineAsm { .. } => {
            j.key("k").str("asm");
        }
    }
    cx.span(j, t.source_info.span);
    j.obj_end();
}

fn dump_items<'tcx>(cx: &mut Cx<'tcx>, j: &mut J) {
    let tcx = cx.tcx;
    let items = tcx.hir_crate_items(());
    let ev = tcx.effective_visibilities(());
    let mut adts: Vec<LocalDefId> = Vec::new();
    let mut impls: Vec<LocalDefId> = Vec::new();
    let mut consts: Vec<LocalDefId> = Vec::new();
    let mut traits: Vec<LocalDefId> = Vec::new();
    let mut mods: Vec<LocalDefId> = Vec::new();
    for d in items.definitions() {
        match tcx.def_kind(d) {
            DefKind::Struct | DefKind::Enum | DefKind::Union => adts.push(d),
            DefKind::Impl { .. } => impls.push(d),
            DefKind::Const { .. } | DefKind::AssocConst { .. } | DefKind::Static { .. } => consts.push(d),
            DefKind::Trait => traits.push(d),
            DefKind::Mod => mods.push(d),
            _ => {}
        }
    }
    j.key("adts").arr_begin();
    for d in adts {
        let adt = tcx.adt_def(d.to_def_id());
        j.obj_begin();
        j.key("path").str(&path_of(tcx, d.to_def_id()));
        j.key("kind").str(if adt.is_enum() {
            "enum"
        } else if adt.is_union() {
            "union"
        } else {
            "struct"
        });
        j.key("vis").str(&vis_str(tcx, d.to_def_id()));
        j.key("reach").bool(ev.is_reachable(d));
        j.key("variants").arr_begin();
        for v in adt.variants().iter() {
            j.obj_begin();
            j.key("name").str(v.name.as_str());
            j.key("fields").arr_begin();
            for f in v.fields.iter() {
                j.obj_begin();
                j.key("name").str(f.name.as_str());
                let fty = tcx.type_of(f.did).instantiate_identity().skip_norm_wip();
                let ti = cx.ty(fty);
                j.key("t").num(ti as i128);
                j.key("vis").str(&match f.vis {
                    ty::Visibility::Public => "pub".to_string(),
                    ty::Visibility::Restricted(m) => {
                        if m.is_crate_root() {
                            "crate".to_string()
                        } else {
                            format!("in:{}", path_of(tcx, m))
                        }
                    }
                });
                j.obj_end();
            }
            j.arr_end();
            j.obj_end();
        }
        j.arr_end();
        j.obj_end();
    }
    j.arr_end();

    j.key("impls").arr_begin();
    for d in impls {
        let did = d.to_def_id();
        j.obj_begin();
        let self_ty = tcx.type_of(did).instantiate_identity().skip_norm_wip();
        j.key("self").str(&ty_str(self_ty));
        if let ty::Adt(a, _) = self_ty.kind() {
            j.key("self_def").str(&path_of(tcx, a.did()));
        }
        if let Some(tr) = tcx.impl_opt_trait_ref(did) {
            let tr = tr.instantiate_identity().skip_norm_wip();
            j.key("trait").str(&path_of(tcx, tr.def_id));
            j.key("trait_full").str(&with_resolve_crate_name!(with_no_visible_paths!(with_no_trimmed_paths!(tr.to_string()))));
        }
        j.key("module").str(&path_of(tcx, tcx.parent_module_from_def_id(d).to_def_id()));
        j.key("items").arr_begin();
        for ai in tcx.associated_items(did).in_definition_order() {
            j.obj_begin();
            j.key("name").str(ai.name().as_str());
            j.key("path").str(&path_of(tcx, ai.def_id));
            j.key("kind").str(&format!("{:?}", ai.kind).split(|c: char| !c.is_alphanumeric()).next().unwrap_or("").to_string());
            if let Some(t) = ai.trait_item_def_id() {
                j.key("trait_item").str(&path_of(tcx, t));
            }
            j.obj_end();
        }
        j.arr_end();
        j.obj_end();
    }
    j.arr_end();

    j.key("consts").arr_begin();
    for d in consts {
        let did = d.to_def_id();
        let dk = tcx.def_kind(d);
        j.obj_begin();
        j.key("path").str(&path_of(tcx, did));
        j.key("dk").str(&format!("{:?}", dk).split(|c: char| !c.is_alphanumeric()).next().unwrap_or("").to_string());
        let ty = tcx.type_of(did).instantiate_identity().skip_norm_wip();
        j.key("ty").str(&ty_str(ty));
        if matches!(dk, DefKind::AssocConst { .. }) {
            let parent = tcx.parent(did);
            if let DefKind::Impl { of_trait } = tcx.def_kind(parent) {
                let self_ty = tcx.type_of(parent).instantiate_identity().skip_norm_wip();
                j.key("impl_self").str(&ty_str(self_ty));
                if of_trait {
                    let tr = tcx.impl_trait_ref(parent).instantiate_identity().skip_norm_wip();
                    j.key("impl_trait").str(&path_of(tcx, tr.def_id));
                }
            }
        }
        let generic = tcx.generics_of(did).requires_monomorphization(tcx);
        if !generic && !matches!(dk, DefKind::Static { .. }) && (ty.is_integral() || ty.is_bool()) {
            if let Ok(v) = tcx.const_eval_poly(did) {
                if let Some(si) = v.try_to_scalar_int() {
                    let size = si.size();
                    if ty.is_signed() {
                        j.key("v").num(si.to_int(size));
                    } else {
                        let u = si.to_uint(size);
                        if u <= i128::MAX as u128 {
                            j.key("v").num(u as i128);
                        }
                    }
                }
            }
        }
        j.obj_end();
    }
    j.arr_end();

    j.key("traits").arr_begin();
    for d in traits {
        j.obj_begin();
        j.key("path").str(&path_of(tcx, d.to_def_id()));
        j.key("items").arr_begin();
        for ai in tcx.associated_items(d.to_def_id()).in_definition_order() {
            j.obj_begin();
            j.key("name").str(ai.name().as_str());
            j.key("path").str(&path_of(tcx, ai.def_id));
            j.key("has_default").bool(ai.defaultness(tcx).has_value());
            j.obj_end();
        }
        j.arr_end();
        j.obj_end();
    }
    j.arr_end();

    j.key("mods").arr_begin();
    for d in mods {
        j.obj_begin();
        j.key("path").str(&path_of(tcx, d.to_def_id()));
        j.key("vis").str(&vis_str(tcx, d.to_def_id()));
        j.key("reach").bool(ev.is_reachable(d));
        j.obj_end();
    }
    j.arr_end();
    let _ = BTreeMap::<u8, u8>::new();
}
