"""A5 — guard tables by finite abstraction.

A rule declares atoms (term patterns anchored on types and field names) and, for every valuation of
the atoms, the engine walks the CFG following at each SwitchInt only the edges consistent with the
valuation when the scrutinee is recognised, and all edges otherwise.  The set of valuations under
which a target is reachable is compared with the rule's expected table.
"""
import itertools
from .terms import Terms, subterms

CMP = {
    "std::cmp::PartialOrd::lt": "<", "std::cmp::PartialOrd::le": "<=", "std::cmp::PartialOrd::gt": ">",
    "std::cmp::PartialOrd::ge": ">=", "std::cmp::PartialEq::eq": "==", "std::cmp::PartialEq::ne": "!=",
}
BINCMP = {"Lt": "<", "Le": "<=", "Gt": ">", "Ge": ">=", "Eq": "==", "Ne": "!="}


def cmp_truth(op, val):
    """Truth of `a op b` given val in {"<","=",">","!="} for cmp(a,b); None if undetermined."""
    if val == "<":
        return {"<": True, "<=": True, ">": False, ">=": False, "==": False, "!=": True}[op]
    if val == ">":
        return {"<": False, "<=": False, ">": True, ">=": True, "==": False, "!=": True}[op]
    if val == "=":
        return {"<": False, "<=": True, ">": False, ">=": True, "==": True, "!=": False}[op]
    if val == "!=":
        return {"==": False, "!=": True}.get(op)
    return None


def some_payload(x):
    return ("field", ("downcast", x, "Some"), "0")


def flip(val):
    return {"<": ">", ">": "<"}.get(val, val)


class Atom:
    """kind: 'cmp' (match(a,b) -> 1/-1/0; values from {"<","=",">"} or {"=","!="}),
             'opt' (match(t) -> bool; values {"None","Some"}),
             'bool' (match(t) -> bool; values {True, False}),
             'enum' (match(t) -> bool; values = variant names).
    fields: names of self fields whose write kills the atom."""

    def __init__(self, name, kind, match, values, kills=()):
        self.name = name
        self.kind = kind
        self.match = match
        self.values = list(values)
        self.kills = set(kills)


def subst(t, mapping):
    if not isinstance(t, tuple):
        return t
    if t in mapping:
        return mapping[t]
    if t and isinstance(t[0], str):
        h = t[0]
        if h in ("param", "upvar", "var", "const", "cstr", "cdef", "cfn", "cunit", "cother"):
            return t
    return tuple(subst(x, mapping) if isinstance(x, tuple) else x for x in t)


class Inliner:
    """Return terms of small pure workspace fns and closures, with parameters/upvars substituted."""

    def __init__(self, ctx):
        self.ctx = ctx

    def ret_term(self, fn):
        T = self.ctx.T(fn)
        d = T.defs.get(0, [])
        if len(d) != 1 or 0 in T.partial:
            return None
        return T.local(0)

    def inline_closure(self, clos_term, args):
        """clos_term = ("closure", qname, captured ops); args = actual parameter terms (after env)."""
        F = self.ctx.F
        l = F.by_qname.get(clos_term[1], [])
        if len(l) != 1:
            return None
        fn = l[0]
        rt = self.ret_term(fn)
        if rt is None:
            return None
        m = {}
        for cap, op in zip(fn.captures, clos_term[2]):
            m[("upvar", cap["name"])] = op
        T = self.ctx.T(fn)
        for i, a in enumerate(args):
            m[T.local(2 + i)] = a
        return subst(rt, m)

    def inline_fn(self, qname, args):
        F = self.ctx.F
        l = F.by_qname.get(qname, [])
        if len(l) != 1:
            return None
        fn = l[0]
        if fn.kind not in ("fn", "method") or fn.is_async or len(fn.blocks) > 60:
            return None
        rt = self.ret_term(fn)
        if rt is None:
            return None
        T = self.ctx.T(fn)
        m = {}
        for i, a in enumerate(args):
            m[T.local(1 + i)] = a
        return subst(rt, m)


class Walker:
    def __init__(self, ctx, fn, atoms, self_adt=None, inline=True, atomic=None):
        self.ctx = ctx
        self.fn = fn
        self.T = ctx.T(fn)
        self.cfg = ctx.cfg(fn)
        self.atoms = atoms
        self.inl = Inliner(ctx)
        self.self_adt = self_adt
        self.atomic = atomic     # pred(qname): treat this inlined helper call as one opaque call term
        self.unrecognised = []   # (bb, scrutinee) switches nobody could evaluate (informational)
        self._kill_cache = {}

    # ------------------------------------------------------------ evaluation
    def atom_cmp(self, a, b):
        for at in self.atoms:
            if at.kind == "cmp":
                r = at.match(a, b)
                if r:
                    return at, r
        return None, 0

    # adapters that map None to None and Some to Some: the Option they return has the variant of their receiver
    SOMENESS_PRESERVING = ("std::option::Option::map", "std::option::Option::as_ref", "std::option::Option::as_mut", "std::option::Option::cloned",
                           "std::option::Option::copied", "std::option::Option::as_deref", "std::option::Option::inspect")

    # adapters that map Ok to Ok and Err to Err: `x.map_err(f)?` succeeds exactly when `x?` does
    OKNESS_PRESERVING = ("std::result::Result::map_err", "std::result::Result::map", "zksync_concurrency::error::Wrap::wrap", "zksync_concurrency::error::Wrap::with_wrap",
                         "anyhow::Context::context", "anyhow::Context::with_context", "std::result::Result::context", "std::result::Result::inspect_err", "std::result::Result::inspect")

    def atom_of(self, t, kinds):
        for at in self.atoms:
            if at.kind in kinds and at.match(t):
                return at
        if "opt" in kinds and t[0] == "call" and t[1] in self.SOMENESS_PRESERVING and t[2]:
            return self.atom_of(t[2][0], ("opt",))
        if "bool" in kinds and t[0] == "call" and t[1] in self.OKNESS_PRESERVING and t[2]:
            return self.atom_of(t[2][0], ("bool",))
        return None

    def truth(self, t, val, killed, depth=0, known=None):
        """True/False/None for a boolean term under valuation `val` (dict atom name -> value).
        `known`: values of multiply-assigned locals established on the walked path."""
        if depth > 8:
            return None
        h = t[0]
        if h == "var" and known is not None and t[1] in known and isinstance(known[t[1]], bool):
            return known[t[1]]
        if h == "const":
            return bool(t[1])
        if h == "un" and t[1] == "Not":
            r = self.truth(t[2], val, killed, depth + 1, known)
            return None if r is None else (not r)
        if h == "call" and t[1] == "anyhow::__private::not" and len(t[2]) == 1:
            r = self.truth(t[2][0], val, killed, depth + 1, known)
            return None if r is None else (not r)
        at = self.atom_of(t, ("bool",))
        if at is not None and at.name not in killed:
            return val[at.name]
        op = None
        if h == "call" and t[1] in CMP and len(t[2]) == 2:
            op, a, b = CMP[t[1]], t[2][0], t[2][1]
        elif h == "bin" and t[1] in BINCMP:
            op, a, b = BINCMP[t[1]], t[2], t[3]
        if op is not None:
            # ordering of two Options (None < Some(_); Some(x) vs Some(y) by payload)
            sa, sb = self._opt_side(a), self._opt_side(b)
            if sa is not None and sb is not None and sa[0].name not in killed and sb[0].name not in killed:
                va, vb = val[sa[0].name], val[sb[0].name]
                if va == "None" and vb == "None":
                    return cmp_truth(op, "=")
                if va == "None":
                    return cmp_truth(op, "<")
                if vb == "None":
                    return cmp_truth(op, ">")
                at2, ori2 = self.atom_cmp(sa[1], sb[1])
                if at2 is not None and at2.name not in killed:
                    v = val[at2.name]
                    if ori2 < 0:
                        v = flip(v)
                    return cmp_truth(op, v)
                return None
            at, ori = self.atom_cmp(a, b)
            if at is not None and at.name not in killed:
                v = val[at.name]
                if ori < 0:
                    v = flip(v)
                return cmp_truth(op, v)
            # comparison against an enum constant: x == Variant
            for x, y in ((a, b), (b, a)):
                if y[0] == "agg" and not y[3]:
                    ea = self.atom_of(x, ("enum",))
                    if ea is not None and ea.name not in killed and op in ("==", "!="):
                        r = (val[ea.name] == y[2])
                        return r if op == "==" else (not r)
            # Option ordering etc. not modelled
            # try inlining derived/simple comparison impls
            return None
        if h == "call":
            q, args = t[1], t[2]
            if q in ("std::option::Option::is_some", "std::option::Option::is_none", "std::result::Result::is_ok", "std::result::Result::is_err") and args[0][0] == "var" \
                    and known is not None and isinstance(known.get(args[0][1]), tuple):
                # the variant of a multiply-assigned local is known on this path (Ok(..)/Err(..)/`?` of an inlined helper)
                kv = known[args[0][1]][1]
                if kv in ("Ok", "Some"):
                    return q.endswith(("is_ok", "is_some"))
                if kv in ("Err", "None"):
                    return q.endswith(("is_err", "is_none"))
            if q in ("std::option::Option::is_some", "std::option::Option::is_none"):
                at = self.atom_of(args[0], ("opt",))
                if at is not None and at.name not in killed:
                    r = val[at.name] == "Some"
                    return r if q.endswith("is_some") else (not r)
                return None
            if q in ("std::result::Result::is_ok", "std::result::Result::is_err"):
                at = self.atom_of(args[0], ("bool",))
                if at is not None and at.name not in killed:
                    r = val[at.name]
                    return r if q.endswith("is_ok") else (not r)
                return None
            if q in ("std::option::Option::is_none_or", "std::option::Option::is_some_and") and len(args) == 2:
                at = self.atom_of(args[0], ("opt",))
                if at is None or at.name in killed:
                    return None
                if val[at.name] == "None":
                    return q.endswith("is_none_or")
                if args[1][0] == "closure":
                    body = self.inl.inline_closure(args[1], [some_payload(args[0])])
                    if body is not None:
                        return self.truth(body, val, killed, depth + 1)
                return None
            if q == "std::option::Option::map_or" and len(args) == 3:
                at = self.atom_of(args[0], ("opt",))
                if at is None or at.name in killed:
                    return None
                if val[at.name] == "None":
                    return self.truth(args[1], val, killed, depth + 1)
                if args[2][0] == "closure":
                    body = self.inl.inline_closure(args[2], [some_payload(args[0])])
                    if body is not None:
                        return self.truth(body, val, killed, depth + 1)
                return None
            if q == "std::option::Option::unwrap_or" and len(args) == 2 and args[0][0] == "call" and args[0][1] == "std::option::Option::map":
                inner = args[0][2]
                at = self.atom_of(inner[0], ("opt",))
                if at is None or at.name in killed:
                    return None
                if val[at.name] == "None":
                    return self.truth(args[1], val, killed, depth + 1)
                if inner[1][0] == "closure":
                    body = self.inl.inline_closure(inner[1], [some_payload(inner[0])])
                    if body is not None:
                        return self.truth(body, val, killed, depth + 1)
                return None
            # small pure workspace fn returning bool
            body = self.inl.inline_fn(q, list(args))
            if body is not None and body != t:
                return self.truth(body, val, killed, depth + 1)
        return None

    def _opt_side(self, t):
        """(opt atom, payload term) for an Option-valued comparison operand: X or X.map(closure)"""
        if t[0] == "call" and t[1] == "std::option::Option::map" and len(t[2]) == 2:
            at = self.atom_of(t[2][0], ("opt",))
            if at is not None and t[2][1][0] == "closure":
                body = self.inl.inline_closure(t[2][1], [some_payload(t[2][0])])
                if body is not None:
                    return at, body
            return None
        at = self.atom_of(t, ("opt",))
        if at is not None:
            return at, some_payload(t)
        return None

    def edge_filter(self, bb, val, killed, known=None):
        """Targets of the switch at bb consistent with the valuation (None = all)."""
        si = self.T.switch_info(bb)
        if si is None:
            return None
        scrut, edges = si
        # boolean scrutinee
        labels = set(l for ls in edges.values() for l in ls)
        if labels <= {True, False}:
            r = self.truth(scrut, val, killed, 0, known)
            if r is None:
                self.unrecognised.append((bb, scrut))
                return None
            return [b for b, ls in edges.items() if r in ls]
        if scrut[0] == "discr":
            x = scrut[1]
            # a value whose variant is known on this path: an aggregate literal, or a local assigned one
            kx = x
            if kx[0] == "call" and kx[1] == "std::ops::Try::branch":
                kx = kx[2][0]
            kv = None
            if kx[0] == "agg" and kx[2] is not None:
                kv = kx[2]
            elif kx[0] == "var" and known is not None and isinstance(known.get(kx[1]), tuple):
                kv = known[kx[1]][1]
            elif kx[0] == "field" and kx[2] == "0" and kx[1][0] == "downcast" and kx[1][1][0] == "var" and known is not None:
                # payload of a known nested value: Poll::Ready(Err(..)) produced by `?` inside a poll function
                kn = known.get(kx[1][1][1])
                if isinstance(kn, tuple) and len(kn) >= 3 and kn[1] == kx[1][2]:
                    kv = kn[2]
            if kv is not None:
                if x is not kx:
                    kv = {"Ok": "Continue", "Some": "Continue", "Err": "Break", "None": "Break"}.get(kv, kv)
                tg = [b for b, ls in edges.items() if kv in ls]
                if tg:
                    return tg
            at = self.atom_of(x, ("opt", "enum"))
            if at is not None and at.name not in killed:
                v = val[at.name]
                tg = [b for b, ls in edges.items() if v in ls]
                if tg:
                    return tg
            if x[0] == "call" and x[1] in ("std::cmp::Ord::cmp",) and len(x[2]) == 2:
                a, ori = self.atom_cmp(x[2][0], x[2][1])
                if a is not None and a.name not in killed:
                    v = val[a.name]
                    if ori < 0:
                        v = flip(v)
                    lab = {"<": "Less", "=": "Equal", ">": "Greater"}.get(v)
                    tg = [b for b, ls in edges.items() if lab in ls]
                    if tg:
                        return tg
            # `?` on a bool-atom result (Ok/Continue = atom true)
            base = x
            if base[0] == "call" and base[1] == "std::ops::Try::branch":
                base = base[2][0]
            at = self.atom_of(base, ("bool",))
            if at is not None and at.name not in killed:
                ok = val[at.name]
                good = {"Continue", "Ok", "Some"}
                tg = [b for b, ls in edges.items() if (bool(good & set(ls)) == ok)]
                if tg:
                    return tg
            # `opt.ok_or_else(..)?` / `opt.context(..)?`: continues exactly when the Option atom is Some
            ob = base
            while ob[0] == "call" and ob[2] and (ob[1] in self.OKNESS_PRESERVING or ob[1] in ("std::option::Option::ok_or", "std::option::Option::ok_or_else", "std::option::Option::context", "std::option::Option::with_context")):
                ob = ob[2][0]
            if ob is not base or base is not x:
                at = self.atom_of(ob, ("opt",))
                if at is not None and at.name not in killed:
                    ok = val[at.name] == "Some"
                    good = {"Continue", "Ok", "Some"}
                    tg = [b for b, ls in edges.items() if (bool(good & set(ls)) == ok)]
                    if tg:
                        return tg
        # `match x { K => .., _ => .. }` on an integer: the same decision as `x == K`
        ints = [l for l in labels if isinstance(l, int) and not isinstance(l, bool)]
        if ints and scrut[0] != "discr":
            hit = None
            for k in ints:
                a, ori = self.atom_cmp(scrut, ("const", k))
                if a is None or a.name in killed:
                    continue
                v = val[a.name]
                if v in ("=", "=="):
                    return [b for b, ls in edges.items() if k in ls]
                hit = a
            if hit is not None and len(ints) == 1:
                return [b for b, ls in edges.items() if "else" in ls]
        self.unrecognised.append((bb, scrut))
        return None

    # ------------------------------------------------------------ kills
    def kills_in_block(self, bb):
        c = self._kill_cache.get(bb)
        if c is not None:
            return c
        ks = set()
        b = self.fn.blocks[bb]
        names = set()
        for s in b["s"]:
            if s["k"] == "assign":
                names |= written_fields(s["p"])
                r = s["r"]
                if r["k"] == "ref" and r["bk"] == "mut":
                    names |= written_fields(r["p"])
        for at in self.atoms:
            if at.kills & names:
                ks.add(at.name)
        self._kill_cache[bb] = ks
        return ks

    # ------------------------------------------------------------ walking
    def tested_vars(self):
        """multiply-assigned locals that some switch scrutinee (or a local feeding one by a whole move)
        depends on: only these are worth tracking along a path."""
        tv = getattr(self, "_tested", None)
        if tv is not None:
            return tv
        tv = set()
        for bb in range(len(self.fn.blocks)):
            si = self.T.switch_info(bb)
            if si is None:
                continue
            for x in subterms(si[0]):
                if x[0] == "var":
                    tv.add(x[1])
        # values moved whole into a tested local
        changed = True
        while changed:
            changed = False
            for b in self.fn.blocks:
                for s in b["s"]:
                    if s["k"] == "assign" and not s["p"].get("pr") and s["p"]["l"] in tv and s["r"]["k"] in ("use", "un"):
                        # `x = y` or `x = !y` (the value of `matches!` negated into a flag)
                        oo = s["r"]["o"] if s["r"]["k"] == "use" else s["r"]["a"]
                        pl = oo.get("m") or oo.get("c")
                        if pl is not None and not pl.get("pr") and pl["l"] not in tv and len(self.T.defs.get(pl["l"], ())) >= 2:
                            tv.add(pl["l"])
                            changed = True
        self._tested = tv
        return tv

    def _known_after(self, bb, val, killed, known):
        """Update the path-known values of locals with the assignments of block bb."""
        b = self.fn.blocks[bb]
        if not b["s"]:
            return known
        k = dict(known)
        multi = self.T.defs
        tv = self.tested_vars()
        for s in b["s"]:
            if s["k"] != "assign" or s["p"].get("pr"):
                continue
            l = s["p"]["l"]
            if l not in tv or len(multi.get(l, ())) < 2:
                continue
            r = s["r"]
            v = None
            if r["k"] == "use":
                o = r["o"]
                if "k" in o and "v" in o["k"] and self.fn.locals[l].hk == "bool":
                    v = bool(o["k"]["v"])
                else:
                    pl = o.get("c") or o.get("m")
                    if pl is not None and not pl.get("pr") and pl["l"] in k:
                        v = k[pl["l"]]
                    elif self.fn.locals[l].hk == "bool":
                        v = self.truth(self.T.operand(o), val, killed, 0, k)
            elif r["k"] == "agg" and r["ak"] == "adt" and r.get("def") in ("std::result::Result", "std::option::Option", "std::task::Poll", "std::ops::ControlFlow"):
                v = ("V", r["variant"])
            elif self.fn.locals[l].hk == "bool":
                v = self.truth(self.T.rvalue(r), val, killed, 0, k)
            if v is None:
                k.pop(l, None)
            else:
                k[l] = v
        return k

    def reachable(self, val, start=0, avoid=frozenset(), avoid_edges=frozenset()):
        """Blocks reachable from `start` under the valuation (never entering blocks in `avoid`,
        never taking an edge in `avoid_edges`)."""
        seen = set()
        st = [(start, frozenset(), ())]
        seen.add((start, frozenset(), ()))
        out = set([start])
        while st:
            bb, killed, kn = st.pop()
            k2 = killed | self.kills_in_block(bb)
            known = self._known_after(bb, val, k2, dict(kn))
            filt = self.edge_filter(bb, val, k2, known)
            t = self.fn.blocks[bb]["t"]
            if t["k"] == "call" and not t["dest"].get("pr"):
                known = dict(known)
                dl = t["dest"]["l"]
                v = None
                if dl not in self.tested_vars():
                    pass
                elif len(self.T.defs.get(dl, ())) >= 2 and self.fn.locals[dl].hk == "bool" and "decl" in t["f"]:
                    v = self.truth(self.T.call_term(t), val, k2, 0, known)
                if v is None and dl in self.tested_vars() and "decl" in t["f"] and len(self.T.defs.get(dl, ())) >= 2:
                    q = self.fn.callee(t)[0].qname
                    if q == "std::ops::FromResidual::from_residual":
                        v = ("V", "Ready", "Err") if self.fn.locals[dl].s.startswith("std::task::Poll<") else ("V", "Err")
                    elif q == "std::ops::Try::from_output":
                        v = ("V", "Ok")
                    elif self.fn.locals[dl].s.startswith("std::result::Result<"):
                        # the Result of a check that is an atom (`check(..).map_err(..)` returned from an inlined helper)
                        at = self.atom_of(self.T.call_term(t), ("bool",))
                        if at is not None and at.name not in k2:
                            v = ("V", "Ok" if val[at.name] else "Err")
                if v is None:
                    known.pop(dl, None)
                else:
                    known[dl] = v
            succ = self.cfg.succ[bb]
            if self.atomic is not None and t["k"] == "goto" and "inlined_call" in t and "cont" in t and self.atomic(t["inlined_call"]):
                # do not walk into the helper: its result is the opaque term call("inlined:<name>", args)
                term = ("call", "inlined:" + t["inlined_call"], tuple(self.T.operand(a) for a in t["args"]))
                at = self.atom_of(term, ("bool",))
                known = dict(known)
                dl = t["dest"]["l"]
                # the destination is defined by `dest = move <helper return place>`; terms resolve it to that place
                dls = {dl}
                rt = self.T.local(dl)
                if rt[0] == "var":
                    dls.add(rt[1])
                for x in dls:
                    if at is not None and at.name not in k2 and not t["dest"].get("pr"):
                        known[x] = val[at.name]
                    else:
                        known.pop(x, None)
                succ = [("goto", t["cont"])]
            kt = tuple(sorted(known.items(), key=lambda kv: kv[0]))
            for lab, tgt in succ:
                if filt is not None and tgt not in filt:
                    continue
                if tgt in avoid or (bb, tgt) in avoid_edges:
                    continue
                s = (tgt, frozenset(k2), kt)
                if s not in seen:
                    if len(seen) > 200000:
                        # state explosion guard: fall back to forgetting path knowledge
                        s = (tgt, frozenset(k2), ())
                        if s in seen:
                            continue
                    seen.add(s)
                    out.add(tgt)
                    st.append(s)
        return out

    def table(self, targets, start=0, avoid=frozenset()):
        """{valuation tuple: set(target names reachable)} over all valuations; targets: name -> set of blocks.
        With `avoid`, a target is reachable only along paths that do not pass the avoided blocks
        (used for 'must pass S before T' under a valuation)."""
        res = {}
        names = [a.name for a in self.atoms]
        for combo in itertools.product(*[a.values for a in self.atoms]):
            val = dict(zip(names, combo))
            r = self.reachable(val, start, frozenset(avoid))
            res[combo] = set(n for n, bbs in targets.items() if r & set(bbs))
        return names, res

    def table_ok(self, targets, ok_name="ok", start=0):
        """table() where the target `ok_name` also counts a *tail call*: a block whose call writes the function's
        Result return place directly (`check(..).map_err(..)` as the last expression). Such a return is a success
        under a valuation unless the call is a boolean atom valued false there."""
        from . import query as Q
        fn = self.fn
        rl = Q.ret_locals(fn)
        tails = []
        for bi, b in enumerate(fn.blocks):
            t = b["t"]
            if t["k"] == "call" and not t["dest"].get("pr") and t["dest"]["l"] in rl and "decl" in t["f"] and fn.locals[t["dest"]["l"]].s.startswith("std::result::Result<"):
                q = fn.callee(t)[0].qname
                if q in ("std::ops::FromResidual::from_residual",):
                    continue
                tails.append((bi, self.T.call_term(t)))
        tg = dict(targets)
        for i, (bi, ct) in enumerate(tails):
            tg["\0tail%d" % i] = [bi]
        names, res = self.table(tg, start)
        out = {}
        for combo, reach in res.items():
            val = dict(zip(names, combo))
            r = set(x for x in reach if not x.startswith("\0tail"))
            for i, (bi, ct) in enumerate(tails):
                if "\0tail%d" % i in reach:
                    at = self.atom_of(ct, ("bool",))
                    if at is None or val[at.name]:
                        r.add(ok_name)
            out[combo] = r
        return names, out, [bi for bi, _ in tails]


def written_fields(p):
    """Names of fields on the access path of a written place."""
    return set(e["n"] for e in p.get("pr", []) if isinstance(e, dict) and "f" in e)


def field_path(t):
    """("field", ("field", base, a), b) -> (base, [a, b])"""
    path = []
    while t[0] in ("field", "downcast"):
        if t[0] == "field":
            path.append(t[2])
        t = t[1]
    return t, list(reversed(path))


def chain(t):
    """Access chain of a term: descends through fields, downcasts and unary method calls.
    field(call(CommitQC::view,(X,)), number) -> (root(X), [..., "view()", "number"])"""
    names = []
    while True:
        if t[0] == "field":
            names.append(t[2])
            t = t[1]
        elif t[0] == "downcast":
            names.append("as " + t[2])
            t = t[1]
        elif t[0] == "call" and len(t[2]) == 1 and "::" in t[1]:
            names.append(t[1].rsplit("::", 1)[1] + "()")
            t = t[2][0]
        elif t[0] in ("try", "await"):
            t = t[1]
        else:
            break
    return t, list(reversed(names))
