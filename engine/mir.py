"""MIR helpers: CFG edges, dominators, pretty printing."""


def place_str(p, fn=None):
    s = "_%d" % p["l"]
    if fn is not None:
        n = fn.var_names().get(p["l"])
        if n:
            s = "%s/*%s*/" % (s, n)
    for e in p.get("pr", []):
        if e == "*":
            s = "(*%s)" % s
        elif isinstance(e, str):
            s = "%s as %s" % (s, e)
        elif "f" in e:
            s = "%s.%s" % (s, e["n"])
        elif "d" in e:
            s = "(%s as %s)" % (s, e["d"])
        elif "i" in e:
            s = "%s[_%d]" % (s, e["i"])
        elif "ci" in e:
            s = "%s[%s%d]" % (s, "-" if e["fe"] else "", e["ci"])
        elif "sub" in e:
            s = "%s[%d..%s%d]" % (s, e["sub"], "-" if e["fe"] else "", e["to"])
    return s


def op_str(o, fn=None):
    if "c" in o:
        return place_str(o["c"], fn)
    if "m" in o:
        return "move " + place_str(o["m"], fn)
    if "k" in o:
        k = o["k"]
        if "fn" in k and fn is not None:
            return "fn(%s)" % fn.cr.items[k["fn"]].qname
        if "v" in k:
            return "const %s" % k["v"]
        if "str" in k:
            return "const %r" % k["str"]
        if "def" in k:
            return "const %s" % k["def"]
        return "const ?%s" % (fn.ty(k["t"]).s if fn is not None else "")
    return "rt"


def rv_str(r, fn=None):
    k = r["k"]
    if k == "use":
        return op_str(r["o"], fn)
    if k == "ref":
        return "&%s%s" % ("mut " if r["bk"] == "mut" else ("fake " if r["bk"] == "fake" else ""), place_str(r["p"], fn))
    if k == "rawptr":
        return "&raw %s" % place_str(r["p"], fn)
    if k == "bin":
        return "%s(%s, %s)" % (r["op"], op_str(r["a"], fn), op_str(r["b"], fn))
    if k == "un":
        return "%s(%s)" % (r["op"], op_str(r["a"], fn))
    if k == "cast":
        return "%s as %s [%s]" % (op_str(r["o"], fn), fn.ty(r["to"]).s if fn else r["to"], r["ck"])
    if k == "discr":
        return "discriminant(%s)" % place_str(r["p"], fn)
    if k == "agg":
        ops = ", ".join(op_str(o, fn) for o in r["ops"])
        if r["ak"] == "adt":
            fl = r.get("fields", [])
            if len(fl) == len(r["ops"]):
                ops = ", ".join("%s: %s" % (n, op_str(o, fn)) for n, o in zip(fl, r["ops"]))
            return "%s::%s{%s}" % (r["def"], r["variant"], ops)
        if r["ak"] in ("closure", "coroutine", "coroutine_closure"):
            return "%s[%s](%s)" % (r["ak"], r["def"].rsplit("::", 2)[-1] if False else r["def"], ops)
        return "%s(%s)" % (r["ak"], ops)
    if k == "copyderef":
        return "copy_deref(%s)" % place_str(r["p"], fn)
    if k == "repeat":
        return "[%s; %s]" % (op_str(r["o"], fn), r["n"])
    return k


def term_str(t, fn=None):
    k = t["k"]
    if k == "goto":
        return "goto bb%d" % t["t"]
    if k == "switch":
        return "switch %s [%s, else bb%d]" % (op_str(t["d"], fn), ", ".join("%s:bb%d" % (v, b) for v, b in t["vals"]), t["else"])
    if k == "call":
        f = t["f"]
        if "decl" in f and fn is not None:
            decl, res, rk = fn.callee(t)
            name = decl.qname
            if res is not None and res.qname != decl.qname:
                name = "%s => %s" % (decl.qname, res.qname)
            elif res is None:
                name = "%s [%s]" % (name, rk)
        else:
            name = "indirect(%s)" % (op_str(f["o"], fn) if "o" in f else "?")
        return "%s = %s(%s) -> %s" % (place_str(t["dest"], fn), name, ", ".join(op_str(a, fn) for a in t["args"]),
                                      "bb%d" % t["t"] if "t" in t else "!")
    if k == "assert":
        m = t["msg"]
        return "assert(%s == %s, %s) -> bb%d" % (op_str(t["cond"], fn), t["exp"], m["k"], t["t"])
    if k == "drop":
        return "drop(%s) -> bb%d" % (place_str(t["p"], fn), t["t"])
    if k == "yield":
        return "yield(%s) -> resume bb%d, drop %s" % (op_str(t["v"], fn), t["resume"], t.get("drop"))
    if k == "falseedge":
        return "falseedge -> bb%d (imag bb%d)" % (t["t"], t["imag"])
    if k == "falseunwind":
        return "falseunwind -> bb%d" % t["t"]
    return k


def dump_fn(fn, out):
    out.write("fn %s  [%s %s:%d-%d] argc=%d\n" % (fn.qname, fn.kind, fn.file, fn.lo, fn.hi, fn.argc))
    for i, t in enumerate(fn.locals):
        n = fn.var_names().get(i, "")
        out.write("  let _%d: %s  %s\n" % (i, t.s, n))
    for v in fn.vars:
        if v.get("p") and v["p"].get("pr"):
            out.write("  var %s = %s\n" % (v["name"], place_str(v["p"])))
    for i, b in enumerate(fn.blocks):
        out.write(" bb%d%s:\n" % (i, " (cleanup)" if b.get("cleanup") else ""))
        for s in b["s"]:
            if s["k"] == "assign":
                out.write("    %s = %s   // L%d %s\n" % (place_str(s["p"], fn), rv_str(s["r"], fn), s.get("ln", 0), (s.get("mac") or [""])[-1].split(":")[-1]))
            elif s["k"] == "setdiscr":
                out.write("    discr(%s) = %d\n" % (place_str(s["p"], fn), s["variant"]))
        t = b["t"]
        out.write("    %s   // L%d %s\n" % (term_str(t, fn), t.get("ln", 0), (t.get("mac") or [""])[-1].split(":")[-1]))


# -----------------------------------------------------------------------------------------
# CFG

def succs(t, real_only=True):
    """[(label, target)] of a terminator. Unwind/cleanup and imaginary edges are dropped when
    real_only (panic=abort makes unwind paths irrelevant; imaginary edges are not executable)."""
    k = t["k"]
    out = []
    if k == "goto":
        out.append(("goto", t["t"]))
    elif k == "switch":
        for v, b in t["vals"]:
            out.append((v, b))
        out.append(("else", t["else"]))
    elif k == "call":
        if "t" in t:
            out.append(("ret", t["t"]))
    elif k == "assert":
        out.append(("ok", t["t"]))
    elif k == "drop":
        out.append(("next", t["t"]))
    elif k == "yield":
        out.append(("resume", t["resume"]))
        if t.get("drop") is not None:
            out.append(("drop", t["drop"]))
    elif k == "falseedge":
        out.append(("real", t["t"]))
        if not real_only:
            out.append(("imag", t["imag"]))
    elif k == "falseunwind":
        out.append(("real", t["t"]))
    if not real_only and "u" in t:
        out.append(("unwind", t["u"]))
    return out


class CFG:
    """Per-body control-flow graph over real edges, with dominators and post-dominators.

    `drop_edges`: when False the `drop` out-edge of Yield (cancellation of the future at this
    await point) is removed — used when a rule reasons about paths that run to completion.
    """

    def __init__(self, fn, with_cancel=True):
        self.fn = fn
        n = len(fn.blocks)
        self.n = n
        self.succ = [[] for _ in range(n)]
        self.pred = [[] for _ in range(n)]
        for i, b in enumerate(fn.blocks):
            for lab, t in succs(b["t"]):
                if lab == "drop" and not with_cancel:
                    continue
                self.succ[i].append((lab, t))
                self.pred[t].append((lab, i))
        # reachable from entry
        seen = [False] * n
        st = [0]
        seen[0] = True
        order = []
        while st:
            x = st.pop()
            order.append(x)
            for _, y in self.succ[x]:
                if not seen[y]:
                    seen[y] = True
                    st.append(y)
        self.reachable = seen
        self._dom = None
        self._pdom = None

    def rpo(self):
        n = self.n
        seen = [False] * n
        post = []
        # iterative DFS
        st = [(0, iter([y for _, y in self.succ[0]]))]
        seen[0] = True
        while st:
            x, it = st[-1]
            adv = False
            for y in it:
                if not seen[y]:
                    seen[y] = True
                    st.append((y, iter([z for _, z in self.succ[y]])))
                    adv = True
                    break
            if not adv:
                post.append(x)
                st.pop()
        post.reverse()
        return post

    def dominators(self):
        """dom[b] = set of blocks dominating b (bitset as Python int)."""
        if self._dom is not None:
            return self._dom
        n = self.n
        full = (1 << n) - 1
        dom = [full] * n
        dom[0] = 1
        order = self.rpo()
        changed = True
        while changed:
            changed = False
            for b in order:
                if b == 0:
                    continue
                new = full
                for _, p in self.pred[b]:
                    if self.reachable[p]:
                        new &= dom[p]
                new |= (1 << b)
                if new != dom[b]:
                    dom[b] = new
                    changed = True
        self._dom = dom
        return dom

    def dominates(self, a, b):
        """block a dominates block b (every path entry->b passes a)."""
        return bool((self.dominators()[b] >> a) & 1)

    def edge_dominates(self, a, lab_target, b):
        """The edge a->lab_target dominates block b: every path from entry to b takes that edge.
        Implemented by removing the edge and testing reachability of b."""
        tgt = lab_target
        seen = set([0])
        st = [0]
        if b == 0:
            return False
        while st:
            x = st.pop()
            for _, y in self.succ[x]:
                if x == a and y == tgt:
                    continue
                if y not in seen:
                    if y == b:
                        return False
                    seen.add(y)
                    st.append(y)
        return True

    def reach_from(self, start_blocks, avoid_edges=frozenset(), avoid_blocks=frozenset()):
        seen = set()
        st = []
        for s in start_blocks:
            if s not in avoid_blocks and s not in seen:
                seen.add(s)
                st.append(s)
        while st:
            x = st.pop()
            for _, y in self.succ[x]:
                if (x, y) in avoid_edges or y in avoid_blocks:
                    continue
                if y not in seen:
                    seen.add(y)
                    st.append(y)
        return seen

    def reach_from_sensitive(self, start_blocks, avoid_blocks=frozenset(), avoid_edges=frozenset()):
        """Like reach_from, but pruning edges that contradict values known along the path (see must_pass)."""
        ctx = getattr(self, "_ctx", None)
        if ctx is None:
            return self.reach_from(start_blocks, avoid_edges=avoid_edges, avoid_blocks=avoid_blocks)
        from .guards import Walker
        w = self.__dict__.get("_walker")
        if w is None:
            w = Walker(ctx, self.fn, [])
            self.__dict__["_walker"] = w
        out = set()
        for s0 in start_blocks:
            if s0 in avoid_blocks:
                continue
            out |= w.reachable({}, s0, frozenset(avoid_blocks), frozenset(avoid_edges))
        return out

    def returns(self):
        return [i for i, b in enumerate(self.fn.blocks) if b["t"]["k"] == "return" and self.reachable[i]]

    def must_pass(self, target, via_edges):
        """Every entry->target path takes at least one of the edges in via_edges [(a,b)...].
        When the CFG was created through a check context the test is path-sensitive for values that
        are known along a path (a Result built as Err(..) / by `?` propagation and re-tested later, a
        bool assigned a constant): needed once helper bodies are spliced into their callers."""
        r = self.reach_from([0], avoid_edges=frozenset(via_edges))
        if target not in r:
            return True
        ctx = getattr(self, "_ctx", None)
        if ctx is None:
            return False
        from .guards import Walker
        w = self.__dict__.get("_walker")
        if w is None:
            w = Walker(ctx, self.fn, [])
            self.__dict__["_walker"] = w
        r2 = w.reachable({}, 0, frozenset(), frozenset(via_edges))
        return target not in r2

    def must_pass_blocks(self, target, via_blocks):
        """Every entry->target path passes one of via_blocks (path-sensitive like must_pass when a check context is attached)."""
        if target in via_blocks:
            return True
        r = self.reach_from([0], avoid_blocks=frozenset(via_blocks))
        if target not in r:
            return True
        if getattr(self, "_ctx", None) is None or 0 in via_blocks:
            return False
        r2 = self.reach_from_sensitive([0], avoid_blocks=frozenset(via_blocks))
        return target not in r2
