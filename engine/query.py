"""Rule-level queries: success edges, dominance by success, regions, field writes, may-write summaries."""
from .terms import strip, RESULT_ADAPTERS, subterms
from .guards import written_fields

GOOD = {"Continue", "Ok", "Some", "Ready"}


def outcome_base(scrut):
    """For a switch scrutinee: (base term whose outcome is tested, mode) or None.
    mode 'variant' = discriminant test (labels are variant names), 'pos'/'neg' = boolean predicate."""
    if scrut[0] == "discr":
        x = scrut[1]
        if x[0] == "call" and x[1] == "std::ops::Try::branch":
            x = x[2][0]
        return strip(x, RESULT_ADAPTERS), "variant"
    neg = False
    t = scrut
    while t[0] == "un" and t[1] == "Not":
        neg = not neg
        t = t[2]
    if t[0] == "call" and t[1] in ("std::result::Result::is_ok", "std::option::Option::is_some"):
        return strip(t[2][0], RESULT_ADAPTERS), "neg" if neg else "pos"
    if t[0] == "call" and t[1] in ("std::result::Result::is_err", "std::option::Option::is_none"):
        return strip(t[2][0], RESULT_ADAPTERS), "pos" if neg else "neg"
    return None


def success_edges(ctx, fn, pred):
    """Edges (bb, target) taken exactly when a term satisfying `pred` evaluated to its success variant."""
    T = ctx.T(fn)
    out = []
    for bb in range(len(fn.blocks)):
        si = T.switch_info(bb)
        if si is None:
            continue
        scrut, edges = si
        ob = outcome_base(scrut)
        if ob is None:
            continue
        base, mode = ob
        if not pred(base):
            # a value assigned on several paths (e.g. the return place of an inlined helper): the outcome switch tests
            # the call's result whenever one of the definitions is that call. Callers combine success edges with
            # dominance by the call itself, so the other definitions (early returns) cannot fake a success.
            hit = False
            for v in subterms(base):
                if v[0] == "var" and len(T.defs.get(v[1], ())) >= 2:
                    for d in T.defs[v[1]]:
                        if d[0] == "c":
                            ct = T.call_term(fn.blocks[d[1]]["t"])
                            if pred(ct) or pred(("await", ct)):
                                hit = True
            if not hit:
                continue
        for tgt, labs in edges.items():
            if mode == "variant":
                if set(labs) & GOOD and not (set(labs) - GOOD):
                    out.append((bb, tgt))
            elif mode == "pos" and labs == [True]:
                out.append((bb, tgt))
            elif mode == "neg" and labs == [False]:
                out.append((bb, tgt))
    return out


def is_await_of(t, qnames):
    """t == await(call(q, ..)) with q in qnames"""
    return t[0] == "await" and t[1][0] == "call" and t[1][1] in qnames


def is_call_of(t, qnames):
    return t[0] == "call" and t[1] in qnames


def completed(t, qnames):
    """value of a completed call: awaited (async) or direct (sync)"""
    return is_await_of(t, qnames) or is_call_of(t, qnames)


def region_between(cfg, starts, site_bb):
    """Blocks on some path from any start block to site_bb (inclusive of both ends)."""
    fwd = cfg.reach_from(starts)
    # backward reach from site
    back = set([site_bb])
    st = [site_bb]
    while st:
        x = st.pop()
        for _, p in cfg.pred[x]:
            if p not in back:
                back.add(p)
                st.append(p)
    return fwd & back


def stmt_field_writes(fn, bb, owner=None):
    """[(field name set, kind, stmt)] for writes/mutable borrows in block bb (optionally restricted to an owner ADT)."""
    out = []
    for s in fn.blocks[bb]["s"]:
        if s["k"] != "assign":
            continue
        for p, kind in ((s["p"], "assign"), (s["r"].get("p") if s["r"]["k"] == "ref" and s["r"].get("bk") == "mut" else None, "mut-borrow")):
            if p is None:
                continue
            names = set()
            for e in p.get("pr", []):
                if isinstance(e, dict) and "f" in e and (owner is None or e["o"] == owner):
                    names.add(e["n"])
            if names:
                out.append((names, kind, s))
    t = fn.blocks[bb]["t"]
    if t["k"] == "call" and t["dest"].get("pr"):
        names = set(e["n"] for e in t["dest"]["pr"] if isinstance(e, dict) and "f" in e and (owner is None or e["o"] == owner))
        if names:
            out.append((names, "call-dest", t))
    return out


class MayWrite:
    """may-write(F): fields of `owner` ADT possibly written by F or its callees (A1 closure)."""

    def __init__(self, ctx, owner):
        self.ctx = ctx
        self.owner = owner
        self.local = {}
        self.memo = {}

    def local_writes(self, fn):
        w = self.local.get(fn)
        if w is None:
            w = set()
            for bb in range(len(fn.blocks)):
                for names, kind, _ in stmt_field_writes(fn, bb, self.owner):
                    # the first field on the path rooted at the owner is the one written
                    w |= names
            self.local[fn] = w
        return w

    def of(self, fn):
        if fn in self.memo:
            return self.memo[fn]
        cl = self.ctx.cg.closure([fn], lambda f: f.in_testonly())
        w = set()
        for g in cl:
            w |= self.local_writes(g)
        self.memo[fn] = w
        return w

    def of_call(self, fn, term):
        w = set()
        for g, _ in self.ctx.cg.targets_of_call(fn, term):
            w |= self.of(g)
        return w


def return_blocks_maybe_ok(ctx, fn):
    """Blocks that assign the return place a value that may be Ok (anything but from_residual / Err aggregate)."""
    T = ctx.T(fn)
    out = []
    for bi, b in enumerate(fn.blocks):
        for s in b["s"]:
            if s["k"] == "assign" and s["p"]["l"] == 0 and not s["p"].get("pr"):
                r = s["r"]
                if r["k"] == "agg" and r["ak"] == "adt" and r.get("variant") in ("Err",):
                    continue
                out.append((bi, "stmt"))
        t = b["t"]
        if t["k"] == "call" and t["dest"]["l"] == 0 and not t["dest"].get("pr"):
            decl, res, rk = fn.callee(t) if "decl" in t["f"] else (None, None, None)
            if decl is not None and decl.qname == "std::ops::FromResidual::from_residual":
                continue
            if "t" in t:
                out.append((t["t"], "call"))
    return out


class LocalFlow:
    """Flow-insensitive 'derives from' relation between the locals of one body: local L depends on every
    local mentioned in any assignment to L (or in the arguments of a call whose destination is L); a local
    whose mutable borrow is passed to a call depends on that call's other arguments (push/insert/extend/
    bitor_assign ...). Used where a rule needs 'the value handed to X comes from Y' without fixing the
    shape of the expression in between (iterator chain vs loop, temporaries, helper results)."""

    def __init__(self, fn):
        self.fn = fn
        self.deps = {}
        self.borrow_of = {}     # temp local -> local it mutably borrows
        self.src_calls = {}     # local -> set of callee qnames whose result flows directly into it
        self.src_terms = {}     # local -> [call terminator] whose destination it is
        for b in fn.blocks:
            for s in b["s"]:
                if s["k"] != "assign":
                    continue
                l = s["p"]["l"]
                ls = self._locals_rv(s["r"])
                self.deps.setdefault(l, set()).update(ls)
                r = s["r"]
                if r["k"] in ("ref", "rawptr") and (r.get("bk") == "mut" or r.get("mut")):
                    self.borrow_of[l] = r["p"]["l"]
                elif r["k"] == "ref":
                    self.borrow_of.setdefault(l, r["p"]["l"])
        for b in fn.blocks:
            t = b["t"]
            if t["k"] != "call":
                continue
            args = [self._local_op(a) for a in t["args"]]
            args = [a for a in args if a is not None]
            d = t["dest"]["l"]
            self.deps.setdefault(d, set()).update(args)
            self.src_terms.setdefault(d, []).append(t)
            if "decl" in t["f"]:
                decl, res, rk = fn.callee(t)
                self.src_calls.setdefault(d, set()).add(decl.qname)
                if res is not None:
                    self.src_calls[d].add(res.qname)
            # mutation through a mutable borrow passed as (first) argument
            for a in args[:1]:
                tgt = self._root_borrow(a)
                if tgt is not None and tgt != a:
                    self.deps.setdefault(tgt, set()).update(x for x in args if x != a)
                    if "decl" in t["f"]:
                        self.src_calls.setdefault(tgt, set())

    def _root_borrow(self, l, depth=0):
        seen = set()
        while l in self.borrow_of and l not in seen and depth < 10:
            seen.add(l)
            l = self.borrow_of[l]
            depth += 1
        # follow plain moves of a reference
        return l

    @staticmethod
    def _local_op(o):
        p = o.get("c") or o.get("m")
        return p["l"] if p is not None else None

    def _locals_rv(self, r):
        out = set()
        for k in ("o", "a", "b"):
            if k in r and isinstance(r[k], dict):
                l = self._local_op(r[k])
                if l is not None:
                    out.add(l)
        if "p" in r:
            out.add(r["p"]["l"])
        for o in r.get("ops", []):
            l = self._local_op(o)
            if l is not None:
                out.add(l)
        return out

    def closure(self, l):
        """all locals l (transitively) derives from, including itself"""
        seen = {l}
        st = [l]
        while st:
            x = st.pop()
            for y in self.deps.get(x, ()):
                if y not in seen:
                    seen.add(y)
                    st.append(y)
            y = self.borrow_of.get(x)
            if y is not None and y not in seen:
                seen.add(y)
                st.append(y)
        return seen

    def derives_from_call(self, l, qname_pred):
        """some local in the dependency closure of l is the destination of a call satisfying qname_pred"""
        for x in self.closure(l):
            if any(qname_pred(q) for q in self.src_calls.get(x, ())):
                return True
        return False

    def derives_from_call_where(self, l, pred):
        """some local in the dependency closure of l is the destination of a call terminator satisfying pred(terminator)"""
        for x in self.closure(l):
            if any(pred(t) for t in self.src_terms.get(x, ())):
                return True
        return False

    def derives_from_local(self, l, src):
        return src in self.closure(l)


def ret_locals(f):
    """Locals that hold the function's return value: _0 and every local that is moved into one of them
    whole (after helper inlining the callee's return place is moved into the caller's)."""
    c = f._cache.get("ret_locals")
    if c is not None:
        return c
    S = {0}
    changed = True
    while changed:
        changed = False
        for b in f.blocks:
            for s in b["s"]:
                if s["k"] == "assign" and not s["p"].get("pr") and s["p"]["l"] in S and s["r"]["k"] == "use":
                    pl = s["r"]["o"].get("m") or s["r"]["o"].get("c")
                    if pl is not None and not pl.get("pr") and pl["l"] not in S:
                        S.add(pl["l"])
                        changed = True
                    elif pl is not None and len(pl.get("pr", [])) == 2 and isinstance(pl["pr"][0], dict) and pl["pr"][0].get("d") == "Ready" and isinstance(pl["pr"][1], dict) and pl["pr"][1].get("f") == 0:
                        # the value of an awaited helper that was spliced in: `x = (poll_result as Ready).0` where every
                        # definition of poll_result is `Poll::Ready(move <helper return place>)`
                        d = pl["l"]
                        srcs = []
                        okd = True
                        for b2 in f.blocks:
                            for s2 in b2["s"]:
                                if s2["k"] == "assign" and not s2["p"].get("pr") and s2["p"]["l"] == d:
                                    r2 = s2["r"]
                                    if r2["k"] == "agg" and r2.get("def") == "std::task::Poll" and r2.get("variant") == "Ready" and len(r2.get("ops", [])) == 1:
                                        o2 = r2["ops"][0].get("m") or r2["ops"][0].get("c")
                                        if o2 is not None and not o2.get("pr"):
                                            srcs.append(o2["l"])
                                            continue
                                    okd = False
                            t2 = b2["t"]
                            if t2["k"] == "call" and not t2["dest"].get("pr") and t2["dest"]["l"] == d:
                                okd = False      # a real poll call remains: not (only) a spliced helper
                        if okd:
                            for y in srcs:
                                if y not in S:
                                    S.add(y)
                                    changed = True
    f._cache["ret_locals"] = S
    return S


from .terms import strip, RESULT_ADAPTERS


def success_return_blocks(ctx, f, P=()):
    """Blocks where the function's result may become a success: an `Ok(..)` stored into a return place (or an alias of
    it after helper inlining), a call / awaited value stored into a return place whose outcome is not known to be an
    error. The result of the persist call itself (possibly through wrap / map_err) is not a target: it is Ok exactly
    when the backup succeeded."""
    T = ctx.T(f)
    RL = ret_locals(f)
    out = []
    for bi, b in enumerate(f.blocks):
        for st in b["s"]:
            if st["k"] != "assign" or st["p"].get("pr") or st["p"]["l"] not in RL:
                continue
            r = st["r"]
            if r["k"] == "agg":
                if r.get("variant") == "Ok" or (r.get("def") not in ("std::result::Result",) and r.get("variant") not in ("Err", "Ready", "Pending")):
                    if r.get("variant") == "Ok":
                        out.append(bi)
                continue
            if r["k"] == "use":
                pl = r["o"].get("m") or r["o"].get("c")
                if pl is not None and not pl.get("pr") and pl["l"] in RL:
                    continue        # alias of another return place
                if pl is not None and pl.get("pr") and pl["l"] in RL or (pl is not None and len(pl.get("pr", [])) == 2 and isinstance(pl["pr"][0], dict) and pl["pr"][0].get("d") == "Ready"):
                    t = strip(T.rvalue(r), RESULT_ADAPTERS)
                    if is_await_of(t, P):
                        continue
                    # the value of a spliced helper's return place arrives through its own assignments
                    src = pl["l"]
                    if all(s2["r"]["k"] == "agg" and s2["r"].get("def") == "std::task::Poll" for b2 in f.blocks for s2 in b2["s"] if s2["k"] == "assign" and not s2["p"].get("pr") and s2["p"]["l"] == src) and \
                            not any(b2["t"]["k"] == "call" and not b2["t"]["dest"].get("pr") and b2["t"]["dest"]["l"] == src for b2 in f.blocks):
                        continue
                    out.append(bi)
                    continue
            if f.locals[st["p"]["l"]].s.startswith("std::result::Result<"):
                out.append(bi)
        t = b["t"]
        if t["k"] == "call" and not t["dest"].get("pr") and t["dest"]["l"] in RL and "t" in t and f.locals[t["dest"]["l"]].s.startswith("std::result::Result<"):
            if "decl" in t["f"] and f.callee(t)[0].qname == "std::ops::FromResidual::from_residual":
                continue
            ct = strip(T.call_term(t), RESULT_ADAPTERS)
            if is_await_of(ct, P) or is_call_of(ct, P):
                continue
            out.append(t["t"])
    return sorted(set(out))


