"""Rule-level queries: success edges, dominance by success, regions, field writes, may-write summaries."""
from .terms import strip, RESULT_ADAPTERS, subterms
from .guards import written_fields

GOOD = {"Continue", "Ok", "Some", "Ready"}


def outcome_base(scrut):
    """For a switch scrutinee: (base term whose outcome is tested, mode) or None.
    mode 'variant' = discriminant test (labels are variant names), 'pos'/'neg' = boolean predicate."""
    if scrut[0] == "discr":
        x = scrut[1]
        if x[0] == "call" and x[1] == "std::ops::Try::branch":
            x = x[2][0]
        return strip(x, RESULT_ADAPTERS), "variant"
    neg = False
    t = scrut
    while t[0] == "un" and t[1] == "Not":
        neg = not neg
        t = t[2]
    if t[0] == "call" and t[1] in ("std::result::Result::is_ok", "std::option::Option::is_some"):
        return strip(t[2][0], RESULT_ADAPTERS), "neg" if neg else "pos"
    if t[0] == "call" and t[1] in ("std::result::Result::is_err", "std::option::Option::is_none"):
        return strip(t[2][0], RESULT_ADAPTERS), "pos" if neg else "neg"
    return None


def success_edges(ctx, fn, pred):
    """Edges (bb, target) taken exactly when a term satisfying `pred` evaluated to its success variant."""
    T = ctx.T(fn)
    out = []
    for bb in range(len(fn.blocks)):
        si = T.switch_info(bb)
        if si is None:
            continue
        scrut, edges = si
        ob = outcome_base(scrut)
        if ob is None:
            continue
        base, mode = ob
        if not pred(base):
            continue
        for tgt, labs in edges.items():
            if mode == "variant":
                if set(labs) & GOOD and not (set(labs) - GOOD):
                    out.append((bb, tgt))
            elif mode == "pos" and labs == [True]:
                out.append((bb, tgt))
            elif mode == "neg" and labs == [False]:
                out.append((bb, tgt))
    return out


def is_await_of(t, qnames):
    """t == await(call(q, ..)) with q in qnames"""
    return t[0] == "await" and t[1][0] == "call" and t[1][1] in qnames


def is_call_of(t, qnames):
    return t[0] == "call" and t[1] in qnames


def completed(t, qnames):
    """value of a completed call: awaited (async) or direct (sync)"""
    return is_await_of(t, qnames) or is_call_of(t, qnames)


def region_between(cfg, starts, site_bb):
    """Blocks on some path from any start block to site_bb (inclusive of both ends)."""
    fwd = cfg.reach_from(starts)
    # backward reach from site
    back = set([site_bb])
    st = [site_bb]
    while st:
        x = st.pop()
        for _, p in cfg.pred[x]:
            if p not in back:
                back.add(p)
                st.append(p)
    return fwd & back


def stmt_field_writes(fn, bb, owner=None):
    """[(field name set, kind, stmt)] for writes/mutable borrows in block bb (optionally restricted to an owner ADT)."""
    out = []
    for s in fn.blocks[bb]["s"]:
        if s["k"] != "assign":
            continue
        for p, kind in ((s["p"], "assign"), (s["r"].get("p") if s["r"]["k"] == "ref" and s["r"].get("bk") == "mut" else None, "mut-borrow")):
            if p is None:
                continue
            names = set()
            for e in p.get("pr", []):
                if isinstance(e, dict) and "f" in e and (owner is None or e["o"] == owner):
                    names.add(e["n"])
            if names:
                out.append((names, kind, s))
    t = fn.blocks[bb]["t"]
    if t["k"] == "call" and t["dest"].get("pr"):
        names = set(e["n"] for e in t["dest"]["pr"] if isinstance(e, dict) and "f" in e and (owner is None or e["o"] == owner))
        if names:
            out.append((names, "call-dest", t))
    return out


class MayWrite:
    """may-write(F): fields of `owner` ADT possibly written by F or its callees (A1 closure)."""

    def __init__(self, ctx, owner):
        self.ctx = ctx
        self.owner = owner
        self.local = {}
        self.memo = {}

    def local_writes(self, fn):
        w = self.local.get(fn)
        if w is None:
            w = set()
            for bb in range(len(fn.blocks)):
                for names, kind, _ in stmt_field_writes(fn, bb, self.owner):
                    # the first field on the path rooted at the owner is the one written
                    w |= names
            self.local[fn] = w
        return w

    def of(self, fn):
        if fn in self.memo:
            return self.memo[fn]
        cl = self.ctx.cg.closure([fn], lambda f: f.in_testonly())
        w = set()
        for g in cl:
            w |= self.local_writes(g)
        self.memo[fn] = w
        return w

    def of_call(self, fn, term):
        w = set()
        for g, _ in self.ctx.cg.targets_of_call(fn, term):
            w |= self.of(g)
        return w


def return_blocks_maybe_ok(ctx, fn):
    """Blocks that assign the return place a value that may be Ok (anything but from_residual / Err aggregate)."""
    T = ctx.T(fn)
    out = []
    for bi, b in enumerate(fn.blocks):
        for s in b["s"]:
            if s["k"] == "assign" and s["p"]["l"] == 0 and not s["p"].get("pr"):
                r = s["r"]
                if r["k"] == "agg" and r["ak"] == "adt" and r.get("variant") in ("Err",):
                    continue
                out.append((bi, "stmt"))
        t = b["t"]
        if t["k"] == "call" and t["dest"]["l"] == 0 and not t["dest"].get("pr"):
            decl, res, rk = fn.callee(t) if "decl" in t["f"] else (None, None, None)
            if decl is not None and decl.qname == "std::ops::FromResidual::from_residual":
                continue
            if "t" in t:
                out.append((t["t"], "call"))
    return out
