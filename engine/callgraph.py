"""A1 — resolved call graph over all workspace bodies (over-approximate)."""
from collections import defaultdict


def iter_operands_rv(r):
    k = r["k"]
    if k in ("use", "cast", "repeat", "wrap_binder"):
        yield r["o"]
    elif k == "bin":
        yield r["a"]
        yield r["b"]
    elif k == "un":
        yield r["a"]
    elif k == "agg":
        for o in r["ops"]:
            yield o


def iter_operands(fn):
    """(bb, operand) for every operand in the body."""
    for bi, b in enumerate(fn.blocks):
        for s in b["s"]:
            if s["k"] == "assign":
                for o in iter_operands_rv(s["r"]):
                    yield bi, o
        t = b["t"]
        k = t["k"]
        if k in ("call", "tailcall"):
            for a in t["args"]:
                yield bi, a
            if "o" in t["f"]:
                yield bi, t["f"]["o"]
        elif k == "switch":
            yield bi, t["d"]
        elif k == "assert":
            yield bi, t["cond"]
        elif k == "yield":
            yield bi, t["v"]


class CallGraph:
    def __init__(self, F):
        self.F = F
        # trait method decl path -> [impl method paths]
        self.trait_impls = defaultdict(list)
        for im in F.impls:
            if "trait" not in im:
                continue
            for it in im["items"]:
                ti = it.get("trait_item")
                if ti and it["kind"].startswith("Fn"):
                    self.trait_impls[ti].append(it["path"])
        self.edges = {}      # fn -> set(fn)
        self.edge_why = {}   # (fn, fn) -> why
        self.ext_calls = defaultdict(list)  # fn -> [(bb, decl item, res item, rk)]
        for f in F.fns:
            self._build(f)
        self.callers = defaultdict(set)
        for f, es in self.edges.items():
            for g in es:
                self.callers[g].add(f)

    def targets_of_call(self, fn, t):
        """Workspace bodies a call terminator may invoke: [(Fn, why)]."""
        F = self.F
        out = []
        if "decl" not in t["f"]:
            return out
        decl, res, rk = fn.callee(t)
        if res is not None and rk in ("item", "closure_once_shim", "reify", "fnptr_shim", "vtable_shim"):
            g = F.by_path.get(res.path)
            if g is not None:
                out.append((g, "direct"))
                return out
        # unresolved / virtual / resolved to a trait decl without body: class-hierarchy expansion
        if decl.trait is not None and (res is None or rk in ("virtual", "unresolved") or F.by_path.get(res.path) is None):
            cands = self.trait_impls.get(decl.path, [])
            if res is None or rk in ("virtual", "unresolved"):
                for p in cands:
                    g = F.by_path.get(p)
                    if g is not None:
                        out.append((g, "cha"))
                g = F.by_path.get(decl.path)  # default body
                if g is not None:
                    out.append((g, "cha-default"))
        return out

    def _build(self, f):
        F = self.F
        es = set()
        for bi, b in enumerate(f.blocks):
            t = b["t"]
            if t["k"] in ("call", "tailcall"):
                tg = self.targets_of_call(f, t)
                for g, why in tg:
                    es.add(g)
                    self.edge_why[(f, g)] = why
                if not tg and "decl" in t["f"]:
                    decl, res, rk = f.callee(t)
                    self.ext_calls[f].append((bi, decl, res, rk))
            for s in b["s"]:
                if s["k"] == "assign" and s["r"]["k"] == "agg" and s["r"]["ak"] in ("closure", "coroutine", "coroutine_closure"):
                    g = F.by_path.get(s["r"]["def"])
                    if g is not None:
                        es.add(g)
                        self.edge_why[(f, g)] = "closure"
        for bi, o in iter_operands(f):
            k = o.get("k")
            if k and "fn" in k:
                it = f.cr.items[k["fn"]]
                g = F.by_path.get(it.path)
                if g is not None:
                    if g not in es:
                        self.edge_why[(f, g)] = "fn-value"
                    es.add(g)
                elif it.trait is not None:
                    for p in self.trait_impls.get(it.path, []):
                        g = F.by_path.get(p)
                        if g is not None and g not in es:
                            es.add(g)
                            self.edge_why[(f, g)] = "fn-value-cha"
        self.edges[f] = es

    def closure(self, roots, skip=lambda f: False):
        """Reachable bodies from roots; returns dict fn -> parent (for path reconstruction)."""
        parent = {}
        st = []
        for r in roots:
            if r not in parent and not skip(r):
                parent[r] = None
                st.append(r)
        while st:
            f = st.pop()
            for g in self.edges.get(f, ()):
                if g not in parent and not skip(g):
                    parent[g] = f
                    st.append(g)
        return parent

    def path_to(self, parent, f):
        p = []
        while f is not None:
            p.append(f.qname)
            f = parent.get(f)
        return list(reversed(p))

    def callers_of(self, f):
        return self.callers.get(f, set())
