"""A6 — symbolic terms over MIR-as-built.

Single-definition temporaries are substituted, references/derefs/clones are transparent, the
`.await` loop collapses to ("await", future) and `?` to ("try", x).

Term grammar (tuples, hashable):
  ("param", i, name)            function parameter (for closures/coroutines param 1 is the environment)
  ("upvar", name)               captured variable of a closure/coroutine
  ("var", local, name)          multiply-assigned local (opaque)
  ("field", base, name)         field projection
  ("downcast", base, variant)   enum variant view
  ("index", base, idx)          indexing
  ("call", qname, (args...))    call (decl qname; resolved qname in Terms.resolved[(term)])
  ("await", fut)                value of a completed await
  ("try", x)                    value of `x?` (the Continue payload)
  ("residual", x)               the Break payload of `x?`
  ("const", v) ("cstr", s) ("cdef", path) ("cfn", qname) ("cunit",) ("cother", ty)
  ("bin", op, a, b) ("un", op, a) ("cast", a, to_ty)
  ("agg", def, variant, ((field, term)...))   ("tuple", (..))  ("array", (..)) ("closure", def, (..))
  ("discr", place_term)
"""

TRANSPARENT = {
    "std::clone::Clone::clone", "std::ops::Deref::deref", "std::ops::DerefMut::deref_mut",
    "std::borrow::Borrow::borrow", "std::borrow::BorrowMut::borrow_mut", "std::convert::AsRef::as_ref",
    "std::convert::AsMut::as_mut", "std::borrow::ToOwned::to_owned",
    "std::future::IntoFuture::into_future", "std::pin::Pin::new_unchecked", "std::pin::Pin::new",
    "std::option::Option::as_ref", "std::option::Option::as_mut", "std::option::Option::cloned",
    "std::option::Option::copied", "std::option::Option::as_deref", "std::result::Result::as_ref",
    "std::pin::Pin::as_mut", "std::pin::Pin::get_mut", "std::pin::Pin::as_ref", "std::pin::Pin::get_ref",
    "std::sync::Arc::as_ref", "std::boxed::Box::new", "std::boxed::Box::pin",
    "std::convert::identity",
    "tracing::instrument::Instrument::instrument", "tracing::instrument::Instrument::in_current_span",
    "std::hint::must_use", "anyhow::__private::must_use",
}

MAXDEPTH = 60


class Terms:
    def __init__(self, fn):
        self.fn = fn
        self.defs = {}      # local -> list of ("s", bb, i) | ("c", bb) | ("y", bb)
        self.partial = set()
        self.mut_borrowed = set()
        self._memo = {}
        self._scan()

    def _scan(self):
        fn = self.fn
        for bi, b in enumerate(fn.blocks):
            for si, s in enumerate(b["s"]):
                if s["k"] == "assign":
                    p = s["p"]
                    if p.get("pr"):
                        # a write through a dereference does not modify the local (the pointer) itself
                        if p["pr"][0] != "*":
                            self.partial.add(p["l"])
                    else:
                        self.defs.setdefault(p["l"], []).append(("s", bi, si))
                    r = s["r"]
                    if r["k"] in ("ref", "rawptr") and (r.get("bk") == "mut" or r.get("mut")):
                        if not r["p"].get("pr"):
                            self.mut_borrowed.add(r["p"]["l"])
                elif s["k"] == "setdiscr":
                    if not (s["p"].get("pr") and s["p"]["pr"][0] == "*"):
                        self.partial.add(s["p"]["l"])
            t = b["t"]
            if t["k"] == "call":
                p = t["dest"]
                if p.get("pr"):
                    if p["pr"][0] != "*":
                        self.partial.add(p["l"])
                else:
                    self.defs.setdefault(p["l"], []).append(("c", bi))
            elif t["k"] == "yield":
                p = t["ra"]
                if not p.get("pr"):
                    self.defs.setdefault(p["l"], []).append(("y", bi))

    # ------------------------------------------------------------------
    def single_def(self, l):
        d = self.defs.get(l, [])
        if len(d) == 1 and l not in self.partial:
            return d[0]
        return None

    def local(self, l, depth=0):
        if l in self._memo:
            return self._memo[l]
        fn = self.fn
        name = fn.var_names().get(l)
        if 1 <= l <= fn.argc:
            if fn.kind in ("closure", "coroutine") and l == 1:
                t = ("param", 1, "{env}")
            else:
                t = ("param", l, name or "_%d" % l)
            # params reassigned are rare; treat as params
            self._memo[l] = t
            return t
        d = self.single_def(l)
        # a scalar flag/counter that is mutably borrowed can change behind its single assignment
        # (`let mut keep = true; buf.retain(|x| { keep = false; .. })`): keep it opaque
        if d is not None and l in self.mut_borrowed:
            if fn.locals[l].hk in ("bool", "int"):
                d = None
            elif d[0] == "s":
                # `let mut res = None; f(|x| res = Some(..))`: a literal-initialised local that is
                # mutably borrowed is a mutable cell, not a value
                r0 = fn.blocks[d[1]]["s"][d[2]]["r"]
                if r0["k"] == "agg" or (r0["k"] == "use" and "k" in r0["o"]):
                    d = None
        if d is None or depth > MAXDEPTH:
            t = ("var", l, name or "_%d" % l)
            self._memo[l] = t
            return t
        self._memo[l] = ("var", l, name or "_%d" % l)  # cycle guard
        if d[0] == "s":
            r = fn.blocks[d[1]]["s"][d[2]]["r"]
            t = self.rvalue(r, depth + 1)
        elif d[0] == "c":
            t = self.call_term(fn.blocks[d[1]]["t"], depth + 1)
        else:
            t = ("var", l, name or "_%d" % l)
        self._memo[l] = t
        return t

    def place(self, p, depth=0):
        t = self.local(p["l"], depth)
        for e in p.get("pr", []):
            t = self._project(t, e, depth)
        return t

    def _project(self, t, e, depth):
        fn = self.fn
        if e == "*":
            return t
        if isinstance(e, str):
            return t
        if "f" in e:
            n = e["n"]
            if t == ("param", 1, "{env}"):
                return ("upvar", n)
            # await / try collapse
            if t[0] == "downcast":
                base, var = t[1], t[2]
                if n == "0" and base[0] == "call":
                    q = base[1]
                    if q == "std::future::Future::poll" and var == "Ready":
                        return ("await", base[2][0])
                    if q == "std::ops::Try::branch" and var == "Continue":
                        return ("try", base[2][0])
                    if q == "std::ops::Try::branch" and var == "Break":
                        return ("residual", base[2][0])
            if t[0] == "downcast" and t[1][0] == "agg" and t[1][2] == t[2]:
                for fname, ft in t[1][3]:
                    if fname == n:
                        return ft
            if t[0] == "agg" and t[1] is not None:
                for fname, ft in t[3]:
                    if fname == n:
                        return ft
            if t[0] == "tuple" and n.isdigit() and int(n) < len(t[1]):
                return t[1][int(n)]
            return ("field", t, n)
        if "d" in e:
            return ("downcast", t, e["d"])
        if "i" in e:
            return ("index", t, self.local(e["i"], depth + 1))
        if "ci" in e:
            return ("index", t, ("const", -e["ci"] - 1 if e["fe"] else e["ci"]))
        if "sub" in e:
            return ("subslice", t, e["sub"], e["to"], e["fe"])
        return t

    def operand(self, o, depth=0):
        if "c" in o:
            return self.place(o["c"], depth)
        if "m" in o:
            return self.place(o["m"], depth)
        if "k" in o:
            k = o["k"]
            if "fn" in k:
                return ("cfn", self.fn.cr.items[k["fn"]].qname)
            if "v" in k:
                return ("const", k["v"])
            if "str" in k:
                return ("cstr", k["str"])
            if "def" in k:
                return ("cdef", k["def"])
            ts = self.fn.ty(k["t"]).s
            if ts == "()":
                return ("cunit",)
            return ("cother", ts)
        return ("cother", "rt")

    def rvalue(self, r, depth=0):
        k = r["k"]
        if k == "use":
            return self.operand(r["o"], depth)
        if k in ("ref", "rawptr", "copyderef"):
            return self.place(r["p"], depth)
        if k == "bin":
            return ("bin", r["op"], self.operand(r["a"], depth), self.operand(r["b"], depth))
        if k == "un":
            return ("un", r["op"], self.operand(r["a"], depth))
        if k == "cast":
            ck = r["ck"]
            inner = self.operand(r["o"], depth)
            if ck in ("PointerCoercion", "PtrToPtr", "Subtype", "Transmute") and ck != "Transmute":
                return inner
            return ("cast", inner, self.fn.ty(r["to"]).s)
        if k == "discr":
            return ("discr", self.place(r["p"], depth))
        if k == "agg":
            ops = tuple(self.operand(o, depth) for o in r["ops"])
            ak = r["ak"]
            if ak == "adt":
                fl = r.get("fields", [])
                if len(fl) == len(ops):
                    return ("agg", r["def"], r["variant"], tuple(zip(fl, ops)))
                return ("agg", r["def"], r["variant"], tuple((str(i), o) for i, o in enumerate(ops)))
            if ak == "tuple":
                return ("tuple", ops)
            if ak == "array":
                return ("array", ops)
            if ak in ("closure", "coroutine", "coroutine_closure"):
                return ("closure", self.fn.cr.items[r["item"]].qname, ops)
            return ("cother", ak)
        if k == "repeat":
            return ("repeat", self.operand(r["o"], depth), r["n"])
        return ("cother", k)

    def call_term(self, t, depth=0):
        f = t["f"]
        args = tuple(self.operand(a, depth) for a in t["args"])
        if "decl" not in f:
            tgt = self.operand(f["o"], depth) if "o" in f else ("cother", "?")
            return ("icall", tgt, args)
        decl, res, rk = self.fn.callee(t)
        q = decl.qname
        if q in TRANSPARENT and args:
            return args[0]
        return ("call", q, args)

    # ------------------------------------------------------------------
    def calls(self):
        """All call sites: list of dicts {bb, decl, res, rk, args(terms), raw}."""
        c = getattr(self, "_calls", None)
        if c is not None:
            return c
        out = []
        fn = self.fn
        for bi, b in enumerate(fn.blocks):
            t = b["t"]
            if t["k"] != "call" or "decl" not in t["f"]:
                continue
            decl, res, rk = fn.callee(t)
            out.append({"bb": bi, "decl": decl, "res": res, "rk": rk, "t": t,
                        "q": decl.qname, "rq": res.qname if res is not None else None})
        self._calls = out
        return out

    def args_of(self, call):
        return tuple(self.operand(a) for a in call["t"]["args"])

    def switch_info(self, bb):
        """For a switch terminator: (scrutinee term, {target_bb: label}) where label is a variant
        name, True/False, an int, or "else"."""
        t = self.fn.blocks[bb]["t"]
        if t["k"] != "switch":
            return None
        d = t["d"]
        scrut = self.operand(d)
        variants = None
        is_bool = False
        pl = d.get("c") or d.get("m")
        if pl is not None:
            ty = self.fn.ty(pl["t"])
            is_bool = ty.s == "bool"
            if not pl.get("pr"):
                sd = self.single_def(pl["l"])
                if sd and sd[0] == "s":
                    r = self.fn.blocks[sd[1]]["s"][sd[2]]["r"]
                    if r["k"] == "discr" and "variants" in r:
                        variants = {v: n for v, n in r["variants"]}
        edges = {}
        seen_vals = set()
        for v, b in t["vals"]:
            seen_vals.add(v)
            if variants is not None:
                lab = variants.get(v, v)
            elif is_bool:
                lab = bool(v)
            else:
                lab = v
            edges.setdefault(b, []).append(lab)
        el = t["else"]
        if is_bool and seen_vals == {0}:
            edges.setdefault(el, []).append(True)
        elif variants is not None:
            rest = [n for v, n in variants.items() if v not in seen_vals]
            if rest:
                for n in rest:
                    edges.setdefault(el, []).append(n)
            # else: otherwise is unreachable
        else:
            edges.setdefault(el, []).append("else")
        return scrut, edges


def strip(t, adapters):
    """Peel result-preserving adapters: ("call", q, (x, ...)) with q in adapters -> x; ("try", x) is kept."""
    while True:
        if t[0] == "call" and t[1] in adapters and t[2]:
            t = t[2][0]
            continue
        return t


RESULT_ADAPTERS = {
    "zksync_concurrency::error::Wrap::wrap", "zksync_concurrency::error::Wrap::with_wrap",
    "std::result::Result::map_err", "anyhow::Context::context", "anyhow::Context::with_context",
    "std::result::Result::map", "std::result::Result::ok", "std::option::Option::ok_or", "std::option::Option::ok_or_else",
    "std::option::Option::context", "std::result::Result::context",
}


def _is_term(t):
    return isinstance(t, tuple) and len(t) > 0 and isinstance(t[0], str) and t[0] in _HEADS


def subterms(t):
    """All sub-terms of t (including t)."""
    if _is_term(t):
        yield t
        rest = t[1:]
    else:
        rest = t
    for x in rest:
        if isinstance(x, tuple):
            yield from subterms(x)


_HEADS = {"param", "upvar", "var", "field", "downcast", "index", "call", "await", "try", "residual", "const", "cstr",
          "cdef", "cfn", "cunit", "cother", "bin", "un", "cast", "agg", "tuple", "array", "closure", "discr", "icall",
          "subslice", "repeat"}


def show(t):
    h = t[0]
    if h == "param":
        return t[2]
    if h == "upvar":
        return t[1]
    if h == "var":
        return "%s#%d" % (t[2], t[1])
    if h == "field":
        return "%s.%s" % (show(t[1]), t[2])
    if h == "downcast":
        return "(%s as %s)" % (show(t[1]), t[2])
    if h == "index":
        return "%s[%s]" % (show(t[1]), show(t[2]))
    if h == "call":
        return "%s(%s)" % (t[1].split("::")[-2] + "::" + t[1].split("::")[-1] if "::" in t[1] else t[1], ", ".join(show(a) for a in t[2]))
    if h == "icall":
        return "(%s)(%s)" % (show(t[1]), ", ".join(show(a) for a in t[2]))
    if h == "await":
        return "%s.await" % show(t[1])
    if h == "try":
        return "%s?" % show(t[1])
    if h == "residual":
        return "residual(%s)" % show(t[1])
    if h == "const":
        return str(t[1])
    if h == "cstr":
        return repr(t[1])
    if h in ("cdef", "cfn"):
        return t[1].split("::")[-1]
    if h == "cunit":
        return "()"
    if h == "bin":
        return "%s(%s, %s)" % (t[1], show(t[2]), show(t[3]))
    if h == "un":
        return "%s(%s)" % (t[1], show(t[2]))
    if h == "cast":
        return "(%s as %s)" % (show(t[1]), t[2])
    if h == "agg":
        return "%s::%s{%s}" % (t[1].split("::")[-1], t[2], ", ".join("%s: %s" % (n, show(x)) for n, x in t[3]))
    if h in ("tuple", "array"):
        return "(%s)" % ", ".join(show(x) for x in t[1])
    if h == "closure":
        return "closure[%s](%s)" % (t[1].split("::", 3)[-1], ", ".join(show(x) for x in t[2]))
    if h == "discr":
        return "discr(%s)" % show(t[1])
    return str(t)
