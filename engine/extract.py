"""Runs vp-driver over /repo/node (current working tree) and caches the fact base by content hash."""
import fcntl, hashlib, os, shutil, subprocess, sys, time, glob

VERIF = os.path.dirname(os.path.dirname(os.path.abspath(__file__)))
REPO = os.environ.get("VP_REPO", "/repo")
NODE = os.path.join(REPO, "node")
CACHE = os.path.join(VERIF, ".cache")
DRIVER_DIR = os.path.join(VERIF, "driver")
DRIVER = os.path.join(DRIVER_DIR, "target", "debug", "vp-driver")

from .facts import CRATES
import re

_NORM = [
    (re.compile(r"\b(core|alloc)::"), "std::"),
    (re.compile(r"\bstd::ops::(deref|try_trait|index|arith|function|bit|range|control_flow|drop)::"), "std::ops::"),
    (re.compile(r"\bstd::future::(future|into_future|poll_fn|ready|pending)::"), "std::future::"),
    (re.compile(r"\bstd::iter::traits::(iterator|collect|double_ended|exact_size|accum|marker)::"), "std::iter::"),
    (re.compile(r"\bstd::iter::(adapters|sources)::\w+::"), "std::iter::"),
    (re.compile(r"\bstd::collections::btree::map::"), "std::collections::btree_map::"),
    (re.compile(r"\bstd::collections::btree::set::"), "std::collections::btree_set::"),
    (re.compile(r"\bstd::collections::hash::map::"), "std::collections::hash_map::"),
    (re.compile(r"\bstd::collections::hash::set::"), "std::collections::hash_set::"),
    (re.compile(r"\bstd::collections::(btree_map::BTreeMap|btree_set::BTreeSet|hash_map::HashMap|hash_set::HashSet|vec_deque::VecDeque)\b"),
     lambda m: "std::collections::" + m.group(1).split("::")[1]),
    (re.compile(r"\bstd::sync::poison::(mutex|rwlock|condvar|once)::"), "std::sync::"),
    (re.compile(r"\bstd::fmt::(builders|rt)::"), "std::fmt::"),
    (re.compile(r"\bstd::slice::(iter|index)::"), "std::slice::"),
    (re.compile(r"\bstd::task::(poll|wake)::"), "std::task::"),
    (re.compile(r"\bstd::num::(nonzero|wrapping|saturating)::"), "std::num::"),
    (re.compile(r"\bstd::str::(traits|iter|pattern)::"), "std::str::"),
    (re.compile(r"\bstd::net::(socket_addr|ip_addr)::"), "std::net::"),
    (re.compile(r"\bstd::time::Duration\b"), "std::time::Duration"),
    (re.compile(r"\btime::(duration|instant|offset_date_time|utc_offset|date|primitive_date_time)::"), "time::"),
]


def normalize_text(s):
    """Map the private module paths rustc prints without re-export resolution (core::ops::deref::Deref)
    to the public facade names (std::ops::Deref), uniformly in every crate's fact file."""
    for rx, rep in _NORM:
        s = rx.sub(rep, s)
    return s


def tree_hash():
    h = hashlib.sha256()
    files = []
    for root, dirs, fs in os.walk(NODE):
        dirs[:] = sorted(d for d in dirs if d not in ("target", ".git"))
        for f in sorted(fs):
            if f.endswith((".rs", ".proto", ".toml")) or f == "Cargo.lock":
                files.append(os.path.join(root, f))
    for p in files:
        h.update(os.path.relpath(p, NODE).encode())
        h.update(b"\0")
        with open(p, "rb") as fh:
            h.update(fh.read())
        h.update(b"\0")
    # the driver is part of the key: a changed extractor invalidates cached facts
    for p in sorted(glob.glob(os.path.join(DRIVER_DIR, "src", "*.rs"))) + [os.path.abspath(__file__)]:
        with open(p, "rb") as fh:
            h.update(fh.read())
    return h.hexdigest()[:24], len(files)


def sysroot():
    return subprocess.check_output(["rustc", "+nightly", "--print", "sysroot"], text=True).strip()


def build_driver():
    if os.path.exists(DRIVER):
        src_m = max(os.path.getmtime(p) for p in glob.glob(os.path.join(DRIVER_DIR, "src", "*.rs")))
        if os.path.getmtime(DRIVER) >= src_m:
            return
    env = dict(os.environ, CARGO_NET_OFFLINE="true")
    r = subprocess.run(["cargo", "build", "--offline"], cwd=DRIVER_DIR, env=env, stdout=subprocess.PIPE, stderr=subprocess.STDOUT, text=True)
    if r.returncode != 0:
        sys.stderr.write(r.stdout)
        raise RuntimeError("ANALYSIS-ERROR: vp-driver failed to build")


def complete(d):
    return all(os.path.exists(os.path.join(d, c + ".json")) for c in CRATES)


NSLOTS = 4          # independent cargo target directories: extractions of different trees run in parallel
KEEP_SETS = 24      # cached fact sets (about 22 MB each)


def _lock(path, blocking=True):
    fh = open(path, "w")
    try:
        fcntl.flock(fh, fcntl.LOCK_EX | (0 if blocking else fcntl.LOCK_NB))
    except OSError:
        fh.close()
        return None
    return fh


def _unlock(fh):
    fcntl.flock(fh, fcntl.LOCK_UN)
    fh.close()


def ensure_facts(verbose=True):
    """Returns (facts_dir, tree_hash, nfiles, seconds_spent_extracting)."""
    os.makedirs(os.path.join(CACHE, "locks"), exist_ok=True)
    os.makedirs(os.path.join(CACHE, "facts"), exist_ok=True)
    g = _lock(os.path.join(CACHE, "lock"))
    try:
        build_driver()
    finally:
        _unlock(g)
    th, nfiles = tree_hash()
    d = os.path.join(CACHE, "facts", th)
    if complete(d):
        os.utime(d, None)
        return d, th, nfiles, 0.0
    hl = _lock(os.path.join(CACHE, "locks", th + ".lock"))   # one extraction per tree
    slot = None
    try:
        if complete(d):
            os.utime(d, None)
            return d, th, nfiles, 0.0
        t0 = time.time()
        for i in range(NSLOTS):
            slot = _lock(os.path.join(CACHE, "locks", "target-%d.lock" % i), blocking=False)
            if slot is not None:
                break
        if slot is None:
            i = int(th[:4], 16) % NSLOTS
            slot = _lock(os.path.join(CACHE, "locks", "target-%d.lock" % i))
        target = os.path.join(CACHE, "target" if i == 0 else "target-%d" % i)
        tmp = d + ".tmp.%d" % os.getpid()
        shutil.rmtree(tmp, ignore_errors=True)
        os.makedirs(tmp)
        # cargo's freshness cache would otherwise skip the wrapper silently
        for fp in glob.glob(os.path.join(target, "debug", ".fingerprint", "zksync_*")):
            shutil.rmtree(fp, ignore_errors=True)
        env = dict(os.environ)
        env.update({
            "LD_LIBRARY_PATH": os.path.join(sysroot(), "lib"),
            "RUSTFLAGS": "-Zmir-opt-level=0 -Awarnings",
            "RUSTC_WORKSPACE_WRAPPER": DRIVER,
            "VP_FACTS_DIR": tmp,
            "VP_TREE_HASH": th,
            "CARGO_TARGET_DIR": target,
            "CARGO_NET_OFFLINE": "true",
            # with incremental compilation green queries are never re-executed, so the
            # mir_built override would see nothing on a rebuild
            "CARGO_INCREMENTAL": "0",
        })
        cmd = ["cargo", "+nightly", "check", "--offline", "--locked", "--workspace", "--exclude", "zksync_consensus_tools"]
        r = subprocess.run(cmd, cwd=NODE, env=env, stdout=subprocess.PIPE, stderr=subprocess.STDOUT, text=True)
        if r.returncode != 0 or not complete(tmp):
            tail = "\n".join(r.stdout.splitlines()[-40:])
            shutil.rmtree(tmp, ignore_errors=True)
            raise RuntimeError("ANALYSIS-ERROR: the tree does not compile under the driver (exit %d)\n%s" % (r.returncode, tail))
        for c in CRATES:
            fp = os.path.join(tmp, c + ".json")
            with open(fp) as fh:
                txt = fh.read()
            with open(fp, "w") as fh:
                fh.write(normalize_text(txt))
        shutil.rmtree(d, ignore_errors=True)
        os.rename(tmp, d)
        # keep the cache small: the most recently used fact sets; never one used in the last 10 minutes
        root = os.path.join(CACHE, "facts")
        ds = sorted((os.path.getmtime(os.path.join(root, x)), x) for x in os.listdir(root) if ".tmp." not in x)
        now = time.time()
        for mt, x in ds[:-KEEP_SETS]:
            if now - mt > 600:
                shutil.rmtree(os.path.join(root, x), ignore_errors=True)
        return d, th, nfiles, time.time() - t0
    finally:
        if slot is not None:
            _unlock(slot)
        _unlock(hl)
