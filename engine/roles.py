"""Anchors by role, not by name.

The rule modules refer to a handful of private functions by canonical names
(`StateMachine::on_proposal`, `BlockStore::try_push`, ...). A behaviour-preserving rename or move of
such a function must not raise an alarm, so after loading the fact base every role below is resolved
from *types and effects* (parameter types, fields written, callees) and, when the function found has
another name, its qname (and its closures' qnames) is rewritten to the canonical one. A role that
resolves to no or several bodies is left alone: the rule then fails closed with `anchor not found`.
"""

SM = "zksync_consensus_bft::v2_chonky_bft::StateMachine"
BS = "zksync_consensus_engine::block_store::BlockStore"
V2 = "zksync_consensus_roles::validator::messages::v2"


def _params(f):
    return [t.s for t in f.locals[1:f.argc + 1]]


def _methods(F, adt):
    return [f for f in F.fns if f.item.impl_self_def == adt and f.kind == "method" and f.item.impl_trait is None and not f.in_testonly()]


def _own_family(F, f):
    out = [f]
    st = [f]
    while st:
        x = st.pop()
        for c in x.children:
            out.append(c)
            st.append(c)
    return out


_BASE_FNS = None


def _is_new(h):
    """h did not exist on the reviewed tree (tables/items.json): a helper a refactoring has extracted. Only such
    functions lend their effects to their callers - a reviewed function is never 'part of' another one."""
    global _BASE_FNS
    if _BASE_FNS is None:
        import json, os
        p = os.path.join(os.path.dirname(os.path.dirname(os.path.abspath(__file__))), "tables", "items.json")
        try:
            with open(p) as fh:
                _BASE_FNS = set(json.load(fh).get("fns", {}))
        except OSError:
            _BASE_FNS = set()
    return bool(_BASE_FNS) and h.path not in _BASE_FNS


def _private_callees(F, g):
    """non-exported workspace functions of the same crate called (resolved statically) by body g"""
    out = []
    for b in g.blocks:
        t = b["t"]
        if t["k"] == "call" and "decl" in t["f"]:
            d, r, rk = g.callee(t)
            if r is not None and rk == "item":
                h = F.by_path.get(r.path)
                if h is not None and h.crate == g.crate and h.kind in ("fn", "method") and h.vis != "pub" and not h.reach and not h.in_testonly() and _is_new(h):
                    out.append(h)
    return out


def _family(F, f, depth=3):
    """f, its closures/coroutines, and (to `depth`) the private helpers they call with their closures: the effects of
    a function include those of the helpers a refactoring may have extracted from it."""
    seen = []
    seen_set = set()
    st = [(f, 0)]
    while st:
        x, d = st.pop()
        for g in _own_family(F, x):
            if id(g) in seen_set:
                continue
            seen_set.add(id(g))
            seen.append(g)
            if d < depth:
                for h in _private_callees(F, g):
                    if id(h) not in seen_set:
                        st.append((h, d + 1))
    return seen


def _calls_transitively(F, a, b):
    return any(g is b for g in _family(F, a)) and a is not b


def _writes(F, f, owner):
    names = set()
    for g in _family(F, f):
        for b in g.blocks:
            for s in b["s"]:
                if s["k"] == "assign":
                    for e in s["p"].get("pr", []):
                        if isinstance(e, dict) and "f" in e and e["o"] == owner:
                            names.add(e["n"])
    return names


def _callees(F, f):
    out = set()
    for g in _family(F, f):
        for b in g.blocks:
            t = b["t"]
            if t["k"] == "call" and "decl" in t["f"]:
                d, r, _ = g.callee(t)
                out.add(d.qname)
                if r is not None:
                    out.add(r.qname)
    return out


def _aggs(F, f):
    out = set()
    for g in _family(F, f):
        for b in g.blocks:
            for s in b["s"]:
                if s["k"] == "assign" and s["r"]["k"] == "agg" and s["r"]["ak"] == "adt":
                    out.add((s["r"]["def"], s["r"]["variant"]))
    return out


def resolve(F):
    """Returns {canonical qname: Fn} for the roles that resolve uniquely."""
    sm = _methods(F, SM)
    roles = {}

    def one(name, cands):
        # a helper extracted from the role's function shares its effects: keep the caller-most candidate
        if len(cands) > 1:
            top = [c for c in cands if not any(_calls_transitively(F, o, c) for o in cands if o is not c)]
            if len(top) >= 1:
                cands = top
        if len(cands) > 1:
            named = [c for c in cands if c.qname == name]
            if len(named) == 1:
                cands = named
        if len(cands) == 1:
            roles[name] = cands[0]

    def has_param(f, suffix):
        return any(p.endswith(suffix) for p in _params(f))
    CHONKY = V2 + "::consensus::ChonkyMsg"
    one(SM + "::on_proposal", [f for f in sm if has_param(f, "Signed<%s::leader_proposal::LeaderProposal>" % V2)])
    one(SM + "::on_commit", [f for f in sm if has_param(f, "Signed<%s::replica_commit::ReplicaCommit>" % V2)])
    one(SM + "::on_timeout", [f for f in sm if has_param(f, "Signed<%s::replica_timeout::ReplicaTimeout>" % V2)])
    one(SM + "::on_new_view", [f for f in sm if has_param(f, "Signed<%s::replica_new_view::ReplicaNewView>" % V2)])
    one(SM + "::start_new_view", [f for f in sm if any(p.endswith("consensus::ViewNumber") for p in _params(f)) and "view_number" in _writes(F, f, SM)])
    one(SM + "::start_timeout", [f for f in sm if (CHONKY, "ReplicaTimeout") in _aggs(F, f)])
    one(SM + "::process_commit_qc", [f for f in sm if "high_commit_qc" in _writes(F, f, SM)])
    one(SM + "::process_timeout_qc", [f for f in sm if "high_timeout_qc" in _writes(F, f, SM)])
    one(SM + "::save_block", [f for f in sm if has_param(f, "&%s::replica_commit::CommitQC" % V2) and "zksync_consensus_engine::manager::EngineManager::queue_block" in _callees(F, f)])
    one(SM + "::backup_state", [f for f in sm if (V2 + "::state::ChonkyV2State", "ChonkyV2State") in _aggs(F, f)])
    one(SM + "::get_justification", [f for f in sm if f.locals[0].s == V2 + "::leader_proposal::ProposalJustification"])
    one(SM + "::run", [f for f in sm if "zksync_concurrency::sync::prunable_mpsc::Receiver::recv" in _callees(F, f)])
    one(SM + "::start", [f for f in F.fns if f.item.impl_self_def == SM and f.kind == "method" and (SM, "StateMachine") in _aggs(F, f) and not f.in_testonly() and f.item.impl_trait is None])
    bs = _methods(F, BS)
    one(BS + "::try_push", [f for f in bs if any(p.endswith("messages::block::Block") for p in _params(f))])
    one(BS + "::update_persisted", [f for f in bs if any(p.endswith("block_store::BlockStoreState") for p in _params(f))])
    one(BS + "::truncate_cache", [f for f in bs if "std::collections::VecDeque::pop_front" in _callees(F, f)])
    one(BS + "::block", [f for f in bs if any(p.endswith("block::BlockNumber") for p in _params(f))])
    return roles


def canonicalize(F):
    """Rewrites qnames of role-resolved functions (and their closures) to the canonical role names.
    Returns a list of (found qname, canonical qname) that were renamed."""
    roles = resolve(F)
    renamed = []
    for canon, f in roles.items():
        old = f.qname
        if old == canon:
            continue
        if any(g is not f for g in F.by_qname.get(canon, [])):
            continue    # the canonical name is taken by another function: leave both alone (rules fail closed if they must)
        renamed.append((old, canon))
        for c in F.crates.values():
            for it in c.items:
                if it.qname == old:
                    it.qname = canon
                elif it.qname and it.qname.startswith(old + "::{"):
                    it.qname = canon + it.qname[len(old):]
    if renamed:
        F.by_qname = {}
        for f in F.fns:
            f.qname = f.item.qname
            F.by_qname.setdefault(f.qname, []).append(f)
    return renamed
