"""Thorough tier: validate the checker itself on scratch copies of /repo (never on /repo):
 * must fire  - every seeded defect of this property (seeded/<name>/patch.diff) must be reported;
 * must fire  - every hand-written mutant of one rule instance (selftest/mutants/<ID>/*.diff) must be reported;
 * must stay silent - every behaviour-preserving refactoring (selftest/equivalents/<ID>/*.diff and
   those registered for 'all') must produce no violation.
Scratch copies live under a fresh temp dir and are removed before returning."""
import json, os, shutil, subprocess, tempfile

VERIF = os.path.dirname(os.path.dirname(os.path.abspath(__file__)))
REPO = os.environ.get("VP_REPO", "/repo")


def _run_on_patch(prop, patch, scratch):
    scratch = tempfile.mkdtemp(prefix="p-", dir=scratch)
    repo = os.path.join(scratch, "repo")
    shutil.rmtree(repo, ignore_errors=True)
    os.makedirs(repo)
    subprocess.check_call(["rsync", "-a", "--exclude", "target", os.path.join(REPO, "node"), repo + "/"])
    r = subprocess.run(["git", "apply", patch], cwd=repo, capture_output=True, text=True)
    if r.returncode != 0:
        return None, "patch does not apply to the current tree"
    env = dict(os.environ, VP_REPO=repo, VP_EVIDENCE_DIR=os.path.join(scratch, "evidence"), VERIF_TIER="quick")
    out = subprocess.run([os.path.join(VERIF, "check"), prop, "quick"], env=env, capture_output=True, text=True)
    viol = [l.strip()[len("violated: ["):].split("]")[0] for l in out.stdout.splitlines() if l.strip().startswith("violated: [")]
    return (out.returncode, viol), None


def run(prop):
    """Returns list of dicts {kind, name, ok, detail}. The scratch runs are independent; VP_SELFTEST_JOBS (4) at a time."""
    from concurrent.futures import ThreadPoolExecutor
    jobs = []   # (kind, name, patch path)
    sdir = os.path.join(VERIF, "seeded")
    for name in sorted(os.listdir(sdir)) if os.path.isdir(sdir) else []:
        mp = os.path.join(sdir, name, "meta.json")
        if not os.path.exists(mp):
            continue
        meta = json.load(open(mp))
        targets = [meta.get("property")] + list(meta.get("also_breaks", []))
        if prop in targets:
            jobs.append(("must-fire", name, os.path.join(sdir, name, "patch.diff")))
    mdir = os.path.join(VERIF, "selftest", "mutants", prop)
    for fn in sorted(os.listdir(mdir)) if os.path.isdir(mdir) else []:
        if fn.endswith(".diff"):
            jobs.append(("must-fire", "mutants/" + fn, os.path.join(mdir, fn)))
    edir = os.path.join(VERIF, "selftest", "equivalents")
    for sub in (prop, "all"):
        d = os.path.join(edir, sub)
        for fn in sorted(os.listdir(d)) if os.path.isdir(d) else []:
            if fn.endswith(".diff"):
                jobs.append(("must-stay-silent", "%s/%s" % (sub, fn), os.path.join(d, fn)))
    scratch = tempfile.mkdtemp(prefix="vp-selftest-")
    res = []
    try:
        with ThreadPoolExecutor(max_workers=int(os.environ.get("VP_SELFTEST_JOBS", "4"))) as pool:
            outs = list(pool.map(lambda j: _run_on_patch(prop, j[2], scratch), jobs))
        for (kind, name, _), (r, err) in zip(jobs, outs):
            if err:
                res.append({"kind": kind, "name": name, "ok": None, "detail": "skipped: " + err})
            elif kind == "must-fire":
                rc, viol = r
                rules = sorted(set(v.split()[0] for v in viol if v))
                res.append({"kind": kind, "name": name, "ok": rc == 1 and bool(viol), "rules": rules, "detail": "exit %d, rules %s, reported: %s" % (rc, rules, viol[:3])})
            else:
                rc, viol = r
                res.append({"kind": kind, "name": name, "ok": rc == 0, "detail": "exit %d%s" % (rc, (", false alarms: %s" % viol[:4]) if viol else "")})
    finally:
        shutil.rmtree(scratch, ignore_errors=True)
    return res
