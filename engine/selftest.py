"""Thorough tier: validate the checker itself on scratch copies of /repo (never on /repo):
 * must fire  - every seeded defect of this property (seeded/<name>/patch.diff) must be reported;
 * must fire  - every hand-written mutant of one rule instance (selftest/mutants/<ID>/*.diff) must be reported;
 * must stay silent - every behaviour-preserving refactoring (selftest/equivalents/<ID>/*.diff and
   those registered for 'all') must produce no violation.
Scratch copies live under a fresh temp dir and are removed before returning."""
import json, os, shutil, subprocess, tempfile

VERIF = os.path.dirname(os.path.dirname(os.path.abspath(__file__)))
REPO = os.environ.get("VP_REPO", "/repo")


def _run_on_patch(prop, patch, scratch):
    repo = os.path.join(scratch, "repo")
    shutil.rmtree(repo, ignore_errors=True)
    os.makedirs(repo)
    subprocess.check_call(["rsync", "-a", "--exclude", "target", os.path.join(REPO, "node"), repo + "/"])
    r = subprocess.run(["git", "apply", patch], cwd=repo, capture_output=True, text=True)
    if r.returncode != 0:
        return None, "patch does not apply to the current tree"
    env = dict(os.environ, VP_REPO=repo, VP_EVIDENCE_DIR=os.path.join(scratch, "evidence"), VERIF_TIER="quick")
    out = subprocess.run([os.path.join(VERIF, "check"), prop, "quick"], env=env, capture_output=True, text=True)
    viol = [l.strip()[len("violated: ["):].split("]")[0] for l in out.stdout.splitlines() if l.strip().startswith("violated: [")]
    return (out.returncode, viol), None


def run(prop):
    """Returns list of dicts {kind, name, ok, detail}."""
    res = []
    scratch = tempfile.mkdtemp(prefix="vp-selftest-")
    try:
        sdir = os.path.join(VERIF, "seeded")
        for name in sorted(os.listdir(sdir)) if os.path.isdir(sdir) else []:
            mp = os.path.join(sdir, name, "meta.json")
            if not os.path.exists(mp):
                continue
            meta = json.load(open(mp))
            targets = [meta.get("property")] + list(meta.get("also_breaks", []))
            if prop not in targets:
                continue
            r, err = _run_on_patch(prop, os.path.join(sdir, name, "patch.diff"), scratch)
            if err:
                res.append({"kind": "must-fire", "name": name, "ok": None, "detail": "skipped: " + err})
            else:
                rc, viol = r
                res.append({"kind": "must-fire", "name": name, "ok": rc == 1 and bool(viol), "detail": "exit %d, reported: %s" % (rc, viol[:4])})
        mdir = os.path.join(VERIF, "selftest", "mutants", prop)
        for fn in sorted(os.listdir(mdir)) if os.path.isdir(mdir) else []:
            if not fn.endswith(".diff"):
                continue
            r, err = _run_on_patch(prop, os.path.join(mdir, fn), scratch)
            if err:
                res.append({"kind": "must-fire", "name": "mutants/" + fn, "ok": None, "detail": "skipped: " + err})
            else:
                rc, viol = r
                res.append({"kind": "must-fire", "name": "mutants/" + fn, "ok": rc == 1 and bool(viol), "detail": "exit %d, reported: %s" % (rc, viol[:4])})
        edir = os.path.join(VERIF, "selftest", "equivalents")
        for sub in (prop, "all"):
            d = os.path.join(edir, sub)
            if not os.path.isdir(d):
                continue
            for fn in sorted(os.listdir(d)):
                if not fn.endswith(".diff"):
                    continue
                r, err = _run_on_patch(prop, os.path.join(d, fn), scratch)
                if err:
                    res.append({"kind": "must-stay-silent", "name": "%s/%s" % (sub, fn), "ok": None, "detail": "skipped: " + err})
                else:
                    rc, viol = r
                    res.append({"kind": "must-stay-silent", "name": "%s/%s" % (sub, fn), "ok": rc == 0, "detail": "exit %d%s" % (rc, (", false alarms: %s" % viol[:4]) if viol else "")})
    finally:
        shutil.rmtree(scratch, ignore_errors=True)
    return res
