"""Moved / renamed items. Rules name types, constants and free functions by the path they had on the reviewed tree
(tables/items.json). When such a path is gone and exactly one NEW item of the same crate has the same structural
signature (ADT: same variants, field names and field types; const / free fn: same name), the new path is an alias:
it is rewritten to the reviewed path in the fact text before the facts are linked, so that every type string,
aggregate, impl and qname agrees. Ambiguous or unmatched items are left alone (rules then fail closed)."""
import json, os, re

VERIF = os.path.dirname(os.path.dirname(os.path.abspath(__file__)))
TABLE = os.path.join(VERIF, "tables", "items.json")


def adt_signature(a, types):
    own = a["path"]
    sig = []
    vs = a.get("variants", [])
    for v in vs:
        vname = "" if len(vs) == 1 and v.get("name") == own.rsplit("::", 1)[-1] else v.get("name")
        for f in v.get("fields", []):
            ts = types[f["t"]]["s"] if isinstance(types[f["t"]], dict) else types[f["t"]].s
            sig.append((vname, f.get("name"), ts.replace(own, "Self")))
    return json.dumps(sorted(sig))


def is_test_path(p):
    return "::testonly" in p or "::tests::" in p or p.endswith("::tests")


def inventory(crates):
    """crates: {name: raw crate dict}. Returns {"adts": {path: [crate, sig]}, "consts": {path: crate}, "free_fns": {path: crate}}"""
    inv = {"adts": {}, "consts": {}, "free_fns": {}, "fns": {}}
    for name, d in crates.items():
        for a in d["adts"]:
            if not is_test_path(a["path"]):
                inv["adts"][a["path"]] = [name, adt_signature(a, d["types"])]
        for k in d["consts"]:
            if not is_test_path(k["path"]):
                inv["consts"][k["path"]] = name
        items = d["items"]
        for f in d["fns"]:
            it = items[f["item"]]
            if f["kind"] == "fn" and it.get("impl_self") is None and it.get("trait") is None and it.get("root") is None and not is_test_path(f["path"]):
                inv["free_fns"][f["path"]] = name
            # every inherent method / free function with its owner and signature (for renames)
            if f["kind"] in ("fn", "method") and it.get("root") is None and it.get("impl_trait") is None and it.get("trait") is None and not is_test_path(f["path"]):
                tys = d["types"]
                sig = [tys[i]["s"] for i in f["locals"][:f["argc"] + 1]]
                owner = it.get("impl_self_def") or it.get("impl_self") or ""
                callees = set()
                for b in f["blocks"]:
                    t = b["t"]
                    if t.get("k") == "call" and isinstance(t.get("f"), dict) and "decl" in t["f"]:
                        callees.add(items[t["f"]["decl"]]["path"])
                qn = ("%s::%s" % (owner, it.get("name"))) if it.get("impl_self") is not None else f["path"]
                inv["fns"][f["path"]] = [name, owner, json.dumps(sig), sorted(callees), qn]
    return inv


def compute(crates):
    """{new path: reviewed path} for the current tree."""
    if not os.path.exists(TABLE):
        return {}
    with open(TABLE) as fh:
        base = json.load(fh)
    cur = inventory(crates)
    out = {}
    # ADTs by signature
    new_adts = {p: v for p, v in cur["adts"].items() if p not in base["adts"]}
    for p, (cr, sig) in base["adts"].items():
        if p in cur["adts"] or sig == "[]":
            continue
        c = [q for q, (cr2, sig2) in new_adts.items() if cr2 == cr and sig2 == sig]
        if len(c) == 1 and c[0] not in out:
            out[c[0]] = p
    for kind in ("consts", "free_fns"):
        new = {p: cr for p, cr in cur[kind].items() if p not in base[kind]}
        for p, cr in base[kind].items():
            if p in cur[kind]:
                continue
            name = p.rsplit("::", 1)[1]
            c = [q for q, cr2 in new.items() if cr2 == cr and q.rsplit("::", 1)[1] == name]
            if len(c) == 1 and c[0] not in out:
                out[c[0]] = p
    # renamed (or renamed and moved) functions: same crate, same owner type, same signature, unique
    new = {p: v for p, v in cur["fns"].items() if p not in base.get("fns", {})}
    for p, ent in base.get("fns", {}).items():
        cr, owner, sig = ent[:3]
        body = set(ent[3]) if len(ent) > 3 else set()
        if p in cur["fns"] or p in out.values():
            continue
        # the owner may itself have been moved/renamed
        owners = {owner} | {n for n, o in out.items() if o == owner}
        c = [q for q, e2 in new.items() if e2[0] == cr and e2[1] in owners and _same_sig(sig, e2[2], out) and q not in out]
        if not c:
            # an associated function turned into a free function (or moved to another impl) of the same crate
            def sim0(q):
                b2 = set(new[q][3]) if len(new[q]) > 3 else set()
                return len(body & b2) / float(len(body | b2) or 1)
            c = [q for q, e2 in new.items() if e2[0] == cr and _same_sig(sig, e2[2], out) and q not in out and body and sim0(q) >= 0.5]
        if len(c) > 1 and body:
            # several renamed functions share a signature: the body (set of callees) decides, if clearly
            def sim(q):
                b2 = set(new[q][3]) if len(new[q]) > 3 else set()
                return len(body & b2) / float(len(body | b2) or 1)
            ranked = sorted(c, key=sim, reverse=True)
            if sim(ranked[0]) >= 0.6 and sim(ranked[0]) - sim(ranked[1]) >= 0.2:
                c = [ranked[0]]
        if len(c) == 1:
            out[c[0]] = p
    return out


def _same_sig(a, b, aliases):
    if a == b:
        return True
    for n, o in aliases.items():
        b = b.replace(n, o)
    return a == b


def field_aliases(crates, path_aliases):
    """{(adt path, new field name): reviewed field name}: a reviewed field that vanished from a type that still exists
    (after path aliasing) and exactly one new field of the same type in the same variant."""
    if not os.path.exists(TABLE):
        return {}
    with open(TABLE) as fh:
        base = json.load(fh)
    out = {}
    for name, d in crates.items():
        for a in d["adts"]:
            p = a["path"]
            if p not in base["adts"] or is_test_path(p):
                continue
            bsig = json.loads(base["adts"][p][1])
            csig = json.loads(adt_signature(a, d["types"]))
            bset, cset = set(map(tuple, bsig)), set(map(tuple, csig))
            gone = [x for x in bset - cset]
            new = [x for x in cset - bset]
            for (v, fname, ty) in gone:
                c = [y for y in new if y[0] == v and y[2] == ty]
                g = [y for y in gone if y[0] == v and y[2] == ty]
                if len(c) == 1 and len(g) == 1 and fname is not None and c[0][1] is not None:
                    out[(p, c[0][1])] = fname
    return out


def apply_fields(raw, fal):
    """rename fields in place in the parsed fact dicts: projections {"n","o"}, ADT definitions and aggregates"""
    if not fal:
        return
    owners = set(p for p, _ in fal)

    def walk(x):
        if isinstance(x, dict):
            o = x.get("o")
            if isinstance(o, str) and o in owners and (o, x.get("n")) in fal:
                x["n"] = fal[(o, x["n"])]
            if x.get("k") == "agg" and x.get("def") in owners and isinstance(x.get("fields"), list):
                x["fields"] = [fal.get((x["def"], n), n) for n in x["fields"]]
            for v in x.values():
                if isinstance(v, (dict, list)):
                    walk(v)
        elif isinstance(x, list):
            for v in x:
                if isinstance(v, (dict, list)):
                    walk(v)
    for d in raw.values():
        for a in d["adts"]:
            if a["path"] in owners:
                for v in a.get("variants", []):
                    for f in v.get("fields", []):
                        if (a["path"], f.get("name")) in fal:
                            f["name"] = fal[(a["path"], f["name"])]
        walk(d["fns"])


def apply(texts, aliases):
    """texts: {crate: json text}. Longest paths first so that a moved type and its own items stay consistent."""
    for new in sorted(aliases, key=len, reverse=True):
        rx = re.compile(re.escape(new) + r"(?![A-Za-z0-9_])")
        old = aliases[new]
        texts = {k: rx.sub(lambda m: old, v) for k, v in texts.items()}
    return texts
