"""Moved / renamed items. Rules name types, constants and free functions by the path they had on the reviewed tree
(tables/items.json). When such a path is gone and exactly one NEW item of the same crate has the same structural
signature (ADT: same variants, field names and field types; const / free fn: same name), the new path is an alias:
it is rewritten to the reviewed path in the fact text before the facts are linked, so that every type string,
aggregate, impl and qname agrees. Ambiguous or unmatched items are left alone (rules then fail closed)."""
import json, os, re

VERIF = os.path.dirname(os.path.dirname(os.path.abspath(__file__)))
TABLE = os.path.join(VERIF, "tables", "items.json")


def adt_signature(a, types):
    own = a["path"]
    sig = []
    vs = a.get("variants", [])
    for v in vs:
        vname = "" if len(vs) == 1 and v.get("name") == own.rsplit("::", 1)[-1] else v.get("name")
        for f in v.get("fields", []):
            ts = types[f["t"]]["s"] if isinstance(types[f["t"]], dict) else types[f["t"]].s
            sig.append((vname, f.get("name"), ts.replace(own, "Self")))
    return json.dumps(sorted(sig))


def is_test_path(p):
    return "::testonly" in p or "::tests::" in p or p.endswith("::tests")


def inventory(crates):
    """crates: {name: raw crate dict}. Returns {"adts": {path: [crate, sig]}, "consts": {path: crate}, "free_fns": {path: crate}}"""
    inv = {"adts": {}, "consts": {}, "free_fns": {}}
    for name, d in crates.items():
        for a in d["adts"]:
            if not is_test_path(a["path"]):
                inv["adts"][a["path"]] = [name, adt_signature(a, d["types"])]
        for k in d["consts"]:
            if not is_test_path(k["path"]):
                inv["consts"][k["path"]] = name
        items = d["items"]
        for f in d["fns"]:
            it = items[f["item"]]
            if f["kind"] == "fn" and it.get("impl_self") is None and it.get("trait") is None and it.get("root") is None and not is_test_path(f["path"]):
                inv["free_fns"][f["path"]] = name
    return inv


def compute(crates):
    """{new path: reviewed path} for the current tree."""
    if not os.path.exists(TABLE):
        return {}
    with open(TABLE) as fh:
        base = json.load(fh)
    cur = inventory(crates)
    out = {}
    # ADTs by signature
    new_adts = {p: v for p, v in cur["adts"].items() if p not in base["adts"]}
    for p, (cr, sig) in base["adts"].items():
        if p in cur["adts"] or sig == "[]":
            continue
        c = [q for q, (cr2, sig2) in new_adts.items() if cr2 == cr and sig2 == sig]
        if len(c) == 1 and c[0] not in out:
            out[c[0]] = p
    for kind in ("consts", "free_fns"):
        new = {p: cr for p, cr in cur[kind].items() if p not in base[kind]}
        for p, cr in base[kind].items():
            if p in cur[kind]:
                continue
            name = p.rsplit("::", 1)[1]
            c = [q for q, cr2 in new.items() if cr2 == cr and q.rsplit("::", 1)[1] == name]
            if len(c) == 1 and c[0] not in out:
                out[c[0]] = p
    return out


def apply(texts, aliases):
    """texts: {crate: json text}. Longest paths first so that a moved type and its own items stay consistent."""
    for new in sorted(aliases, key=len, reverse=True):
        rx = re.compile(re.escape(new) + r"(?![A-Za-z0-9_])")
        old = aliases[new]
        texts = {k: rx.sub(lambda m: old, v) for k, v in texts.items()}
    return texts
