"""A7 — may-panic inventory over a call-graph closure."""
import re
from .terms import Terms, show

PANIC_CALLS = {
    "std::option::Option::unwrap": "unwrap",
    "std::option::Option::expect": "unwrap",
    "std::result::Result::unwrap": "unwrap",
    "std::result::Result::expect": "unwrap",
    "std::result::Result::unwrap_err": "unwrap",
    "std::result::Result::expect_err": "unwrap",
    "std::panicking::panic": "panic",
    "std::panicking::panic_fmt": "panic",
    "std::panicking::panic_display": "panic",
    "std::panicking::panic_explicit": "panic",
    "std::panicking::unreachable_display": "panic",
    "std::panicking::panic_nounwind": "panic",
    "std::panicking::assert_failed": "panic",
    "std::panicking::assert_matches_failed": "panic",
    "std::rt::begin_panic": "panic",
    "std::rt::panic_fmt": "panic",
    "std::process::abort": "panic",
    "std::process::exit": "panic",
    "std::ops::Index::index": "index",
    "std::ops::IndexMut::index_mut": "index",
    "[T]::copy_from_slice": "index",
    "[T]::clone_from_slice": "index",
    "[T]::split_at": "index",
    "[T]::split_at_mut": "index",
    "[T]::copy_within": "index",
    "[T]::swap": "index",
    "std::cell::RefCell::borrow": "refcell",
    "std::cell::RefCell::borrow_mut": "refcell",
}

ASSERT_KINDS = {"Overflow": "overflow", "OverflowNeg": "overflow", "DivisionByZero": "divzero",
                "RemainderByZero": "divzero", "BoundsCheck": "index"}

_DROP_MACRO = re.compile(r"^(tracing|tracing_core|vise|vise_macros):macro:")


def in_dropped_macro(node):
    return any(_DROP_MACRO.match(m) for m in node.get("mac", []))


def key_term(t, fn, T, depth=0):
    """Render a term for a semantic key: names of locals/params are replaced by their types;
    nesting beyond 2 levels is elided (keeps keys stable under edits of distant context)."""
    h = t[0]
    if depth > 2:
        return "_"
    if h == "param":
        return "<%s>" % fn.locals[t[1]].s if t[1] < len(fn.locals) else "<?>"
    if h == "var":
        return "<%s>" % fn.locals[t[1]].s
    if h == "upvar":
        return "^%s" % t[1]
    if h == "field":
        return "%s.%s" % (key_term(t[1], fn, T, depth + 1), t[2])
    if h == "downcast":
        return "(%s as %s)" % (key_term(t[1], fn, T, depth + 1), t[2])
    if h == "index":
        return "%s[%s]" % (key_term(t[1], fn, T, depth + 1), key_term(t[2], fn, T, depth + 1))
    if h == "call":
        return "%s(%s)" % (t[1], ",".join(key_term(a, fn, T, depth + 1) for a in t[2]))
    if h == "icall":
        return "icall(%s)" % ",".join(key_term(a, fn, T, depth + 1) for a in t[2])
    if h in ("await", "try", "residual", "discr"):
        return "%s(%s)" % (h, key_term(t[1], fn, T, depth + 1))
    if h == "const":
        return str(t[1])
    if h == "cstr":
        return repr(t[1])
    if h in ("cdef", "cfn"):
        return t[1]
    if h == "bin":
        return "%s(%s,%s)" % (t[1], key_term(t[2], fn, T, depth + 1), key_term(t[3], fn, T, depth + 1))
    if h == "un":
        return "%s(%s)" % (t[1], key_term(t[2], fn, T, depth + 1))
    if h == "cast":
        return "(%s as %s)" % (key_term(t[1], fn, T, depth + 1), t[2])
    if h == "agg":
        return "%s::%s{..}" % (t[1], t[2])
    if h in ("tuple", "array"):
        return "(%s)" % ",".join(key_term(x, fn, T, depth + 1) for x in t[1])
    if h == "closure":
        return "closure"
    if h == "cunit":
        return "()"
    return h


def root_qname(fn):
    f = fn
    while f.parent is not None:
        f = f.parent
    return f.qname


_SEQ = re.compile(r"^&?(?:mut )?(?:std::vec::Vec<(.+?)(?:, [^,<>]+)?>|\[(.+?)(?:; [^\]]+)?\])$")


def seq_class(ty):
    """Vec<T>, [T], [T; N] and references to them index alike: one receiver class `seq<T>` (a helper that takes a slice
    of the caller's Vec must not look like a new kind of site)"""
    m = _SEQ.match(ty)
    if not m:
        return ty
    return "seq<%s>" % (m.group(1) or m.group(2))


_CLOSURE_SUFFIX = re.compile(r"(::\{closure#\d+\})+$")


def origin_root(qname):
    """user-level function of a body name: strips trailing ::{closure#N} components"""
    return _CLOSURE_SUFFIX.sub("", qname)


class Site:
    __slots__ = ("fn", "bb", "kind", "callee", "opterm", "ln", "key", "detail", "terms", "ident")

    def __init__(self, fn, bb, kind, callee, opterm, ln, detail, terms=(), keypart=""):
        self.fn = fn
        self.bb = bb
        self.kind = kind
        self.callee = callee
        self.opterm = opterm
        self.ln = ln
        self.detail = detail
        self.terms = terms
        # Keys carry no operand term: (crate, root function, kind, callee/operator[, receiver type or panic
        # flavour]) with multiplicity. Operand-bearing keys made every behaviour-preserving rewrite of an
        # expression (iterator chain <-> loop, helper extraction, renamed temporaries) look like a new site.
        # The function in the key is the one the instruction was WRITTEN in (origin), not the body it was
        # virtually inlined into: whether a helper is inlined depends on its number of call sites, which an
        # unrelated edit can change. `ident` identifies the instruction itself; copies of one instruction
        # inlined into several callers are one site.
        t = fn.blocks[bb]["t"]
        oq = t.get("of", fn.qname)
        self.key = "%s | %s | %s | %s | %s" % (fn.crate, origin_root(oq), kind, callee, keypart)
        self.ident = (oq, t.get("ob", bb))

    def node(self):
        return self.fn.blocks[self.bb]["t"]

    def origin(self):
        """(qname, file) of the function the instruction was written in (differs from fn for inlined helper code)"""
        t = self.node()
        return t.get("of", self.fn.qname), t.get("of_file", self.fn.file)

    def loc(self):
        return "node/%s:%s" % (self.origin()[1], self.ln)


def sites_of(fn, T, extern_panicking=None):
    """Panic-capable sites of one body."""
    out = []
    for bi, b in enumerate(fn.blocks):
        if b.get("cleanup"):
            continue
        t = b["t"]
        k = t["k"]
        if k == "assert":
            mk = t["msg"]["k"]
            kind = ASSERT_KINDS.get(mk)
            if kind is None:
                continue
            if in_dropped_macro(t):
                continue
            m = t["msg"]
            a = T.operand(m["a"]) if "a" in m else None
            bt = T.operand(m["b"]) if "b" in m else None
            parts = [key_term(x, fn, T) for x in (a, bt) if x is not None]
            op = m.get("op", mk)
            out.append(Site(fn, bi, kind, op, "(%s)" % ",".join(parts), t.get("ln", 0),
                            "%s %s" % (mk, " ".join(show(x) for x in (a, bt) if x is not None)), (a, bt)))
        elif k == "call" and "decl" in t["f"]:
            decl, res, rk = fn.callee(t)
            q = decl.qname
            kind = PANIC_CALLS.get(q)
            if kind is None and extern_panicking is not None:
                rq = res.qname if res is not None else None
                if q in extern_panicking:
                    kind = "extern"
                elif rq in extern_panicking:
                    kind = "extern"
                    q = rq
            if kind is None:
                continue
            if in_dropped_macro(t):
                continue
            args = [T.operand(a) for a in t["args"]]
            if kind == "panic":
                opt = ""
                msg = [a for a in args if a[0] == "cstr"]
                opt = repr(msg[0][1][:60]) if msg else ""
                # panic_fmt messages live in format_args pieces; use the macro chain for the flavour
                macs = [m.split(":")[-1] for m in t.get("mac", []) if ":macro:" in m]
                opt = (macs[-1] if macs else "panic") + ("" if not opt else " " + opt)
            elif kind == "index":
                opt = ",".join(key_term(a, fn, T) for a in args[:2])
                # receiver type distinguishes Vec/slice/map indexing
                ga = t["f"].get("ga", [])
                if ga:
                    opt = "%s: %s" % (fn.ty(ga[0]).s, opt)
            else:
                opt = ",".join(key_term(a, fn, T) for a in args[:1])
            keypart = ""
            if kind == "panic":
                keypart = opt
            elif kind == "index":
                ga = t["f"].get("ga", [])
                keypart = seq_class(fn.ty(ga[0]).s) if ga else ""
            if kind == "extern" and q in ("std::iter::Iterator::sum", "std::iter::Iterator::product"):
                # the same hazard as an explicit accumulation loop: key it like one
                kind, q = "overflow", ("Add" if q.endswith("sum") else "Mul")
            out.append(Site(fn, bi, kind, q, opt, t.get("ln", 0), "%s(%s)" % (q, ", ".join(show(a) for a in args)), tuple(args), keypart))
    return out
