"""Fact base loader: turns the per-crate JSON emitted by vp-driver into linked Python objects.

Everything is keyed by semantic names (def paths, impl self types, item names), never by line.
"""
import json, os, re, glob

CRATES = [
    "zksync_concurrency", "zksync_consensus_crypto", "zksync_consensus_engine", "zksync_protobuf",
    "zksync_protobuf_build", "zksync_consensus_roles", "zksync_consensus_utils", "zksync_consensus_bft",
    "zksync_consensus_network", "zksync_consensus_executor",
]


class Item:
    __slots__ = ("path", "crate", "local", "dk", "name", "root", "impl_self", "impl_self_def", "impl_trait",
                 "impl_trait_full", "trait", "qname", "ws")

    def __init__(self, d, crate_items=None):
        self.path = d["path"]
        self.crate = d["crate"]
        self.local = d["local"]
        self.dk = d["dk"]
        self.name = d.get("name")
        self.root = d.get("root")
        self.impl_self = d.get("impl_self")
        self.impl_self_def = d.get("impl_self_def")
        self.impl_trait = d.get("impl_trait")
        self.impl_trait_full = d.get("impl_trait_full")
        self.trait = d.get("trait")
        self.ws = self.crate in CRATES
        self.qname = None

    def __repr__(self):
        return "<Item %s>" % self.qname


def _strip_generics(s):
    # "Foo<T, U>" -> "Foo"
    out, depth = [], 0
    for c in s:
        if c == "<":
            depth += 1
        elif c == ">":
            depth -= 1
        elif depth == 0:
            out.append(c)
    return "".join(out)


def qname_of(item, root_qname=None):
    """Canonical, module-independent name for functions:
    inherent method      -> <self adt path>::name
    trait impl method    -> <<self ty> as <trait path>>::name
    trait decl method    -> <trait path>::name
    closure              -> <root qname>::{closure#..}
    free fn              -> path
    """
    if item.root is not None and root_qname is not None:
        suffix = item.path[len(item.root):] if item.path.startswith(item.root) else "::" + item.path.split("::", 1)[-1]
        return root_qname + suffix
    if item.impl_self is not None:
        s = item.impl_self_def or _strip_generics(item.impl_self)
        if item.impl_trait:
            return "<%s as %s>::%s" % (s, item.impl_trait, item.name)
        return "%s::%s" % (s, item.name)
    if item.trait is not None:
        return "%s::%s" % (item.trait, item.name)
    return item.path


class Ty:
    __slots__ = ("s", "hk", "hd", "ha")

    def __init__(self, d):
        self.s = d["s"]
        self.hk = d["hk"]
        self.hd = d.get("hd")
        self.ha = d.get("ha", [])

    def __repr__(self):
        return self.s


class Fn:
    def __init__(self, d, crate):
        self.crate = crate.name
        self.cr = crate
        self.raw = d
        self.item = crate.items[d["item"]]
        self.path = d["path"]
        self.kind = d["kind"]
        self.parent_path = d.get("parent")
        self.vis = d.get("vis")
        self.reach = d.get("reach")
        self.is_async = d.get("asyncness", False)
        self.file = d["file"]
        self.lo = d["lo"]
        self.hi = d["hi"]
        self.argc = d["argc"]
        self.locals = [crate.types[i] for i in d["locals"]]
        self.vars = d["vars"]
        self.captures = d.get("captures", [])
        self.blocks = d["blocks"]
        self.qname = None
        self.parent = None
        self.children = []
        self._cache = {}

    @property
    def name(self):
        return self.item.name

    def ty(self, idx):
        return self.cr.types[idx]

    def callee(self, term):
        """(decl Item or None, resolved Item or None, rk) for a call terminator."""
        f = term["f"]
        decl = self.cr.items[f["decl"]] if "decl" in f else None
        res = self.cr.items[f["res"]] if "res" in f else None
        return decl, res, f.get("rk")

    def var_names(self):
        """local index -> user variable name (only for whole-local debug info)."""
        c = self._cache.get("varnames")
        if c is None:
            c = {}
            for v in self.vars:
                p = v.get("p")
                if p and not p.get("pr"):
                    c.setdefault(p["l"], v["name"])
            self._cache["varnames"] = c
        return c

    def in_testonly(self):
        return "::testonly" in self.path or "::tests::" in self.path or self.path.endswith("::tests") or "/testonly" in self.file or "/tests/" in self.file or self.file.endswith("/tests.rs") or self.file.endswith("testonly.rs")

    def __repr__(self):
        return "<Fn %s>" % self.qname

    def loc(self, ln=None):
        return "node/%s:%s" % (self.file, ln if ln is not None else self.lo)


class Crate:
    def __init__(self, d):
        self.name = d["crate"]
        self.tree_hash = d.get("tree_hash")
        self.types = [Ty(t) for t in d["types"]]
        self.items = [Item(t) for t in d["items"]]
        self.adts = d["adts"]
        self.impls = d["impls"]
        self.consts = d["consts"]
        self.traits = d["traits"]
        self.mods = d["mods"]
        self.extern = d["extern"]
        self.missing = d["missing"]
        self.fns = [Fn(f, self) for f in d["fns"]]


class Facts:
    def __init__(self, facts_dir):
        self.dir = facts_dir
        self.crates = {}
        texts = {}
        for name in CRATES:
            p = os.path.join(facts_dir, name + ".json")
            if not os.path.exists(p):
                raise RuntimeError("ANALYSIS-ERROR: fact file missing for crate %s (%s)" % (name, p))
            with open(p) as fh:
                texts[name] = fh.read()
        raw = {name: json.loads(t) for name, t in texts.items()}
        # moved / renamed types, constants and free functions are rewritten to the paths the rules know (engine/aliases.py)
        from . import aliases as _aliases
        self.aliases = _aliases.compute(raw)
        if self.aliases:
            texts = _aliases.apply(texts, self.aliases)
            raw = {name: json.loads(t) for name, t in texts.items()}
        self.field_aliases = _aliases.field_aliases(raw, self.aliases)
        _aliases.apply_fields(raw, self.field_aliases)
        for name in CRATES:
            self.crates[name] = Crate(raw[name])
        # a renamed function keeps its reviewed short name as well (qnames of methods are built from it)
        renamed_last = {old: old.rsplit("::", 1)[1] for new, old in self.aliases.items() if new.rsplit("::", 1)[1] != old.rsplit("::", 1)[1]}
        if renamed_last:
            for c in self.crates.values():
                for it in c.items:
                    if it.path in renamed_last and it.dk in ("Fn", "AssocFn"):
                        it.name = renamed_last[it.path]
        self.fns = []
        self.by_path = {}
        for c in self.crates.values():
            if c.missing:
                raise RuntimeError("ANALYSIS-ERROR: driver coverage gap in %s: %s" % (c.name, c.missing[:3]))
            for f in c.fns:
                self.fns.append(f)
                self.by_path[f.path] = f
        # qnames: items first (roots before closures)
        self._item_qname = {}
        for c in self.crates.values():
            for it in c.items:
                if it.root is None:
                    it.qname = qname_of(it)
                    self._item_qname[it.path] = it.qname
        for c in self.crates.values():
            for it in c.items:
                if it.root is not None:
                    rq = self._item_qname.get(it.root)
                    if rq is None:
                        rq = it.root
                    it.qname = qname_of(it, rq)
                    self._item_qname[it.path] = it.qname
        # functions aliased to a reviewed path keep the reviewed qualified name too (an associated fn turned free fn)
        if self.aliases:
            try:
                with open(_aliases.TABLE) as fh:
                    base_fns = json.load(fh).get("fns", {})
            except OSError:
                base_fns = {}
            forced = {old: base_fns[old][4] for old in self.aliases.values() if old in base_fns and len(base_fns[old]) > 4}
            if forced:
                for c in self.crates.values():
                    for it in c.items:
                        if it.root is None and it.path in forced:
                            it.qname = forced[it.path]
                            self._item_qname[it.path] = it.qname
                for c in self.crates.values():
                    for it in c.items:
                        if it.root is not None and it.root in forced:
                            it.qname = qname_of(it, forced[it.root])
                            self._item_qname[it.path] = it.qname
        self.by_qname = {}
        for f in self.fns:
            f.qname = f.item.qname
            self.by_qname.setdefault(f.qname, []).append(f)
        for f in self.fns:
            if f.parent_path:
                f.parent = self.by_path.get(f.parent_path)
                if f.parent:
                    f.parent.children.append(f)
        # ADTs / consts / impls (global)
        self.adts = {}
        self.consts = {}
        self.impls = []
        self.traits = {}
        self.mods = {}
        self.extern = {}
        for c in self.crates.values():
            for a in c.adts:
                a["crate"] = c.name
                a["_types"] = c.types
                self.adts[a["path"]] = a
            for k in c.consts:
                k["crate"] = c.name
                self.consts[k["path"]] = k
            for i in c.impls:
                i["crate"] = c.name
                self.impls.append(i)
            for t in c.traits:
                self.traits[t["path"]] = t
            for m in c.mods:
                self.mods[m["path"]] = m
            for e in c.extern:
                self.extern.setdefault(e["path"], e)

    # ---------------------------------------------------------------------------------
    def fn(self, qname):
        """Exactly one body with this qname (raises otherwise)."""
        l = self.by_qname.get(qname, [])
        if len(l) != 1:
            raise KeyError("anchor %r: expected exactly one body, found %d" % (qname, len(l)))
        return l[0]

    def find(self, pred):
        return [f for f in self.fns if pred(f)]

    def methods(self, self_def, name):
        """Bodies of inherent/trait methods called `name` on ADT `self_def` (path)."""
        return [f for f in self.fns if f.item.impl_self_def == self_def and f.item.name == name]

    def body_of(self, f):
        """For an async fn / fn returning an async block: the coroutine child holding the real body.
        `#[tracing::instrument]` wraps the user code in one more `async move {}` block: descend through
        wrappers whose inner coroutine is constructed inside the attribute macro's expansion."""
        cor = [c for c in f.children if c.kind == "coroutine"]
        if not (f.is_async and len(cor) >= 1):
            return f
        cur = cor[0]
        for _ in range(4):
            kids = [c for c in cur.children if c.kind == "coroutine"]
            nxt = None
            for b in cur.blocks:
                for st in b["s"]:
                    if st["k"] == "assign" and st["r"]["k"] == "agg" and st["r"]["ak"] == "coroutine" and any(m.startswith("tracing_attributes:") for m in st.get("mac", [])):
                        for k in kids:
                            if k.path == st["r"]["def"]:
                                nxt = k
            if nxt is None:
                break
            cur = nxt
        return cur

    def adt_fields(self, path, variant=None):
        a = self.adts[path]
        v = a["variants"][0] if variant is None else [x for x in a["variants"] if x["name"] == variant][0]
        return [(f["name"], a["_types"][f["t"]]) for f in v["fields"]]

    def const(self, path):
        return self.consts[path].get("v")
