"""Which rule modules serve which property, and the standing text of each evidence file."""
from .runner import register

TRUSTED = ["rustc nightly MIR construction and Instance::try_resolve", "vp-driver fact extraction (coverage assertion: every fn/method/closure body present)",
           "the Python engine (CFG, dominance, terms, call graph)", "reviewed tables under /verif/tables", "external crates behave as publicly documented"]

register("C10", ["c10"],
         "Static may-panic analysis. The fact base is rebuilt from /repo's current tree; the resolved call graph (direct calls, class-hierarchy expansion of trait/dyn calls, fn values, closures) is closed from the network runner, bft, engine and executor entry points, every ProtoFmt/ProtoRepr::read, ByteFmt/TextFmt::decode and rpc::Handler impl; every MIR overflow/div-by-zero assert, unwrap/expect, explicit panic, Index call and documented-panic external API in that closure must be machine-discharged, in the reviewed table, or is reported. Decides the 'never panics' clause structurally (over-approximation: a pass means no unreviewed panic-capable instruction is reachable); does not execute anything.",
         ["panics inside external crates are limited to their documented '# Panics' sections", "stack exhaustion and allocation failure are out of scope", "reviewed table entries are correct"],
         TRUSTED)
