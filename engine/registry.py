"""Which rule modules serve which property, and the standing text of each evidence file."""
from .runner import register

TRUSTED = ["rustc nightly MIR construction and Instance::try_resolve", "vp-driver fact extraction (coverage assertion: every fn/method/closure body present)",
           "the Python engine (CFG, dominance, terms, call graph)", "reviewed tables under /verif/tables", "external crates behave as publicly documented"]

register("C10", ["c10", "c10g", "wiring", "hazards", "pins"],
         "Static may-panic analysis. The fact base is rebuilt from /repo's current tree; the resolved call graph (direct calls, class-hierarchy expansion of trait/dyn calls, fn values, closures) is closed from the network runner, bft, engine and executor entry points, every ProtoFmt/ProtoRepr::read, ByteFmt/TextFmt::decode and rpc::Handler impl; every MIR overflow/div-by-zero assert, unwrap/expect, explicit panic, Index call and documented-panic external API in that closure must be machine-discharged, in the reviewed table, or is reported. Decides the 'never panics' clause structurally (over-approximation: a pass means no unreviewed panic-capable instruction is reachable); does not execute anything.",
         ["panics inside external crates are limited to their documented '# Panics' sections", "stack exhaustion and allocation failure are out of scope", "reviewed table entries are correct"],
         TRUSTED)

register("C03", ["c03", "c03x", "phase_gate", "hazards", "pins"],
         "Static dominance analysis over MIR-as-built (before the coroutine transform, so `backup().await?; send()` is a straight path). Decides on ALL paths - hence for every crash point - that each send/sign of a ReplicaCommit/ReplicaTimeout/ReplicaNewView in bft is dominated by the success of the awaited durable write (backup_state -> EngineManager::set_state -> dyn EngineInterface::set_state), that nothing in the persisted set changes between the write and the send, that the vote recorded before the backup is the vote signed, that backup and restore agree field by field, and the phase gate/view monotonicity tables. Does not execute the code; durability of the execution layer's set_state is trusted.",
         ["EngineInterface::set_state is durable and atomic (trusted interface)", "&mut self exclusivity of the replica state machine (Rust borrow rules)"],
         TRUSTED)

register("C05", ["c05", "c05x", "phase_gate", "hazards", "pins"],
         "Static guard-table analysis by finite abstraction: for each decision of the replica (certificate adoption, stale-message gates, new-view catch-up, leader check) atoms are declared on types and field names (cmp(msg.view, self.view), held certificate None/Some, cmp of certificate views, self.phase) and for every valuation the CFG of the handler (MIR-as-built) is walked following only consistent edges; the set of valuations reaching the adoption/processing/vote site is compared with the table stated in the property and spec/informal-spec/replica.rs. Plus exact who-may-write sets of the five view-change fields and term checks on emitted justifications. Conformance of every reaction in every reachable state is not decided.",
         ["certificates passed to process_*_qc were verified by the caller (C04.9)", "&mut self exclusivity of the replica"],
         TRUSTED)

register("C08", ["c08", "c08x", "hazards", "pins"],
         "Static who-may-call / must-pass-through / guard-table analysis of the block store: the only door into the store (BlockStore::try_push, one caller, executed inside the watch's send_if_modified closure) is dominated per Block variant by the successful verification of that very block; the store's fields, constructor and watch mutations have exact caller sets; try_push appends only the next number; update_persisted never shrinks the persisted range and resets queue+cache together; eviction, the single storage writer's selection term, the peer-block number check and the get_block gate are decided as tables/terms on the current MIR. Read-back under arbitrary interleavings with the persistence layer is not decided.",
         ["the EngineInterface implementation stores what it is handed (trusted interface)", "watch::send_if_modified runs its closure under the watch lock (tokio documentation)"],
         TRUSTED)

register("C07", ["c07", "c07x", "hazards", "pins"],
         "Static term comparison: the return terms of max_faulty_weight / quorum_threshold / subquorum_threshold (MIR, overflow plumbing stripped) are compared with the reference formulas f=(n-1)/5, q=n-f, s=n-3f; an operation census forbids any other arithmetic or cast; the domain n in [1, 2^64-1] is decided from Schedule::new (only constructor, private fields) by guard tables over every loop iteration (no duplicate, weight > 0, checked_add) and the Ok return (non-empty validators and leaders). The inequalities themselves follow from the fixed hand lemma in DESIGN.md section 5 (C07); the checker pins the code to the formulas the lemma is about.",
         ["the lemma in DESIGN.md (integer arithmetic, n >= 1) is correct"],
         TRUSTED)

register("C11", ["c11", "c11x", "hazards", "pins"],
         "Static analysis of Schedule::view_leader and Schedule::new: may-panic inventory over the call-graph closure (totality), term and guard-table checks that the returned key is indexed through the leaders list built from exactly the leader-flagged validators and that the weighted draw is reduced modulo the very sum the cumulative walk covers (eligible-only), container-kind facts (BTreeMap, no hashed iteration: order independence), an API census of the closure against clock/RNG/environment prefixes (determinism), and the frequency-0 division. Rotation cadence and weight-proportional share are value-level and not decided.",
         ["num_bigint / Keccak256 are deterministic pure functions"],
         TRUSTED)

register("C16", ["c16", "hazards", "pins"],
         "Static guard tables and who-may-call facts: the selection function's full 12-row table (sender, kind, view order) is enumerated on its MIR; the filter term is verify().is_ok(); the prunable channel's send is decided structurally (filtered values never reach the buffer, retain/keep tables, append iff keep, only retain/push_back/pop_front mutate the VecDeque => FIFO among retained); in the replica, cache insertions for commit and timeout votes are admitted only under membership/view/newer-than-last-vote/valid-signature/valid-message (144 valuations each), pruning to active views post-dominates insertion and a formed certificate is removed. The numeric size bound follows from these facts by the argument in DESIGN.md, not computed by the tool.",
         ["tokio watch::send_modify runs the closure under the watch lock"],
         TRUSTED)

register("C12", ["c12", "sigchain_node", "wiring", "hazards", "pins"],
         "Static guard tables, term checks, dominance and who-may-call facts: the four handshake functions are enumerated over genesis/session/signature/(peer) atoms and Ok must be reachable in exactly the all-true row; the session id compared and signed is SessionId(encode(id(<the stream parameter>))) and Stream.id is the noise handshake hash; the identity returned is the key of the very signature that verified; in the four stream runners insert is dominated by handshake success, serving and remove are dominated by insert success, remove post-dominates on normal completion with the same key; the pool's insert/remove closures are enumerated as tables; pool construction terms and the callers of rpc::Service::run are exact sets. Unforgeability of signatures and secrecy of the noise session are cryptographic assumptions.",
         ["ed25519/BLS signature unforgeability and the noise handshake hash binding (snow) hold", "tokio watch runs the guarded closures under its lock"],
         TRUSTED)

register("C04", ["c04", "c04x", "sigchain", "c07", "hazards", "pins"],
         "Static conjunctive guard tables on the verification code itself: for CommitQC::verify, TimeoutQC::verify (per loop iteration and after the loop), CommitQC::add / TimeoutQC::add (sibling rule), FinalBlock::verify and View::verify each check is an atom and the accepting site (signature check whose result is returned, union update, bit/signature mutation, Ok) must be reachable only on the all-checks-passed row; operands are compared as terms (weight of the certificate's own signers vs the same schedule's quorum threshold; keys derived from the same signer bitmap); type-directed obligations generated from the ADTs require every nested vote/certificate field to be verified; in the four bft handlers every state change is dominated by both verifications. Decides the soundness direction ('accepted only if ...') structurally; the completeness direction and the cryptography are not claimed.",
         ["BLS aggregate signature verification (blst) is sound", "Signers::weight sums exactly the set bits' weights (checked as C10 guard obligation)"],
         TRUSTED)

register("C18", ["c18", "sigchain", "hazards", "pins"],
         "Static guard table of ValidatorAddrs::update over every batch entry (duplicate / member / stored / newer / signature atoms; 32 valuations) deciding when an entry is stored, verified, skipped or fails the batch; the all-or-nothing publish is decided structurally (the batch is applied to a local produced by Clone::clone, send_replace is dominated by the batch's success and runs only on Ok(true), no other caller applies a batch); is_newer is compared as a term with the strict lexicographic (version, timestamp) order; exact writer set of the address map; the RPC handler passes the current epoch's schedule. Convergence across nodes follows from the total order and is not computed.",
         ["validator signature unforgeability", "tokio watch lock serialises updates"],
         TRUSTED)

register("C02", ["c02", "c02x", "c04", "sigchain", "hazards", "pins"],
         "Static decision tables and ingredient terms of the re-proposal rule: get_implied_block is enumerated over (justification kind, high vote, high QC, number order) and each outcome site is classified by its return terms; TimeoutQC::high_vote is checked for what it tallies (key = the voted BlockHeader, quantity = Signers::weight, only entries with a vote), the qualifying comparison (>= subquorum_threshold) and uniqueness (exactly one); high_qc is compared with max-by-view over the entries' high QCs; the replica's payload table (vote only for the implied hash, or for a fresh payload after verify_payload succeeded) and the proposer's table are enumerated; certificate verification obligations are imported from C04. The combinatorial safety argument (2f < n-3f) rests on C07 and the hand lemma; multi-view histories are not explored.",
         ["the C07 lemma", "certificates inside accepted messages were verified (C04 rules run with this property)"],
         TRUSTED)

register("C17", ["c17", "c17w", "hazards", "pins"],
         "Static dominance, guard tables and who-may-call facts over the scope runtime (generic MIR): run/run_blocking read the recorded failure and return only after the joined root task and the completed wait for the `terminated` signal, with the cancel guard dropped first; each spawn method wraps user code in Task::run/run_blocking of a guard-holding task; the PanicReporter is armed before and defused after the user code, Err results and un-defused drops are reported through set_err; set_err's 6-row table (a panic is never overwritten, an error only by a panic, cancel iff stored) and the result mapping table are enumerated; the unsafe lifetime-erasing spawns have exact caller sets and are private. Schedule-dependent clauses (which failure is first, cancellation latency) and the tokio runtime are not decided.",
         ["tokio joins/aborts tasks as documented; Arc/Weak drop semantics", "scope::run! is the only caller of Scope::run (macro hygiene)"],
         TRUSTED)

register("C14", ["c14", "hazards", "pins"],
         "Static dominance, term and table checks of the multiplexer's flow-control and reuse mechanisms: in the inbound frame loop buffer allocation and frame hand-over are dominated by the count and byte permit acquisitions of exactly the allocated size (bounded by read_frame_size), frames carry their permits and Frame drops data before permits; semaphores come from the configured limits and Mux::run is dominated by verify(); stream counts per capability are the minimum of both sides' limits with consecutive ids and checked lookup; per iteration a new transient stream is handed out only after the previous one was closed, the limiter permit, the reservation and the OPEN exchange; on reuse the reader discards the cached partial frame and resets close_received, and stops at CLOSE; a census of narrowing casts. Isolation and ordering under all interleavings are not decided.",
         ["tokio semaphores/channels behave as documented", "ExclusiveLock hands the half back only when the previous Stream is dropped"],
         TRUSTED)

register("C01", ["c01", "c02", "c03", "phase_gate", "c04", "sigchain", "c07", "c08", "hazards", "pins"],
         "Agreement itself (a statement over all schedules, Byzantine behaviours and crash points) is NOT decided by static analysis. This check decides that the four anchored safety mechanisms are intact and wired together on the current MIR: certificate provenance at every adoption site, the commit path (only adopted certificates finalize, block = certificate + hash-keyed cached payload, stored through the verifying engine manager), the vote being for the implied block, plus the imported rule sets: one vote per view and persist-before-send (C03), re-proposal rule (C02), certificate verification (C04), threshold arithmetic (C07), verified append-only store (C08). Breaking any of these breaks agreement; satisfying all of them does not prove it.",
         ["the ChonkyBFT safety argument for the combination of the mechanisms (spec/)", "C07 lemma"],
         TRUSTED)

register("C15", ["c15", "wiring", "hazards", "pins"],
         "The numeric clause (at most b + T/r + 1 permits per window, arrival-order service under every interleaving) quantifies over runtime values and schedules and is NOT decided. This check decides the structural mechanisms that are necessary for it: acquire reserves permits only after its last cancellation point and under the fair mutex held from lock to reservation; limiter state has exactly three writers and permits are consumed only in Permit::drop after refreshing; every OPEN is preceded by a limiter permit in its iteration; handlers run only in tasks spawned after a stream reservation from a queue of R::INFLIGHT streams, one request per stream; every production server/client is created with the rate of its own RPC kind; a request above the burst never returns; and the deadline arithmetic is pinned to its formulas (start + duration_or_max(refresh*need), quotient and remainder of the same nanosecond count).",
         ["tokio Mutex is FIFO-fair as documented", "the ctx clock is monotone"],
         TRUSTED)

register("C09", ["c09", "hazards", "pins"],
         "The value-level clause decode(encode(v)) == v for every value cannot be decided statically and is NOT claimed. Decided structural necessary conditions: every proto field written by build() is consumed by read() for all ProtoFmt/ProtoRepr impls; no hashed-container iteration order reaches an encoding (found and repaired F8); no narrowing casts in codecs; all hashes/signatures are Keccak256 of the canonical encoding and encode = canonical; the canonicaliser orders fields by tag, rejects repeated singular fields and recurses; code generation is gated by the schema's canonical check; and a census pins the conversions used inside decoders/encoders to a reviewed value-preserving set.",
         ["prost / quick_protobuf encode and decode the wire format correctly", "reviewed conversions in tables/codec_api.json are value preserving"],
         TRUSTED)

register("C13", ["c13", "hazards", "pins"],
         "Byte-exact delivery over every fragmentation/pending pattern is a composition of poll state machines over time and is NOT decided; tamper evidence is the AEAD inside snow. Decided structural necessary conditions: the framing constants agree (65535 / 16 / 2) and size the buffers; reader and writer agree on the frame format as terms (little-endian u16 prefix of the ciphertext length, completeness test len >= 2+n, decrypt [2..2+n], consume 2+n, compact, expose m bytes; encrypt into capacity[2..], prefix, extend 2+n, clear payload) and every step lies on every path after the cryptographic call's success (post-dominance); the frame buffer is reused only after a completed flush and flush/shutdown go payload -> frame -> inner; errors, zero-byte writes and EOF surface; and the small Buffer type matches its reference transformer method by method.",
         ["snow encrypts/decrypts and authenticates frames as specified (Noise NN, ChaChaPoly)", "AsyncRead/AsyncWrite contracts of the inner stream"],
         TRUSTED)

register("C19", ["c19", "c19w", "c08", "hazards", "pins"],
         "Freedom from lost wake-ups and double hand-over under all interleavings is a concurrent-protocol property that needs a model checker and is NOT decided. Decided structural mechanisms: a request is taken for a peer only after the completed wait for that peer's announced state to contain the lowest pending number, and exactly that number is removed, atomically inside one watch closure, from the state pushed on that very connection; the acceptor returns only an entry it removed itself; the requester's retry table (done -> return, completion dropped -> re-insert, cancelled -> remove) is enumerated; completion is signalled only after the fetched block was queued (number-checked and verified, C08); the fetcher bounds each request by queued/persisted.",
         ["tokio watch/oneshot semantics", "the peer's push_block_store_state handler stores what the peer announced"],
         TRUSTED)

register("C06", ["c06", "c16", "wiring", "hazards", "pins"],
         "Progress (a liveness statement over fair suffixes of all schedules) is NOT decided by static analysis. This check decides the presence and wiring of the mechanisms the property's anchors name, as necessary conditions: the replica loop turns an expired receive deadline into a timeout and keeps looping; on every successful path and in every phase the timeout starter re-arms the timer and re-sends ReplicaTimeout and (for view != 0) ReplicaNewView - the retransmission that un-sticks lagging replicas; view 0 bootstraps with a timeout; new-view/commit/timeout handlers start newer views; the view starter publishes the justification to the proposer, broadcasts new-view and resets the deadline; the proposer proposes iff it leads the justified view, bounded by the view timeout; the input queue keeps the freshest vote (C16).",
         ["timeouts keep firing and messages are eventually delivered (the property's own premises)"],
         TRUSTED)
