"""Virtual inlining of private helper functions into the bodies the rules analyse.

A behaviour-preserving "extract helper" refactoring moves checks, writes or sends out of the function a
rule is anchored on. To keep intra-procedural rules (dominance, guard tables, terms) meaningful, the
body handed to a rule is the anchor's MIR with the MIR of its *helpers* spliced in:

  * a helper is a non-exported function of the same crate that is not itself an anchor of any rule
    (NO_INLINE: every function name mentioned in rules/*.py and every role of engine/roles.py), has at
    most MAX_SITES call sites in the workspace, is not recursive and is small;
  * a synchronous helper call `d = h(a..)` becomes: parameter assignments, goto h.entry; each
    `return` of h becomes `d = move ret; goto <call target>`;
  * an async helper is spliced at the `Future::poll => h::{closure#0}` site of the await loop: the
    coroutine's environment local is defined as an aggregate of the arguments of the `h(a..)` call,
    each `return` becomes `poll_dest = Poll::Ready(move ret); goto <poll target>`.

The result is an over-approximation of the original control flow (the Pending edge of an inlined poll
re-enters the helper), which is the sound direction for must-not-reach rows and dominance.
"""
import copy, os, re

MAX_SITES = 3
MAX_BLOCKS = 700
MAX_DEPTH = 3

_NO_INLINE_SUFFIXES = None


def no_inline_suffixes():
    """Every lower-case identifier that follows `::` in the rule sources and in engine/roles.py: a function
    (or module) name a rule refers to. A function with such a name is an anchor and is never inlined."""
    global _NO_INLINE_SUFFIXES
    if _NO_INLINE_SUFFIXES is not None:
        return _NO_INLINE_SUFFIXES
    here = os.path.dirname(os.path.dirname(os.path.abspath(__file__)))
    names = set()
    rx = re.compile(r"::([a-z_][A-Za-z0-9_]*)")
    files = [os.path.join(here, "engine", "roles.py"), os.path.join(here, "engine", "terms.py"), os.path.join(here, "engine", "query.py"), os.path.join(here, "engine", "panics.py")]
    files += [os.path.join(here, "rules", fn) for fn in os.listdir(os.path.join(here, "rules")) if fn.endswith(".py")]
    rq = re.compile(r"[\"']([a-z_][a-z0-9_]*)[\"']")
    for fp in files:
        txt = open(fp).read()
        for m in rx.finditer(txt):
            names.add("::" + m.group(1))
        if os.sep + "rules" + os.sep in fp:
            for m in rq.finditer(txt):
                names.add("::" + m.group(1))
    _NO_INLINE_SUFFIXES = names
    return names


class InlineIndex:
    def __init__(self, F, cg, role_names=()):
        self.F = F
        self.cg = cg
        self.role_names = set(role_names)
        self.sites = {}          # callee Fn -> number of call sites (call terminators resolving to it)
        for f in F.fns:
            if f.in_testonly():
                continue
            for b in f.blocks:
                t = b["t"]
                if t["k"] == "call" and "decl" in t["f"]:
                    d, r, rk = f.callee(t)
                    if r is not None and rk == "item":
                        g = F.by_path.get(r.path)
                        if g is not None:
                            self.sites[g] = self.sites.get(g, 0) + 1
        self._helper = {}
        self._inl = {}
        self.names = [n.split("::")[-1] for n in no_inline_suffixes()]
        self.name_set = set(self.names)
        # the reviewed list of anchors (fully qualified); a function that is not on it is never an anchor just
        # because its short name collides with one
        self.anchors = None
        ap = os.path.join(os.path.dirname(os.path.dirname(os.path.abspath(__file__))), "tables", "anchors.json")
        if os.path.exists(ap):
            import json
            with open(ap) as fh:
                self.anchors = set(json.load(fh)["anchors"])

    def user_fn(self, g):
        """the user-level function of a body (the async fn for its coroutine)"""
        while g.parent is not None:
            g = g.parent
        return g

    def is_helper(self, g):
        """g: a fn/method Fn (not a closure)."""
        r = self._helper.get(g)
        if r is not None:
            return r
        ok = True
        if g.kind not in ("fn", "method") or g.in_testonly():
            ok = False
        elif g.qname in self.role_names or (g.qname in self.anchors if self.anchors is not None else g.name in self.name_set):
            ok = False
        elif g.reach or g.vis == "pub":
            ok = False
        elif g.item.impl_trait is not None:
            ok = False
        else:
            n = self.sites.get(g, 0)
            body = self.F.body_of(g)
            if n == 0 or n > MAX_SITES or len(body.blocks) > (MAX_BLOCKS if n > 1 else 4 * MAX_BLOCKS):    # a helper with one call site is moved, not duplicated
                ok = False
            else:
                # not recursive through statically resolved calls (only those are spliced; a cycle that passes a trait
                # call on a generic parameter - Stream<S>::poll_read calling S::poll_read - is a different instance)
                why = self.cg.edge_why
                seen = {g}
                st = [g]
                rec = False
                while st and not rec:
                    x = st.pop()
                    for y in self.cg.edges.get(x, ()):
                        if why.get((x, y)) not in ("direct", "closure") or y.in_testonly():
                            continue
                        if y is g:
                            rec = True
                            break
                        if y not in seen:
                            seen.add(y)
                            st.append(y)
                if rec:
                    ok = False
        self._helper[g] = ok
        return ok

    def helper_of_body(self, body):
        """If `body` (fn or coroutine) is the code of an inlinable helper, the helper's user-level Fn."""
        u = self.user_fn(body)
        if body is u or body is self.F.body_of(u):
            return u if self.is_helper(u) else None
        return None

    # ------------------------------------------------------------------
    def inlined(self, f, depth=0):
        """Fn-like object for body f with helper bodies spliced in (memoised)."""
        if depth == 0 and f in self._inl:
            return self._inl[f]
        blocks = [dict(b, s=list(b["s"])) for b in f.blocks]
        locals_ = list(f.locals)
        vars_ = list(f.vars)
        changed = False
        bi = 0
        # iterate over the original blocks only; spliced code is inlined recursively before splicing
        nb0 = len(blocks)
        while bi < nb0:
            t = blocks[bi]["t"]
            if t["k"] == "call" and "decl" in t["f"] and depth < MAX_DEPTH:
                d, r, rk = f.callee(t)
                g = self.F.by_path.get(r.path) if (r is not None and rk == "item") else None
                if g is not None and g.crate == f.crate:
                    if g.kind in ("fn", "method") and not g.is_async and self.is_helper(g) and "t" in t:
                        gi = self.inlined(g, depth + 1)
                        self._splice_sync(blocks, locals_, vars_, bi, t, gi)
                        changed = True
                    elif g.kind == "coroutine" and d.qname == "std::future::Future::poll" and "t" in t:
                        u = self.user_fn(g)
                        if u.is_async and self.F.body_of(u) is g and self.is_helper(u):
                            create = self._find_creation(f, blocks, nb0, u, t)
                            if create is not None:
                                gi = self.inlined(g, depth + 1)
                                self._splice_async(blocks, locals_, vars_, bi, t, gi, create, f)
                                changed = True
            bi += 1
        if not changed:
            res = f
        else:
            res = copy.copy(f)
            res.blocks = blocks
            res.locals = locals_
            res.vars = vars_
            res._cache = {}
            res.inlined_from = f
        if depth == 0:
            self._inl[f] = res
        return res

    def _find_creation(self, f, blocks, nb0, u, poll=None):
        found = []
        for bi in range(nb0):
            t = blocks[bi]["t"]
            if t["k"] == "call" and "decl" in t["f"]:
                d, r, rk = f.callee(t)
                if r is not None and r.path == u.path:
                    found.append(t)
        if len(found) == 1:
            return found[0]
        if len(found) > 1 and poll is not None and poll.get("args"):
            # several futures of this helper are created in the body (one per branch): the one polled here is the one
            # the pinned receiver derives from (create -> into_future -> awaitee -> &mut -> Pin)
            dests = {t["dest"]["l"]: t for t in found if not t["dest"].get("pr")}
            defs = f._cache.get("defs_inl")
            if defs is None:
                defs = {}
                for blk in f.blocks:
                    for st in blk["s"]:
                        if st["k"] == "assign" and not st["p"].get("pr"):
                            defs.setdefault(st["p"]["l"], []).append(("s", st["r"]))
                    tt = blk["t"]
                    if tt["k"] == "call" and not tt["dest"].get("pr"):
                        defs.setdefault(tt["dest"]["l"], []).append(("c", tt))
                f._cache["defs_inl"] = defs

            def lop(o):
                pl = o.get("c") or o.get("m")
                return pl["l"] if pl is not None and not [e for e in pl.get("pr", []) if e != "*"] else None
            cur = lop(poll["args"][0])
            for _ in range(12):
                if cur is None:
                    break
                if cur in dests:
                    return dests[cur]
                ds = defs.get(cur, [])
                if len(ds) != 1:
                    break
                kind, d = ds[0]
                if kind == "s":
                    if d["k"] == "use":
                        cur = lop(d["o"])
                    elif d["k"] in ("ref", "rawptr"):
                        cur = d["p"]["l"] if not [e for e in d["p"].get("pr", []) if e != "*"] else None
                    else:
                        break
                else:
                    if len(d["args"]) != 1 or "decl" not in d["f"]:
                        break
                    q = f.callee(d)[0].qname
                    if q not in ("std::pin::Pin::new_unchecked", "std::pin::Pin::new", "std::future::IntoFuture::into_future"):
                        break
                    cur = lop(d["args"][0])
        return None

    # ------------------------------------------------------------------
    @staticmethod
    def _map_place(p, off):
        q = dict(p)
        q["l"] = p["l"] + off
        if "pr" in p:
            pr = []
            for e in p["pr"]:
                if isinstance(e, dict) and "i" in e:
                    e = dict(e, i=e["i"] + off)
                pr.append(e)
            q["pr"] = pr
        return q

    @classmethod
    def _map_op(cls, o, off):
        if "c" in o:
            return {"c": cls._map_place(o["c"], off)}
        if "m" in o:
            return {"m": cls._map_place(o["m"], off)}
        return o

    @classmethod
    def _map_rv(cls, r, off):
        q = dict(r)
        for k in ("o", "a", "b"):
            if k in r and isinstance(r[k], dict):
                q[k] = cls._map_op(r[k], off)
        if "p" in r:
            q["p"] = cls._map_place(r["p"], off)
        if "ops" in r:
            q["ops"] = [cls._map_op(o, off) for o in r["ops"]]
        return q

    @classmethod
    def _map_block(cls, b, off, base, origin=None):
        nb = {"s": []}
        if b.get("cleanup"):
            nb["cleanup"] = True
        for s in b["s"]:
            if s["k"] == "assign":
                nb["s"].append(dict(s, p=cls._map_place(s["p"], off), r=cls._map_rv(s["r"], off)))
            elif s["k"] == "setdiscr":
                nb["s"].append(dict(s, p=cls._map_place(s["p"], off)))
            elif s["k"] == "dead":
                nb["s"].append(dict(s, l=s["l"] + off))
            else:
                nb["s"].append(s)
        t = dict(b["t"])
        for k in ("t", "u", "else", "resume", "drop", "imag"):
            if k in t and t[k] is not None:
                t[k] = t[k] + base
        if "vals" in t:
            t["vals"] = [[v, x + base] for v, x in t["vals"]]
        for k in ("p", "dest", "ra"):
            if k in t:
                t[k] = cls._map_place(t[k], off)
        for k in ("d", "cond", "v"):
            if k in t and isinstance(t[k], dict):
                t[k] = cls._map_op(t[k], off)
        if "args" in t:
            t["args"] = [cls._map_op(a, off) for a in t["args"]]
        if "f" in t and "o" in t["f"]:
            t["f"] = dict(t["f"], o=cls._map_op(t["f"]["o"], off))
        if "msg" in t:
            m = dict(t["msg"])
            for k in ("a", "b"):
                if k in m:
                    m[k] = cls._map_op(m[k], off)
            t["msg"] = m
        if origin is not None:
            t.setdefault("of", origin[0])
            t.setdefault("of_file", origin[1])
            for st in nb["s"]:
                if isinstance(st, dict) and "of" not in st:
                    st["of"] = origin[0]
                    st["of_file"] = origin[1]
        nb["t"] = t
        return nb

    def _splice_sync(self, blocks, locals_, vars_, bi, call, g):
        off = len(locals_)
        base = len(blocks)
        locals_.extend(g.locals)
        for v in g.vars:
            if v.get("p") and not v["p"].get("pr"):
                vars_.append(dict(v, p=self._map_place(v["p"], off)))
        dest = call["dest"]
        target = call["t"]
        ln = call.get("ln", 0)
        for gbi, b in enumerate(g.blocks):
            nb = self._map_block(b, off, base, (g.qname, g.file))
            nb["t"].setdefault("ob", gbi)
            if nb["t"]["k"] == "return":
                nb["s"].append({"k": "assign", "p": dest, "r": {"k": "use", "o": {"m": {"l": off, "t": dest.get("t", 0)}}}, "ln": nb["t"].get("ln", ln)})
                nb["t"] = {"k": "goto", "t": target, "ln": nb["t"].get("ln", ln)}
            blocks.append(nb)
        pre = blocks[bi]
        for i, a in enumerate(call["args"]):
            pre["s"].append({"k": "assign", "p": {"l": off + 1 + i, "t": 0}, "r": {"k": "use", "o": a}, "ln": ln, "inl": g.qname})
        pre["t"] = {"k": "goto", "t": base, "ln": ln, "inlined_call": g.qname, "dest": dest, "cont": target, "args": list(call["args"])}

    def _splice_async(self, blocks, locals_, vars_, bi, poll, g, create, f):
        off = len(locals_)
        base = len(blocks)
        locals_.extend(g.locals)
        for v in g.vars:
            if v.get("p") and not v["p"].get("pr"):
                vars_.append(dict(v, p=self._map_place(v["p"], off)))
        dest = poll["dest"]
        target = poll["t"]
        ln = poll.get("ln", 0)
        create["async_spliced"] = True
        for gbi, b in enumerate(g.blocks):
            nb = self._map_block(b, off, base, (g.qname, g.file))
            nb["t"].setdefault("ob", gbi)
            if nb["t"]["k"] == "return":
                nb["s"].append({"k": "assign", "p": dest,
                                "r": {"k": "agg", "ak": "adt", "def": "std::task::Poll", "variant": "Ready", "vi": 0, "fields": ["0"],
                                      "ops": [{"m": {"l": off, "t": 0}}]}, "ln": nb["t"].get("ln", ln)})
                nb["t"] = {"k": "goto", "t": target, "ln": nb["t"].get("ln", ln)}
            blocks.append(nb)
        pre = blocks[bi]
        names = [c["name"] for c in g.captures]
        pre["s"].append({"k": "assign", "p": {"l": off + 1, "t": 0},
                         "r": {"k": "agg", "ak": "adt", "def": g.path, "variant": "{async fn env}", "vi": 0, "fields": names, "ops": list(create["args"])[:len(names)]},
                         "ln": ln, "inl": g.qname})
        if len(poll["args"]) > 1:
            pre["s"].append({"k": "assign", "p": {"l": off + 2, "t": 0}, "r": {"k": "use", "o": poll["args"][1]}, "ln": ln})
        pre["t"] = {"k": "goto", "t": base, "ln": ln, "inlined_call": g.qname}
        # The block after the poll switches on Ready/Pending of the poll result. It is now reached only
        # from the spliced returns, i.e. always with Ready: make that explicit, otherwise the Pending
        # edge would re-enter the helper (a spurious loop through code that runs once).
        tb = blocks[target]
        tt = tb["t"]
        if tt["k"] == "switch":
            dl = (tt["d"].get("c") or tt["d"].get("m") or {}).get("l")
            for st in tb["s"]:
                if st["k"] == "assign" and st["p"]["l"] == dl and st["r"]["k"] == "discr" and st["r"]["p"]["l"] == dest["l"] and "variants" in st["r"]:
                    rv = [v for v, n in st["r"]["variants"] if n == "Ready"]
                    tg = [b for v, b in tt["vals"] if rv and v == rv[0]]
                    if tg:
                        blocks[target] = dict(tb, t={"k": "goto", "t": tg[0], "ln": tt.get("ln", ln)})


def apply(F, role_names=()):
    """Inline every helper into its callers, in place, and drop the helper bodies from the fact base.
    Returns the sorted qnames of the helpers that were inlined."""
    from .callgraph import CallGraph
    cg = CallGraph(F)
    idx = InlineIndex(F, cg, role_names)
    helpers = set()
    for f in F.fns:
        if f.kind in ("fn", "method") and idx.is_helper(f):
            helpers.add(f)
    if not helpers:
        return []
    drop = set()
    for h in helpers:
        drop.add(h)
        b = F.body_of(h)
        if b is not h:
            drop.add(b)
    res = {}
    for f in F.fns:
        if f in drop or f.in_testonly():
            continue
        r = idx.inlined(f)
        if r is not f:
            res[f] = r
    for f, r in res.items():
        f.raw_blocks, f.raw_locals, f.raw_vars = f.blocks, f.locals, f.vars
        f.blocks, f.locals, f.vars = r.blocks, r.locals, r.vars
        f._cache = {}
    # helpers whose every call site was inlined disappear from the analysed program
    used = set()
    for f in F.fns:
        if f in drop:
            continue
        for b in f.blocks:
            t = b["t"]
            if t["k"] == "call" and "decl" in t["f"]:
                d, r, rk = f.callee(t)
                if r is not None and rk == "item":
                    g = F.by_path.get(r.path)
                    if g in helpers and not g.is_async:
                        used.add(g)   # a sync helper call that was not spliced (e.g. depth limit)
                    elif g in helpers and g.is_async and not t.get("async_spliced"):
                        # the future of an async helper is created here but not awaited in this body (passed to
                        # select!/spawn/join): its code was not spliced anywhere for this site - keep the helper
                        used.add(g)
    gone = [h for h in helpers if h not in used]
    gone_set = set()
    for h in gone:
        gone_set.add(h)
        b = F.body_of(h)
        if b is not h:
            gone_set.add(b)
    F.helpers = {h.qname: h for h in gone}
    F.fns = [f for f in F.fns if f not in gone_set]
    for f in gone_set:
        F.by_path.pop(f.path, None)
        l = F.by_qname.get(f.qname, [])
        if f in l:
            l.remove(f)
            if not l:
                F.by_qname.pop(f.qname, None)
    return sorted(h.qname for h in gone)
