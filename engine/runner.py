"""Check runner: loads facts, runs the rule modules of one property, prints the verdict and writes evidence."""
import importlib, json, os, sys, time, hashlib

VERIF = os.path.dirname(os.path.dirname(os.path.abspath(__file__)))
from . import extract
from .facts import Facts
from .callgraph import CallGraph
from .terms import Terms
from .mir import CFG


class AnchorMissing(Exception):
    pass


class Ctx:
    def __init__(self, prop, tier, F, tree_hash):
        self.prop = prop
        self.tier = tier
        self.F = F
        self.tree_hash = tree_hash
        self._cg = None
        self._terms = {}
        self._cfg = {}
        self.obs = []          # obligations
        self.notes = []
        self.counts = {}
        self.rules = {}        # rule id -> description
        self.analysed_fns = set()
        self.tables_used = set()

    # ---- shared analyses (memoised)
    @property
    def cg(self):
        if self._cg is None:
            self._cg = CallGraph(self.F)
        return self._cg

    def T(self, fn):
        t = self._terms.get(fn)
        if t is None:
            t = Terms(fn)
            self._terms[fn] = t
            self.analysed_fns.add(fn.qname)
        return t

    def cfg(self, fn, with_cancel=True):
        k = (fn, with_cancel)
        c = self._cfg.get(k)
        if c is None:
            c = CFG(fn, with_cancel)
            c._ctx = self
            self._cfg[k] = c
            self.analysed_fns.add(fn.qname)
        return c

    # ---- anchors
    def fn(self, qname):
        try:
            return self.F.fn(qname)
        except KeyError as e:
            raise AnchorMissing(str(e))

    def body(self, qname):
        """The body holding the code of (possibly async) fn `qname`."""
        return self.F.body_of(self.fn(qname))

    # ---- results
    def rule(self, rid, desc):
        self.rules[rid] = desc

    def ob(self, rule, key, ok, what, where=None, detail=None):
        """Record one obligation. key: semantic instance key (no line numbers)."""
        self.obs.append({"rule": rule, "key": "%s %s" % (rule, key), "ok": bool(ok), "what": what,
                         "where": where, "detail": detail})
        return bool(ok)

    def floor(self, rule, what, n, minimum):
        self.counts["%s:%s" % (rule, what)] = n
        if n < minimum:
            self.ob(rule, "floor:%s" % what, False,
                    "instance count for %s fell below the confirmed floor: %d < %d (anchor missing or shape unrecognised)" % (what, n, minimum))
        else:
            self.ob(rule, "floor:%s" % what, True, "%s: %d instance(s) (floor %d)" % (what, n, minimum))

    def note(self, s):
        self.notes.append(s)

    def table(self, name):
        self.tables_used.add(name)
        with open(os.path.join(VERIF, "tables", name)) as fh:
            return json.load(fh)


def load_known():
    p = os.path.join(VERIF, "known_findings.json")
    if not os.path.exists(p):
        return {"findings": [], "fixed": []}
    with open(p) as fh:
        return json.load(fh)


PROPS = {}


def register(prop, modules, explanation, assumptions, trusted):
    PROPS[prop] = {"modules": modules, "explanation": explanation, "assumptions": assumptions, "trusted": trusted}


def run_check(prop, tier):
    t0 = time.time()
    seed = int(os.environ.get("VERIF_SEED", "0") or 0)
    from . import registry  # fills PROPS
    if prop not in PROPS:
        print("unknown property %s" % prop)
        return 2
    try:
        facts_dir, th, nfiles, ext_s = extract.ensure_facts()
        F = Facts(facts_dir)
    except RuntimeError as e:
        print(str(e))
        print("ANALYSIS-ERROR property=%s (no verdict)" % prop)
        return 2
    for c in F.crates.values():
        if c.tree_hash != th:
            print("ANALYSIS-ERROR: stale fact file for %s" % c.name)
            return 2
    from . import roles as _roles
    renamed = _roles.canonicalize(F)
    from . import inline as _inline
    inlined_helpers = _inline.apply(F, _roles.resolve(F).keys())
    ctx = Ctx(prop, tier, F, th)
    ctx.counts["helpers_inlined"] = len(inlined_helpers)
    for old_q, canon in renamed:
        ctx.note("role-resolved anchor: %s is %s in this tree" % (canon, old_q))
    for new_p, old_p in sorted(getattr(F, "aliases", {}).items()):
        ctx.note("moved/renamed item: %s is %s in this tree" % (old_p, new_p))
    for (adt_p, new_f), old_f in sorted(getattr(F, "field_aliases", {}).items()):
        ctx.note("renamed field: %s.%s is .%s in this tree" % (adt_p, old_f, new_f))
    spec = PROPS[prop]
    for mname in spec["modules"]:
        mod = importlib.import_module("rules." + mname)
        for rname, rfn in mod.RULES:
            if getattr(rfn, "thorough_only", False) and tier != "thorough":
                continue
            try:
                rfn(ctx)
            except AnchorMissing as e:
                ctx.ob(rname, "anchor", False, "anchor not found (renamed/removed or shape unrecognised): %s" % e)
            except Exception as e:  # an engine bug must never look like a pass
                import traceback
                traceback.print_exc()
                print("ANALYSIS-ERROR property=%s rule=%s: %r" % (prop, rname, e))
                return 2

    known = load_known()
    kf = {k["key"]: k for k in known.get("findings", []) if k["property"] == prop}
    viol = []
    known_hit = []
    for o in ctx.obs:
        if o["ok"]:
            continue
        if o["key"] in kf:
            known_hit.append(o)
        else:
            viol.append(o)
    evdir = os.environ.get("VP_EVIDENCE_DIR") or os.path.join(VERIF, "evidence")
    vdir = os.path.join(evdir, "violations")
    os.makedirs(vdir, exist_ok=True)
    for f in os.listdir(vdir):
        if f.startswith(prop + "-"):
            os.unlink(os.path.join(vdir, f))
    print("check %s tier=%s tree=%s files=%d bodies=%d rules=%d obligations=%d" % (
        prop, tier, th, nfiles, len(F.fns), len(ctx.rules), len(ctx.obs)))
    for rid, desc in sorted(ctx.rules.items()):
        n = sum(1 for o in ctx.obs if o["rule"] == rid)
        bad = sum(1 for o in ctx.obs if o["rule"] == rid and not o["ok"])
        print("  %-8s %3d obligations, %d failing  -- %s" % (rid, n, bad, desc))
    seen_known = set()
    for o in known_hit:
        if o["key"] in seen_known:
            continue
        seen_known.add(o["key"])
        print("KNOWN-FINDING: property=%s %s [%s] %s" % (prop, kf[o["key"]].get("what", o["what"]), o["key"], o.get("where") or ""))
    for i, o in enumerate(viol):
        path = os.path.join(vdir, "%s-%d.json" % (prop, i))
        with open(path, "w") as fh:
            json.dump({"property": prop, "rule": o["rule"], "rule_description": ctx.rules.get(o["rule"]), "instance": o["key"],
                       "what": o["what"], "where": o["where"], "detail": o["detail"], "tree": th}, fh, indent=1)
        print("  violated: [%s] %s %s" % (o["key"], o["what"], ("at " + o["where"]) if o["where"] else ""))
        print("VIOLATION property=%s replay=%s" % (prop, path))
    # ---- thorough tier: validate the checker itself on scratch copies (never on /repo)
    selftest = []
    st_fail = []
    if tier == "thorough" and not os.environ.get("VP_NO_SELFTEST"):
        from . import selftest as _st
        selftest = _st.run(prop)
        for r in selftest:
            print("  selftest %-16s %-55s %s  (%s)" % (r["kind"], r["name"], {True: "ok", False: "FAIL", None: "skipped"}[r["ok"]], r["detail"][:160]))
            if r["ok"] is False:
                st_fail.append(r)
    wall = time.time() - t0
    # evidence
    oks = [o for o in ctx.obs if o["ok"]]
    samples = []
    per_rule = {}
    for o in ctx.obs:
        per_rule.setdefault(o["rule"], []).append(o)
    for rid, l in sorted(per_rule.items()):
        for o in l[:3]:
            samples.append({"rule": rid, "instance": o["key"], "verdict": "ok" if o["ok"] else ("known-finding" if o["key"] in kf else "VIOLATION"),
                            "what": o["what"], "where": o["where"]})
    distinct = len(set(o["key"] for o in ctx.obs if not o["key"].split(" ", 1)[1].startswith("floor:")))
    ev = {
        "property_id": prop, "tier": tier, "seed": seed, "level": "other",
        "coverage": {
            "explanation": spec["explanation"],
            "obligations": len(ctx.obs),
            "discharged": len(oks),
            "evaluations": len(ctx.obs),
            "distinct_nontrivial": distinct,
            "rule": "one evaluation per rule instance (a call site, path obligation, guard-table valuation or table row found in the current MIR of /repo); distinct = distinct semantic instance keys excluding floor checks",
            "samples": samples[:60],
            "rules": {rid: {"description": d, "obligations": len(per_rule.get(rid, [])),
                            "failing": sum(1 for o in per_rule.get(rid, []) if not o["ok"])} for rid, d in sorted(ctx.rules.items())},
            "counts": ctx.counts,
            "tree_hash": th, "source_files_hashed": nfiles, "crates": len(F.crates), "bodies_in_fact_base": len(F.fns),
            "bodies_analysed_by_rules": len(ctx.analysed_fns),
            "tables_used": sorted(ctx.tables_used),
            "known_findings_matched": sorted(seen_known),
            "notes": ctx.notes[:50],
            "trusted_base": spec["trusted"],
            "checker_cmd": "./check %s %s" % (prop, tier),
            "exhaustive": False,
            "extraction_seconds": round(ext_s, 2),
            "selftest": selftest,
            "selftest_must_fire_detected": sum(1 for r in selftest if r["kind"] == "must-fire" and r["ok"]),
            "selftest_must_stay_silent_ok": sum(1 for r in selftest if r["kind"] == "must-stay-silent" and r["ok"]),
        },
        "assumptions": spec["assumptions"],
        "wall_s": round(wall, 2),
        "violations": len(viol),
    }
    os.makedirs(evdir, exist_ok=True)
    with open(os.path.join(evdir, prop + ".json"), "w") as fh:
        json.dump(ev, fh, indent=1)
    if viol:
        return 1
    if st_fail:
        print("SELFTEST-FAIL property=%s: the checker itself is broken (%d self-test(s) failed); no verdict" % (prop, len(st_fail)))
        return 2
    print("OK property=%s obligations=%d discharged=%d known_findings=%d wall=%.1fs" % (prop, len(ctx.obs), len(oks), len(seen_known), wall))
    return 0
