#!/usr/bin/env python3
"""Regenerates /verif/MANIFEST.json from engine/registry.py (claimed checks) and tools/not_applicable.json."""
import json, os, sys
V = os.path.dirname(os.path.dirname(os.path.abspath(__file__)))
sys.path.insert(0, V)
from engine import registry
from engine.runner import PROPS
props = [json.loads(l) for l in open(os.path.join(V, "properties.jsonl"))]
na = json.load(open(os.path.join(V, "tools", "not_applicable.json")))
meta = json.load(open(os.path.join(V, "tools", "claims.json")))
checks = []
for p in props:
    pid = p["id"]
    if pid not in PROPS:
        continue
    m = meta[pid]
    checks.append({
        "property_id": pid,
        "quick_cmd": "./check %s quick" % pid,
        "thorough_cmd": "./check %s thorough" % pid,
        "evidence_file": "/verif/evidence/%s.json" % pid,
        "replay_cmd_template": "./check --explain {path}",
        "engine": "vp-static",
        "level_claimed": {"category": "other", "text": m["level_text"], "design_ref": m["design_ref"]},
        "level_note": m["level_note"],
        "technique": m["technique"],
    })
man = {
    "version": 1,
    "setup_cmd": "./setup.sh",
    "hooks": {"guard": "matter_labs_era_consensus_verif",
              "enable": "none needed: the checks are static (a rustc_private driver injected with RUSTC_WORKSPACE_WRAPPER under cargo +nightly check reads the unmodified build); no hook commits exist",
              "baseline_off_cmd": "cd /repo/node && (cargo nextest run --workspace --no-fail-fast --test-threads 8 --offline || cargo test --workspace --no-fail-fast --offline)",
              "source_commits": [], "add_only": True},
    "engines": [{"name": "vp-static", "path": "/verif/check", "serves_properties": [c["property_id"] for c in checks],
                 "kind_free_text": "static analysis: rustc_private MIR fact extractor (driver/) + Python rule engine (engine/, rules/) with reviewed tables (tables/)"}],
    "checks": checks,
    "notes": "All checks decide structural clauses from /repo's current source without executing it; see DESIGN.md. Known genuine defects are listed in known_findings.json.",
    "not_applicable": [{"property_id": p["id"], "reason": na.get(p["id"], "check not built yet (build in progress)")} for p in props if p["id"] not in PROPS],
}
json.dump(man, open(os.path.join(V, "MANIFEST.json"), "w"), indent=1)
print("claimed:", [c["property_id"] for c in checks])
